import Proofs.PageSet
import Proofs.CoDict
import Proofs.CoLinks
import Proofs.CoRules
import Proofs.CoSys
/-! C16 — every *section* of every generator state machine of `Traph/Co.lean` is a `Step` in the sense of
    `Proofs/ShapeOps.lean`.

    For each machine a *local invariant* says that what the generator remembers across a `yield` (cached
    block numbers, traversal stacks, the stale node copy of the block visited last) still denotes
    entries of the ghost tree of the *current* index. Local invariants are stable under the sections of
    all other machines (`….mono`: they only need `Ext` + the heap order `⊑`), and one section of the
    machine itself re-establishes it while the index moves by a `Step` whose added pages are a prefix of
    the machine's own `todo` list. -/
namespace Traph
open State Layout


/-! ## `index_batch_crawl_iter` -/

/-- the page cache of the generator: every cached LRU is an entry of the tree at the cached block, the
    block carries the page mark, and a cached `crawled` bit that is set is set in the index -/
def PCacheOk (s : State) (t : T) (pages : List (Bytes × Nat × Bool)) : Prop :=
  ∀ l n c, (l, n, c) ∈ pages → (lruIter l, n) ∈ t.entries s [] ∧ (s.cell n).flags.page = true ∧
    (c = true → (s.cell n).flags.crawled = true)

/-- stability under the sections of *other* generators -/
theorem PCacheOk.mono {s s' : State} {t t' : T} {pages : List (Bytes × Nat × Bool)}
    (h : Shape s t) (x : Ext s t s' t') (le : s ⊑ s') (hc : PCacheOk s t pages) : PCacheOk s' t' pages := by
  intro l n c hm
  obtain ⟨h1, h2, h3⟩ := hc l n c hm
  have hlt := entry_lt h h1
  have cl := le.cell_le n hlt
  exact ⟨x.keep _ _ h1, cl.page h2, fun hc => cl.crawled (h3 hc)⟩

theorem PCacheOk.set {s : State} {t : T} {pages : List (Bytes × Nat × Bool)} (hc : PCacheOk s t pages)
    {l : Bytes} {n : Nat} {c : Bool} (h1 : (lruIter l, n) ∈ t.entries s []) (h2 : (s.cell n).flags.page = true)
    (h3 : c = true → (s.cell n).flags.crawled = true) : PCacheOk s t (pagesSet pages l (n, c)) := by
  intro l' n' c' hm
  rcases Co.mem_dictSet pages l (n, c) (l', n', c') hm with e | hm
  · simp only [Prod.mk.injEq] at e
    obtain ⟨rfl, rfl, rfl⟩ := e
    exact ⟨h1, h2, h3⟩
  · exact hc l' n' c' hm

theorem co_pagesGet_mem {pages : List (Bytes × Nat × Bool)} {l : Bytes} {n : Nat} {c : Bool}
    (h : pagesGet pages l = some (n, c)) : (l, n, c) ∈ pages := dictGet?_mem pages l (n, c) h

theorem co_pageBlock_of_get {pages : List (Bytes × Nat × Bool)} {l : Bytes} {n : Nat} {c : Bool}
    (h : pagesGet pages l = some (n, c)) : pageBlock pages l = n := by
  unfold pageBlock; rw [h]; rfl

/-- the LRUs the generator has still to submit, in the order in which it will submit them: the targets
    left of the source in progress, then the remaining sources with their targets -/
def BatchSt.todo (b : BatchSt) : List (LRU × Bool × Bool) :=
  (match b.cur with
   | some (_, tgts, _) => tgts.map (fun x => (lruIter x, false, false))
   | none => []) ++ batchPages b.data

/-- an upper bound on the number of loop iterations the generator has still to run in its first phase
    (the second phase yields at every iteration) -/
def batchWork (b : BatchSt) : Nat :=
  match b.flush with
  | some _ => 0
  | none =>
    1 + (match b.cur with | some (_, tgts, _) => tgts.length + 1 | none => 0) +
      (b.data.map (fun d => d.2.length + 2)).sum

/-- local invariant of a crawl-batch generator -/
structure BatchOk (s : State) (t : T) (b : BatchSt) : Prop where
  cache  : PCacheOk s t b.pages
  wfData : ∀ d ∈ b.data, lruIter d.1 ≠ [] ∧ ∀ x ∈ d.2, lruIter x ≠ []
  wfCur  : ∀ src tgts tb, b.cur = some (src, tgts, tb) →
             (pagesGet b.pages src).isSome ∧ ∀ x ∈ tgts, lruIter x ≠ []
  phase  : ∀ l, b.flush = some l → b.data = [] ∧ b.cur = none

theorem BatchOk.mono {s s' : State} {t t' : T} {b : BatchSt}
    (h : Shape s t) (x : Ext s t s' t') (le : s ⊑ s') (hb : BatchOk s t b) : BatchOk s' t' b :=
  ⟨hb.cache.mono h x le, hb.wfData, hb.wfCur, hb.phase⟩

/-- a generator that has not started: nothing cached, the whole batch to do -/
def BatchSt.init (data : List (Bytes × List Bytes)) : BatchSt := { data := data }

theorem BatchOk.init (s : State) (t : T) (data : List (Bytes × List Bytes))
    (hwf : ∀ d ∈ data, lruIter d.1 ≠ [] ∧ ∀ x ∈ d.2, lruIter x ≠ []) : BatchOk s t (BatchSt.init data) :=
  ⟨fun _ _ _ hm => by simp [BatchSt.init] at hm, hwf, fun _ _ _ h => by simp [BatchSt.init] at h,
   fun _ h => by simp [BatchSt.init] at h⟩

theorem BatchSt.todo_init (data : List (Bytes × List Bytes)) : (BatchSt.init data).todo = batchPages data := rfl

/-- what one section of the crawl batch does (`r` is the result of `batchResume fuel s b`) -/
structure BatchSec (fuel : Nat) (s : State) (t : T) (b : BatchSt) (r : State × BatchSt × CoOut) (t' : T) :
    Prop where
  ext  : Ext s t r.1 t'
  le   : s ⊑ r.1
  link : CoLinkStep s r.1
  rules : RulesOk s → RulesOk r.1 ∧ ∀ e, r.2.2 = .failed e → e = .other "fuel"
  spec : Inv s t → BatchOk s t b → ∃ A rest, Adds s t r.1 t' A ∧ b.todo = A ++ rest ∧
    (r.2.2 = .yielded → BatchOk r.1 t' r.2.1 ∧ r.2.1.todo = rest ∧ batchWork r.2.1 ≤ batchWork b) ∧
    (∀ a, r.2.2 = .done a → rest = []) ∧
    (∀ e, r.2.2 = .failed e → e = .other "KeyError" ∨ (e = .other "fuel" ∧ fuel ≤ batchWork b))

/-- an iteration of the loop that does not yield, followed by the rest of the section -/
theorem BatchSec.compose {fuel : Nat} {s s1 : State} {t t1 t' : T} {b b1 : BatchSt} {r : State × BatchSt × CoOut}
    (x1 : Ext s t s1 t1) (l1 : s ⊑ s1) (k1 : CoLinkStep s s1) (q1 : RulesOk s → RulesOk s1)
    (h1 : Inv s t → BatchOk s t b → ∃ A1, Adds s t s1 t1 A1 ∧ b.todo = A1 ++ b1.todo ∧ BatchOk s1 t1 b1 ∧
      batchWork b1 < batchWork b)
    (h2 : BatchSec fuel s1 t1 b1 r t') : BatchSec (fuel + 1) s t b r t' where
  ext := x1.trans h2.ext
  le := l1.trans h2.le
  link := k1.trans h2.link
  rules := fun ok => h2.rules (q1 ok)
  spec := fun hi hb => by
    obtain ⟨A1, a1, e1, ok1, w1⟩ := h1 hi hb
    obtain ⟨A2, rest, a2, e2, hy, hd, hf⟩ := h2.spec a1.inv ok1
    refine ⟨A1 ++ A2, rest, a1.trans a2, by rw [e1, e2, List.append_assoc], fun ho => ?_, hd, fun e he => ?_⟩
    · obtain ⟨g1, g2, g3⟩ := hy ho
      exact ⟨g1, g2, by omega⟩
    · rcases hf e he with h | ⟨h, hw⟩
      · exact Or.inl h
      · exact Or.inr ⟨h, by omega⟩

theorem co_batchPages_cons (src : Bytes) (tgts : List Bytes) (more : List (Bytes × List Bytes)) :
    batchPages ((src, tgts) :: more) =
      (lruIter src, true, true) :: (tgts.map (fun x => (lruIter x, false, false)) ++ batchPages more) := by
  simp [batchPages, List.flatMap_cons]

/-- a page of the index may be "submitted" again without any effect -/
theorem co_adds_present {s : State} {t : T} (h : Shape s t) (hi : Inv s t) {p : LRU} {n : Nat}
    (hm : (p, n) ∈ t.entries s []) (hp : (s.cell n).flags.page = true) (hc : (s.cell n).flags.crawled = true) :
    Adds s t s t [(p, true, true)] :=
  adds_flagWrite h hi (NoStruct.refl s) hm true (fun _ _ => ⟨rfl, rfl⟩) hp (by rw [hc]; rfl)

/-- **every section of the crawl-batch generator is a `Step`** whose added pages are the next items of
    its `todo` list; the local invariant is re-established; the only possible failures are the
    `KeyError` of `__add_page` and the exhaustion of the section's fuel -/
theorem batchResume_sec : ∀ (fuel : Nat) (s : State) (t : T) (b : BatchSt), Shape s t →
    ∃ t', BatchSec fuel s t b (batchResume fuel s b) t'
  | 0, s, t, b, h => by
    refine ⟨t, Ext.refl h, Le.refl s, CoLinkStep.refl s, fun ok => ⟨ok, fun e he => ?_⟩,
      fun hi hb => ⟨[], b.todo, Adds.refl hi, rfl, ?_, ?_, ?_⟩⟩
    · simp only [batchResume, CoOut.failed.injEq] at he
      exact he.symm
    · intro ho; simp [batchResume] at ho
    · intro a ho; simp [batchResume] at ho
    · intro e he
      simp only [batchResume, CoOut.failed.injEq] at he
      exact Or.inr ⟨he.symm, Nat.zero_le _⟩
  | fuel + 1, s, t, ⟨data, cur, pendIn, pages, inl, flush, rep⟩, h => by
    have h0 : 0 < s.trie.size := h.live
    rw [batchResume]
    cases flush with
    | some fl =>
      cases fl with
      | nil =>
        refine ⟨t, Ext.refl h, Le.refl s, CoLinkStep.refl s, fun ok => ⟨ok, fun e he => by simp at he⟩,
          fun hi hb => ⟨[], _, Adds.refl hi, rfl, ?_, ?_, ?_⟩⟩
        · intro ho; simp at ho
        · intro a _
          obtain ⟨e1, e2⟩ := hb.phase [] rfl
          simp only at e1 e2
          subst e1 e2
          rfl
        · intro e he; simp at he
      | cons ts rest =>
        obtain ⟨tg, srcs⟩ := ts
        simp only
        have k := keeps_addStubs h (pageBlock pages tg) (srcs.map (pageBlock pages)) false
        have l := le_addStubs s (pageBlock pages tg) (srcs.map (pageBlock pages)) false
        refine ⟨t, k.ext, l, linkStep_addStubs s _ _ _,
          fun ok => ⟨rulesOk_addStubs h _ _ _ ok, fun e he => by simp at he⟩,
          fun hi hb => ⟨[], _, k.adds hi, rfl, ?_, ?_, ?_⟩⟩
        · intro _
          refine ⟨⟨hb.cache.mono h k.ext l, hb.wfData, hb.wfCur, fun l' _ => hb.phase _ rfl⟩, rfl, ?_⟩
          simp [batchWork]
        · intro a ho; simp at ho
        · intro e he; simp at he
    | none =>
      cases cur with
      | none =>
        cases data with
        | nil =>
          simp only
          obtain ⟨t', sec⟩ := batchResume_sec fuel s t
            { data := [], cur := none, pendIn := pendIn, pages := pages, inl := inl, flush := some inl, rep := rep } h
          refine ⟨t', BatchSec.compose (Ext.refl h) (Le.refl s) (CoLinkStep.refl s) id (fun hi hb => ⟨[], Adds.refl hi, rfl, ?_, ?_⟩) sec⟩
          · exact ⟨hb.cache, hb.wfData, hb.wfCur, fun _ _ => ⟨rfl, rfl⟩⟩
          · simp [batchWork]
        | cons d more =>
          obtain ⟨src, tgts⟩ := d
          simp only
          cases hg : pagesGet pages src with
          | none =>
            simp only
            obtain ⟨t1, x1, f1⟩ := addPageCore_step h src true
            have l1 := le_addPageCore s src true h0
            have k1 := (linkFrame_addPageCore s src true).step
            have q1 := rulesOk_addPageCore h src true
            have nf := fun ok => addPageCore_ok h ok src true
            rcases ha : s.addPageCore src true with ⟨s1, n, res⟩
            rw [ha] at x1 f1 l1 k1 q1 nf
            simp only at x1 f1 l1 k1 q1 nf
            cases res with
            | error e =>
              simp only
              refine ⟨t1, x1, l1, k1, fun ok => absurd (nf ok) (by simp), fun hi hb => ?_⟩
              have hne := (hb.wfData (src, tgts) (by simp)).1
              obtain ⟨_, _, g3⟩ := f1 hne
              refine ⟨[(lruIter src, true, true)],
                tgts.map (fun x => (lruIter x, false, false)) ++ batchPages more, (g3 hi).1, ?_, ?_, ?_, ?_⟩
              · show batchPages ((src, tgts) :: more) = _
                rw [co_batchPages_cons]; rfl
              · intro ho; simp at ho
              · intro a ho; simp at ho
              · intro e' he
                simp only [CoOut.failed.injEq] at he
                subst he
                exact Or.inl (addPageCore_err s src true e (by rw [ha]))
            | ok r =>
              simp only
              obtain ⟨t', sec⟩ := batchResume_sec fuel s1 t1
                { data := more, cur := some (src, tgts, []), pendIn := pendIn,
                  pages := pagesSet pages src (n, (s1.cell n).flags.crawled), inl := inl, flush := none,
                  rep := rep.add r } x1.shape
              refine ⟨t', BatchSec.compose x1 l1 k1 q1 (fun hi hb => ?_) sec⟩
              obtain ⟨hne, hnt⟩ := hb.wfData (src, tgts) (by simp)
              obtain ⟨g1, g2, g3⟩ := f1 hne
              refine ⟨[(lruIter src, true, true)], (g3 hi).1, ?_, ⟨?_, ?_, ?_, ?_⟩, ?_⟩
              · show batchPages ((src, tgts) :: more) = _
                rw [co_batchPages_cons]; rfl
              · exact (hb.cache.mono h x1 l1).set g1 g2 (fun hc => hc)
              · intro d hd; exact hb.wfData d (List.mem_cons_of_mem _ hd)
              · intro src' tgts' tb' e
                simp only [Option.some.injEq, Prod.mk.injEq] at e
                obtain ⟨rfl, rfl, rfl⟩ := e
                refine ⟨?_, hnt⟩
                show (dictGet? (dictSet pages src _) src).isSome
                rw [Co.dictGet?_dictSet_self]; rfl
              · intro l' hl; simp at hl
              · simp only [batchWork, List.map_cons, List.sum_cons]; omega
          | some v =>
            obtain ⟨n, cc⟩ := v
            simp only
            cases cc with
            | false =>
              simp only [Bool.not_false, if_true]
              have x1 := ext_markCrawled h n
              have l1 : s ⊑ s.modCell n (fun c => { c with flags := { c.flags with crawled := true } }) :=
                le_modCell _ _ _ (fun c _ => cellLe_flags_crawled c)
              have k1 : CoLinkStep s (s.modCell n (fun c => { c with flags := { c.flags with crawled := true } })) :=
                (linkFrame_modCell s n (fun c => { c with flags := { c.flags with crawled := true } })
                  (fun _ => ⟨rfl, rfl⟩)).step
              have q1 : RulesOk s → RulesOk (s.modCell n (fun c => { c with flags := { c.flags with crawled := true } })) :=
                rulesOk_modCell h n _ (fun _ => ⟨rfl, rfl, rfl, rfl, rfl⟩) (fun _ => rfl)
              obtain ⟨t', sec⟩ := batchResume_sec fuel _ t
                { data := more, cur := some (src, tgts, []), pendIn := pendIn,
                  pages := pagesSet pages src (n, true), inl := inl, flush := none, rep := rep } x1.shape
              refine ⟨t', BatchSec.compose x1 l1 k1 q1 (fun hi hb => ?_) sec⟩
              obtain ⟨hne, hnt⟩ := hb.wfData (src, tgts) (by simp)
              obtain ⟨c1, c2, _⟩ := hb.cache src n false (co_pagesGet_mem hg)
              have hlt := entry_lt h c1
              refine ⟨[(lruIter src, true, true)], adds_markCrawled h hi c1 c2, ?_, ⟨?_, ?_, ?_, ?_⟩, ?_⟩
              · show batchPages ((src, tgts) :: more) = _
                rw [co_batchPages_cons]; rfl
              · refine (hb.cache.mono h x1 l1).set (x1.keep _ _ c1) ((l1.cell_le n hlt).page c2) (fun _ => ?_)
                rw [cell_modCell, if_pos ⟨rfl, hlt⟩]
              · intro d hd; exact hb.wfData d (List.mem_cons_of_mem _ hd)
              · intro src' tgts' tb' e
                simp only [Option.some.injEq, Prod.mk.injEq] at e
                obtain ⟨rfl, rfl, rfl⟩ := e
                refine ⟨?_, hnt⟩
                show (dictGet? (dictSet pages src _) src).isSome
                rw [Co.dictGet?_dictSet_self]; rfl
              · intro l' hl; simp at hl
              · simp only [batchWork, List.map_cons, List.sum_cons]; omega
            | true =>
              simp only [Bool.not_true, Bool.false_eq_true, if_false]
              obtain ⟨t', sec⟩ := batchResume_sec fuel s t
                { data := more, cur := some (src, tgts, []), pendIn := pendIn,
                  pages := pages, inl := inl, flush := none, rep := rep } h
              refine ⟨t', BatchSec.compose (Ext.refl h) (Le.refl s) (CoLinkStep.refl s) id (fun hi hb => ?_) sec⟩
              obtain ⟨hne, hnt⟩ := hb.wfData (src, tgts) (by simp)
              obtain ⟨c1, c2, c3⟩ := hb.cache src n true (co_pagesGet_mem hg)
              refine ⟨[(lruIter src, true, true)], co_adds_present h hi c1 c2 (c3 rfl), ?_, ⟨hb.cache, ?_, ?_, ?_⟩, ?_⟩
              · show batchPages ((src, tgts) :: more) = _
                rw [co_batchPages_cons]; rfl
              · intro d hd; exact hb.wfData d (List.mem_cons_of_mem _ hd)
              · intro src' tgts' tb' e
                simp only [Option.some.injEq, Prod.mk.injEq] at e
                obtain ⟨rfl, rfl, rfl⟩ := e
                exact ⟨by rw [hg]; rfl, hnt⟩
              · intro l' hl; simp at hl
              · simp only [batchWork, List.map_cons, List.sum_cons]; omega
      | some cu =>
        obtain ⟨src, tgts, tb⟩ := cu
        simp only
        cases tgts with
        | nil =>
          simp only
          have k := keeps_addStubs h (pageBlock pages src) tb true
          have l := le_addStubs s (pageBlock pages src) tb true
          obtain ⟨t', sec⟩ := batchResume_sec fuel (s.addStubs (pageBlock pages src) tb true) t
            { data := data, cur := none, pendIn := none,
              pages := pagesSet pages src (pageBlock pages src, (s.cell (pageBlock pages src)).flags.crawled),
              inl := (match pendIn with | some t => multiAdd inl t src | none => inl), flush := none, rep := rep } k.shape
          refine ⟨t', BatchSec.compose k.ext l (linkStep_addStubs s _ _ _) (rulesOk_addStubs h _ _ _) (fun hi hb => ?_) sec⟩
          obtain ⟨hsome, _⟩ := hb.wfCur src [] tb rfl
          simp only at hsome
          obtain ⟨⟨n, cc⟩, hg⟩ := Option.isSome_iff_exists.mp hsome
          obtain ⟨c1, c2, c3⟩ := hb.cache src n cc (co_pagesGet_mem hg)
          have hlt := entry_lt h c1
          have hpb := co_pageBlock_of_get hg
          subst hpb
          refine ⟨[], k.adds hi, ?_, ⟨?_, hb.wfData, ?_, ?_⟩, ?_⟩
          · simp [BatchSt.todo]
          · exact (hb.cache.mono h k.ext l).set (k.ext.keep _ _ c1) ((l.cell_le _ hlt).page c2)
              (fun hc => (l.cell_le _ hlt).crawled hc)
          · intro src' tgts' tb' e; simp at e
          · intro l' hl; simp at hl
          · simp only [batchWork, List.length_nil]; omega
        | cons tg ts =>
          simp only
          cases hg : pagesGet pages tg with
          | none =>
            simp only
            obtain ⟨t1, x1, f1⟩ := addPageCore_step h tg false
            have l1 := le_addPageCore s tg false h0
            have k1 := (linkFrame_addPageCore s tg false).step
            have q1 := rulesOk_addPageCore h tg false
            have nf := fun ok => addPageCore_ok h ok tg false
            rcases ha : s.addPageCore tg false with ⟨s1, n, res⟩
            rw [ha] at x1 f1 l1 k1 q1 nf
            simp only at x1 f1 l1 k1 q1 nf
            cases res with
            | error e =>
              simp only
              refine ⟨t1, x1, l1, k1, fun ok => absurd (nf ok) (by simp), fun hi hb => ?_⟩
              obtain ⟨hsome, hnt⟩ := hb.wfCur src (tg :: ts) tb rfl
              obtain ⟨_, _, g3⟩ := f1 (hnt tg (by simp))
              refine ⟨[(lruIter tg, false, false)],
                ts.map (fun x => (lruIter x, false, false)) ++ batchPages data, (g3 hi).1, ?_, ?_, ?_, ?_⟩
              · simp only [BatchSt.todo, List.map_cons, List.cons_append, List.nil_append]
              · intro ho; simp at ho
              · intro a ho; simp at ho
              · intro e' he
                simp only [CoOut.failed.injEq] at he
                subst he
                exact Or.inl (addPageCore_err s tg false e (by rw [ha]))
            | ok r =>
              simp only
              refine ⟨t1, x1, l1, k1, fun ok => ⟨q1 ok, fun e he => by simp at he⟩, fun hi hb => ?_⟩
              obtain ⟨hsome, hnt⟩ := hb.wfCur src (tg :: ts) tb rfl
              obtain ⟨g1, g2, g3⟩ := f1 (hnt tg (by simp))
              refine ⟨[(lruIter tg, false, false)],
                ts.map (fun x => (lruIter x, false, false)) ++ batchPages data, (g3 hi).1, ?_, ?_, ?_, ?_⟩
              · simp only [BatchSt.todo, List.map_cons, List.cons_append, List.nil_append]
              · intro _
                refine ⟨⟨?_, hb.wfData, ?_, ?_⟩, rfl, ?_⟩
                · exact (hb.cache.mono h x1 l1).set g1 g2 (fun hc => hc)
                · intro src' tgts' tb' e
                  simp only [Option.some.injEq, Prod.mk.injEq] at e
                  obtain ⟨rfl, rfl, rfl⟩ := e
                  exact ⟨Co.dictGet?_dictSet_isSome pages tg _ src hsome, fun x hx => hnt x (List.mem_cons_of_mem _ hx)⟩
                · intro l' hl; simp at hl
                · simp only [batchWork, List.length_cons]; omega
              · intro a ho; simp at ho
              · intro e' he; simp at he
          | some v =>
            obtain ⟨n, cc⟩ := v
            simp only
            obtain ⟨t', sec⟩ := batchResume_sec fuel s t
              { data := data, cur := some (src, ts, tb ++ [n]), pendIn := none, pages := pages,
                inl := multiAdd (match pendIn with | some t => multiAdd inl t src | none => inl) tg src,
                flush := none, rep := rep } h
            refine ⟨t', BatchSec.compose (Ext.refl h) (Le.refl s) (CoLinkStep.refl s) id (fun hi hb => ?_) sec⟩
            obtain ⟨hsome, hnt⟩ := hb.wfCur src (tg :: ts) tb rfl
            obtain ⟨c1, c2, _⟩ := hb.cache tg n cc (co_pagesGet_mem hg)
            refine ⟨[(lruIter tg, false, false)], Adds.of_isPage hi ⟨n, c1, c2⟩ false, ?_, ⟨hb.cache, hb.wfData, ?_, ?_⟩, ?_⟩
            · simp only [BatchSt.todo, List.map_cons, List.cons_append, List.nil_append]
            · intro src' tgts' tb' e
              simp only [Option.some.injEq, Prod.mk.injEq] at e
              obtain ⟨rfl, rfl, rfl⟩ := e
              exact ⟨hsome, fun x hx => hnt x (List.mem_cons_of_mem _ hx)⟩
            · intro l' hl; simp at hl
            · simp only [batchWork, List.length_cons]; omega

/-! ## `add_webentity_creation_rule_iter` -/

/-- first section only: register the rule in RAM, insert the anchor, flag it, start the walk there -/
def ruleStart (s : State) (r : RuleSt) : State × RuleSt :=
  if r.started then (s, r) else
    ((({ s with rules := dictSet s.rules r.anchor r.rule } : State).addLru (lruIter r.anchor) false).1.modCell
        (({ s with rules := dictSet s.rules r.anchor r.rule } : State).addLru (lruIter r.anchor) false).2.1
        (fun c => { c with flags := { c.flags with rule := true } }),
     { r with started := true,
              start := (({ s with rules := dictSet s.rules r.anchor r.rule } : State).addLru (lruIter r.anchor) false).2.1,
              stack := [((({ s with rules := dictSet s.rules r.anchor r.rule } : State).addLru (lruIter r.anchor) false).2.1,
                         lruDirname r.anchor)] })

/-- every section: expand the node visited last from its stale copy, pop, re-insert if a page, yield -/
def ruleBody (s : State) (r : RuleSt) : State × RuleSt × CoOut :=
  match (match r.pend with
         | some (b, lru, cur, c) => ruleNext r.start b c lru cur r.stack
         | none => r.stack) with
  | [] => (s, { r with stack := [], pend := none }, .done (.report r.rep))
  | (b, lru) :: rest =>
    if (s.cell b).flags.page then
      match s.addPageCore (lru ++ s.stemAt b) false with
      | (s1, _, .error e) => (s1, { r with stack := rest, pend := none }, .failed e)
      | (s1, _, .ok r1) =>
        (s1, { r with stack := rest, pend := some (b, lru, lru ++ s.stemAt b, s.cell b), rep := r.rep.add r1 }, .yielded)
    else (s, { r with stack := rest, pend := some (b, lru, lru ++ s.stemAt b, s.cell b) }, .yielded)

theorem ruleResume_eq (s : State) (r : RuleSt) :
    ruleResume s r = ruleBody (ruleStart s r).1 (ruleStart s r).2 := by
  unfold ruleResume ruleStart ruleBody
  by_cases h : r.started = true
  · simp only [h, if_true]; rfl
  · simp only [h]; rfl

/-- local invariant of a rule-installation generator: before its first section the anchor is a
    well-formed LRU; afterwards the stack holds blocks of the tree with the flattened paths of their
    parents, and the stale copy of the block visited last is below the block's current contents in the
    heap order (so the pointers it holds are still the block's pointers) -/
structure RuleOk (s : State) (t : T) (r : RuleSt) : Prop where
  fresh : r.started = false → r.pend = none ∧ lruIter r.anchor ≠ []
  stack : r.started = true → StackOk s t r.stack
  pend  : r.started = true → ∀ b lru cur c, r.pend = some (b, lru, cur, c) →
            CellLe c (s.cell b) ∧ ∃ p, (p, b) ∈ t.entries s [] ∧ lru = p.dropLast.flatten ∧ cur = p.flatten

theorem RuleOk.mono {s s' : State} {t t' : T} {r : RuleSt}
    (h : Shape s t) (x : Ext s t s' t') (le : s ⊑ s') (hr : RuleOk s t r) : RuleOk s' t' r where
  fresh := hr.fresh
  stack := fun hs => (hr.stack hs).mono x
  pend := fun hs b lru cur c hp => by
    obtain ⟨cl, p, hm, e1, e2⟩ := hr.pend hs b lru cur c hp
    exact ⟨cl.trans (le.cell_le b (entry_lt h hm)), p, x.keep _ _ hm, e1, e2⟩

def RuleSt.init (anchor : Bytes) (rule : Rule) : RuleSt := { anchor := anchor, rule := rule }

theorem RuleOk.init (s : State) (t : T) (anchor : Bytes) (rule : Rule) (hwf : lruIter anchor ≠ []) :
    RuleOk s t (RuleSt.init anchor rule) :=
  ⟨fun _ => ⟨rfl, hwf⟩, fun h => by simp [RuleSt.init] at h, fun h => by simp [RuleSt.init] at h⟩

/-- pushing the pointers of a *stale* copy of an entry keeps the stack sound: a pointer that was set
    when the copy was read is still the block's pointer -/
theorem stackOk_push_stale {s : State} {t : T} (h : Shape s t) {start b : Nat} {lru cur : Bytes} {c : Cell}
    {stack : List (Nat × Bytes)} (hs : StackOk s t stack) (cl : CellLe c (s.cell b))
    {p : LRU} (hp : (p, b) ∈ t.entries s []) (e1 : lru = p.dropLast.flatten) (e2 : cur = p.flatten) :
    StackOk s t (ruleNext start b c lru cur stack) := by
  intro b' lru' hm
  obtain ⟨q, e, f1, f2, f3⟩ := entries_last_and_ptrs t [] p b h.rep hp
  have hq : p.dropLast = q := by rw [e, List.dropLast_concat]
  rcases mem_ruleNext hm with hm | ⟨hm, hne⟩ | ⟨hm, hne⟩ | ⟨hm, hne⟩
  · exact hs b' lru' hm
  · obtain ⟨rfl, rfl⟩ := Prod.mk.inj hm
    have e' := cl.right hne
    have hent := f2 (by rw [e']; exact hne)
    rw [e'] at hent
    exact ⟨_, hent, by rw [List.dropLast_concat, e1, hq]⟩
  · obtain ⟨rfl, rfl⟩ := Prod.mk.inj hm
    have e' := cl.left hne
    have hent := f1 (by rw [e']; exact hne)
    rw [e'] at hent
    exact ⟨_, hent, by rw [List.dropLast_concat, e1, hq]⟩
  · obtain ⟨rfl, rfl⟩ := Prod.mk.inj hm
    have e' := cl.child hne
    have hent := f3 (by rw [e']; exact hne)
    rw [e'] at hent
    exact ⟨_, hent, by rw [List.dropLast_concat, e2]⟩

/-- what one section of the rule installation does -/
structure RuleSec (s : State) (t : T) (r : RuleSt) (res : State × RuleSt × CoOut) (t' : T) : Prop where
  ext  : Ext s t res.1 t'
  le   : s ⊑ res.1
  link : CoLinkStep s res.1
  rules : RulesOk s → (r.started = false → lruIter r.anchor ≠ [] ∧ (lruIter r.anchor).flatten = r.anchor) →
    RulesOk res.1 ∧ ∀ e, res.2.2 ≠ .failed e
  spec : Inv s t → RuleOk s t r → Adds s t res.1 t' [] ∧
    (res.2.2 = .yielded → RuleOk res.1 t' res.2.1) ∧
    (∀ e, res.2.2 = .failed e → e = .other "KeyError")

theorem ruleStart_rules {s : State} {t : T} (h : Shape s t) (r : RuleSt)
    (hcanon : r.started = false → lruIter r.anchor ≠ [] ∧ (lruIter r.anchor).flatten = r.anchor)
    (ok : RulesOk s) : RulesOk (ruleStart s r).1 := by
  unfold ruleStart
  by_cases hs : r.started = true
  · rw [if_pos hs]; exact ok
  · rw [if_neg hs]
    have hsf : r.started = false := by simpa using hs
    obtain ⟨hne, hc⟩ := hcanon hsf
    exact rulesOk_installAnchor h r.anchor r.rule hne hc ok

theorem ruleBody_rules {s : State} {t : T} (h : Shape s t) (r : RuleSt) (ok : RulesOk s) :
    RulesOk (ruleBody s r).1 ∧ ∀ e, (ruleBody s r).2.2 ≠ .failed e := by
  unfold ruleBody
  split
  · exact ⟨ok, fun e he => by simp at he⟩
  · rename_i b lru rest _
    split
    · have q1 := rulesOk_addPageCore h (lru ++ s.stemAt b) false ok
      obtain ⟨r1, hr1⟩ := addPageCore_ok h ok (lru ++ s.stemAt b) false
      rcases ha : s.addPageCore (lru ++ s.stemAt b) false with ⟨s1, n, res⟩
      rw [ha] at q1 hr1
      simp only at q1 hr1
      subst hr1
      exact ⟨q1, fun e he => by simp at he⟩
    · exact ⟨ok, fun e he => by simp at he⟩

theorem ruleStart_sec {s : State} {t : T} (h : Shape s t) (r : RuleSt) :
    ∃ t', Ext s t (ruleStart s r).1 t' ∧ s ⊑ (ruleStart s r).1 ∧ CoLinkStep s (ruleStart s r).1 ∧
      (Inv s t → RuleOk s t r → Adds s t (ruleStart s r).1 t' [] ∧ RuleOk (ruleStart s r).1 t' (ruleStart s r).2 ∧
        (ruleStart s r).2.started = true) := by
  unfold ruleStart
  by_cases hs : r.started = true
  · rw [if_pos hs]
    exact ⟨t, Ext.refl h, Le.refl s, CoLinkStep.refl s, fun hi hr => ⟨Adds.refl hi, hr, hs⟩⟩
  · rw [if_neg hs]
    have k0 : Keeps s t { s with rules := dictSet s.rules r.anchor r.rule } t := Keeps.of_trie_eq h rfl
    have l0 : s ⊑ { s with rules := dictSet s.rules r.anchor r.rule } := Le.of_eq rfl rfl
    obtain ⟨t1, k1, hent⟩ := keeps_addLruIter k0.shape r.anchor false
    have l1 := addLru_le' { s with rules := dictSet s.rules r.anchor r.rule } (lruIter r.anchor) false h.live
    have q1 := linkFrame_addLru { s with rules := dictSet s.rules r.anchor r.rule } (lruIter r.anchor) false
    rcases ha : State.addLru { s with rules := dictSet s.rules r.anchor r.rule } (lruIter r.anchor) false with ⟨s1, n, hh⟩
    rw [ha] at k1 hent l1 q1
    simp only at k1 hent l1 q1 ⊢
    have k2 := keeps_setRule k1.shape n true
    have l2 : s1 ⊑ s1.modCell n (fun c => { c with flags := { c.flags with rule := true } }) :=
      le_modCell _ _ _ (fun c _ => cellLe_setRule c true)
    have q2 : LinkFrame s1 (s1.modCell n (fun c => { c with flags := { c.flags with rule := true } })) :=
      linkFrame_modCell s1 n (fun c => { c with flags := { c.flags with rule := true } }) (fun _ => ⟨rfl, rfl⟩)
    refine ⟨t1, k0.ext.trans (k1.ext.trans k2.ext), l0.trans (l1.trans l2),
      ((LinkFrame.of_eq rfl rfl : LinkFrame s { s with rules := dictSet s.rules r.anchor r.rule }).trans
        (q1.trans q2)).step, fun hi hr => ?_⟩
    have hsf : r.started = false := by simpa using hs
    obtain ⟨hpn, hne⟩ := hr.fresh hsf
    have a0 := k0.adds hi
    have a1 := k1.adds a0.inv
    have a2 := k2.adds a1.inv
    refine ⟨a0.trans (a1.trans a2), ⟨fun hx => by simp at hx, fun _ => ?_, fun _ b lru cur c hp => ?_⟩, trivial⟩
    · intro b lru hm
      simp only [List.mem_singleton, Prod.mk.injEq] at hm
      obtain ⟨rfl, rfl⟩ := hm
      exact ⟨lruIter r.anchor, k2.ext.keep _ _ (hent hne), rfl⟩
    · simp only at hp
      rw [hpn] at hp
      cases hp

theorem ruleBody_sec {s : State} {t : T} (h : Shape s t) (r : RuleSt) :
    ∃ t', Ext s t (ruleBody s r).1 t' ∧ s ⊑ (ruleBody s r).1 ∧ CoLinkStep s (ruleBody s r).1 ∧
      (Inv s t → RuleOk s t r → r.started = true → Adds s t (ruleBody s r).1 t' [] ∧
        ((ruleBody s r).2.2 = .yielded → RuleOk (ruleBody s r).1 t' (ruleBody s r).2.1) ∧
        (∀ e, (ruleBody s r).2.2 = .failed e → e = .other "KeyError")) := by
  unfold ruleBody
  have hstack : RuleOk s t r → r.started = true →
      StackOk s t (match r.pend with
         | some (b, lru, cur, c) => ruleNext r.start b c lru cur r.stack
         | none => r.stack) := by
    intro hr hs
    split
    · rename_i b lru cur c hp
      obtain ⟨cl, p, hm, e1, e2⟩ := hr.pend hs b lru cur c hp
      exact stackOk_push_stale h (hr.stack hs) cl hm e1 e2
    · exact hr.stack hs
  generalize (match r.pend with
         | some (b, lru, cur, c) => ruleNext r.start b c lru cur r.stack
         | none => r.stack) = stack at hstack
  cases stack with
  | nil =>
    simp only
    refine ⟨t, Ext.refl h, Le.refl s, CoLinkStep.refl s, fun hi hr hs => ⟨Adds.refl hi, fun ho => by simp at ho, fun e he => by simp at he⟩⟩
  | cons top rest =>
    obtain ⟨b, lru⟩ := top
    simp only
    have hrest : ∀ {s' : State} {t' : T}, Ext s t s' t' → s ⊑ s' → RuleOk s t r → r.started = true →
        ∀ rep, RuleOk s' t' { r with stack := rest, pend := some (b, lru, lru ++ s.stemAt b, s.cell b), rep := rep } := by
      intro s' t' x le hr hs rep
      have so := hstack hr hs
      refine ⟨fun hx => by simp [hs] at hx, fun _ => ?_, fun _ b' lru' cur' c' hp => ?_⟩
      · exact StackOk.mono x (fun b' lru' hm => so b' lru' (List.mem_cons_of_mem _ hm))
      · simp only [Option.some.injEq, Prod.mk.injEq] at hp
        obtain ⟨rfl, rfl, rfl, rfl⟩ := hp
        obtain ⟨p, hm, e1⟩ := so b lru (by simp)
        obtain ⟨q, e, _⟩ := entries_last_and_ptrs t [] p b h.rep hm
        refine ⟨le.cell_le b (entry_lt h hm), p, x.keep _ _ hm, e1, ?_⟩
        rw [e1, e, List.dropLast_concat]; simp
    by_cases hpg : (s.cell b).flags.page = true
    · rw [if_pos hpg]
      obtain ⟨t1, x1, f1⟩ := ruleVisit_step h b lru r.rep
      have l1 := le_addPageCore s (lru ++ s.stemAt b) false h.live
      have q1 := (linkFrame_addPageCore s (lru ++ s.stemAt b) false).step
      unfold ruleVisit at x1 f1
      rw [if_pos hpg] at x1 f1
      rcases ha : s.addPageCore (lru ++ s.stemAt b) false with ⟨s1, n, res⟩
      rw [ha] at x1 f1 l1 q1
      cases res with
      | error e =>
        simp only at x1 f1 l1 q1 ⊢
        refine ⟨t1, x1, l1, q1, fun hi hr hs => ⟨(f1 hi ((hstack hr hs) b lru (by simp))).1, fun ho => by simp at ho, fun e' he => ?_⟩⟩
        simp only [CoOut.failed.injEq] at he
        subst he
        exact addPageCore_err s _ false e (by rw [ha])
      | ok r1 =>
        simp only at x1 f1 l1 q1 ⊢
        refine ⟨t1, x1, l1, q1, fun hi hr hs => ⟨(f1 hi ((hstack hr hs) b lru (by simp))).1, fun _ => ?_, fun e' he => by simp at he⟩⟩
        exact hrest x1 l1 hr hs _
    · rw [if_neg hpg]
      refine ⟨t, Ext.refl h, Le.refl s, CoLinkStep.refl s, fun hi hr hs => ⟨Adds.refl hi, fun _ => ?_, fun e' he => by simp at he⟩⟩
      exact hrest (Ext.refl h) (Le.refl s) hr hs r.rep

/-- **every section of the rule-installation generator is a `Keeps`**: shape kept, no page added or lost,
    local invariant re-established; the only possible failure is the `KeyError` of `__add_page` -/
theorem ruleResume_sec {s : State} {t : T} (h : Shape s t) (r : RuleSt) :
    ∃ t', RuleSec s t r (ruleResume s r) t' := by
  rw [ruleResume_eq]
  obtain ⟨t1, x1, l1, q1, f1⟩ := ruleStart_sec h r
  obtain ⟨t2, x2, l2, q2, f2⟩ := ruleBody_sec x1.shape (ruleStart s r).2
  refine ⟨t2, x1.trans x2, l1.trans l2, q1.trans q2,
    fun ok hc => ruleBody_rules x1.shape _ (ruleStart_rules h r hc ok), fun hi hr => ?_⟩
  obtain ⟨a1, ok1, hs1⟩ := f1 hi hr
  obtain ⟨a2, hy, hf⟩ := f2 a1.inv ok1 hs1
  exact ⟨a1.trans a2, hy, hf⟩

theorem ruleStart_started (s : State) (r : RuleSt) : (ruleStart s r).2.started = true := by
  unfold ruleStart
  by_cases hs : r.started = true
  · rw [if_pos hs]; exact hs
  · rw [if_neg hs]

theorem ruleBody_started (s : State) (r : RuleSt) : (ruleBody s r).2.1.started = r.started := by
  unfold ruleBody
  split
  · rfl
  · split
    · split <;> rfl
    · rfl

/-- after its first section a rule installation has registered its rule -/
theorem ruleResume_started (s : State) (r : RuleSt) : (ruleResume s r).2.1.started = true := by
  rw [ruleResume_eq, ruleBody_started, ruleStart_started]

end Traph

import Traph
/-! C11 at the level of requests: re-supplying the current rules on reopen gives back the very same state. -/
namespace Traph
open State

theorem dictSet_keys_nodup {β} (d : List (Bytes × β)) (k : Bytes) (v : β) (h : (d.map (·.1)).Nodup) :
    ((dictSet d k v).map (·.1)).Nodup := by
  induction d with
  | nil => simp [dictSet]
  | cons a as ih =>
    obtain ⟨k', v'⟩ := a
    simp only [List.map_cons, List.nodup_cons] at h
    simp only [dictSet]
    split
    · simpa using h
    · rename_i hne
      simp only [List.map_cons, List.nodup_cons]
      refine ⟨?_, ih h.2⟩
      intro hm
      have key : ∀ (d : List (Bytes × β)), k' ∈ (dictSet d k v).map (·.1) → k' = k ∨ k' ∈ d.map (·.1) := by
        intro d
        induction d with
        | nil => simp [dictSet]
        | cons b bs ihb =>
          obtain ⟨kb, vb⟩ := b
          simp only [dictSet]
          split
          · simp only [List.map_cons, List.mem_cons]; intro h; exact Or.inr h
          · simp only [List.map_cons, List.mem_cons]
            rintro (h | h)
            · exact Or.inr (Or.inl h)
            · rcases ihb h with h | h
              · exact Or.inl h
              · exact Or.inr (Or.inr h)
      rcases key as hm with h' | h'
      · exact hne h'
      · exact h.1 h'

/-- `dictSet` of a fresh key appends -/
theorem dictSet_fresh {β} (d : List (Bytes × β)) (k : Bytes) (v : β) (h : k ∉ d.map (·.1)) : dictSet d k v = d ++ [(k, v)] := by
  induction d with
  | nil => rfl
  | cons a as ih =>
    obtain ⟨k', v'⟩ := a
    simp only [List.map_cons, List.mem_cons, not_or] at h
    simp only [dictSet]
    rw [if_neg (fun e => h.1 e.symm), ih h.2]; rfl

/-- rebuilding a dict with distinct keys from its own items gives it back -/
theorem foldl_dictSet_self {β} (d : List (Bytes × β)) (h : (d.map (·.1)).Nodup) :
    ∀ acc : List (Bytes × β), (∀ k ∈ acc.map (·.1), k ∉ d.map (·.1)) → (acc.map (·.1)).Nodup →
      d.foldl (fun dd ar => dictSet dd ar.1 ar.2) acc = acc ++ d := by
  induction d with
  | nil => intro acc _ _; simp
  | cons a as ih =>
    intro acc hdis hacc
    obtain ⟨k, v⟩ := a
    simp only [List.map_cons, List.nodup_cons] at h
    have hk : k ∉ acc.map (·.1) := fun hm => hdis k hm (by simp)
    simp only [List.foldl_cons]
    rw [dictSet_fresh acc k v hk]
    rw [ih h.2 (acc ++ [(k, v)])]
    · simp
    · intro x hx
      simp only [List.map_append, List.map_cons, List.map_nil, List.mem_append, List.mem_singleton] at hx
      rcases hx with hx | rfl
      · intro hm; exact hdis x hx (by simp [hm])
      · exact h.1
    · simp only [List.map_append, List.map_cons, List.map_nil]
      rw [List.nodup_append]
      refine ⟨hacc, by simp, ?_⟩
      intro x hx y hy
      simp only [List.mem_singleton] at hy
      subst hy
      intro e; subst e; exact hk hx

/-- closing and reopening with the same default rule and the same rules is the identity on the model state -/
theorem reopen_same (s : State) (h : (s.rules.map (·.1)).Nodup) : s.reopen s.dflt s.rules = s := by
  unfold reopen
  rw [foldl_dictSet_self s.rules h [] (by simp) (by simp)]
  simp

/-- the RAM dict always has distinct anchors -/
theorem addRule_rules_nodup (s : State) (a : Bytes) (r : Rule) (h : (s.rules.map (·.1)).Nodup) :
    (({ s with rules := dictSet s.rules a r } : State).rules.map (·.1)).Nodup := dictSet_keys_nodup s.rules a r h

end Traph

import Proofs.Trace
/-! C18, pointer safety ("can be traversed and queried without failure").

    In the model a read of a block index ≥ size is totalised (`State.cell` returns the default cell,
    `findSib` answers `.corrupt`, `walkGo` stops, `readTail` stops); the Python code would read garbage
    defaults or raise. So "no read follows a pointer outside the files" is an explicit invariant here.

    `PtrOkAt s d` — `d` is the length of the *complete prefix* of the trie file:
    * every pointer stored anywhere (left / right / child / parent of every block, target of every
      stub) is `< d`; every list head and every `prev` is `< links.size`;
    * the tail chain of every block below `d` ends below `d`;
    * the blocks from `d` to the end of file all announce a further tail block (`run`): they are the
      head (and first tails) of the one node whose tail blocks are not all there yet.
    `Whole s` is `PtrOkAt s s.trie.size`: no dangling tail announcement; true at every request
    boundary. Between the head block of a long-stem node and its last tail block the state is
    `PtrOkAt s d` with `d` = index of that head: nothing points to it yet (the pointer is stored
    only after the last tail block), EXCEPT that block 1 is the root by convention: a cut inside the
    very first node of the trie (stem longer than one block) leaves `d = 1 < size`.

    `PTrace` is `Trace` with the invariant carried by every single write. -/
namespace Traph
open State

/-- the pointer fields of one trie block are in range -/
structure CellOk (c : Cell) (d nl : Nat) : Prop where
  left   : c.left < d
  right  : c.right < d
  child  : c.child < d
  parent : c.parent < d
  out    : c.out < nl
  inn    : c.inn < nl

theorem CellOk.mono {c : Cell} {d nl d' nl' : Nat} (h : CellOk c d nl) (hd : d ≤ d') (hn : nl ≤ nl') :
    CellOk c d' nl' :=
  ⟨Nat.lt_of_lt_of_le h.left hd, Nat.lt_of_lt_of_le h.right hd, Nat.lt_of_lt_of_le h.child hd,
   Nat.lt_of_lt_of_le h.parent hd, Nat.lt_of_lt_of_le h.out hn, Nat.lt_of_lt_of_le h.inn hn⟩

theorem cellOk_default {d nl : Nat} (hd : 0 < d) (hn : 0 < nl) : CellOk {} d nl :=
  ⟨hd, hd, hd, hd, hn, hn⟩

/-- pointer safety of the two files, `d` = length of the complete prefix of the trie file -/
structure PtrOkAt (s : State) (d : Nat) : Prop where
  dpos  : 0 < d
  dle   : d ≤ s.trie.size
  lpos  : 0 < s.links.size
  cells : ∀ (b : Nat) (c : Cell), s.trie[b]? = some c → CellOk c d s.links.size
  stubs : ∀ (j : Nat) (st : Stub), s.links[j]? = some st → st.prev < s.links.size ∧ st.target < d
  tails : ∀ (b : Nat) (c : Cell), s.trie[b]? = some c → b < d → c.flags.hasTail = true → b + 1 < d
  run   : ∀ (b : Nat) (c : Cell), s.trie[b]? = some c → d ≤ b → c.flags.hasTail = true

/-- no dangling tail announcement: the whole trie file is complete -/
def Whole (s : State) : Prop := PtrOkAt s s.trie.size

/-- pointer safety for some complete prefix — the invariant of EVERY cut -/
def PtrOk (s : State) : Prop := ∃ d, PtrOkAt s d

theorem Whole.ptrOk {s : State} (h : Whole s) : PtrOk s := ⟨_, h⟩

theorem PtrOkAt.live {s : State} {d : Nat} (h : PtrOkAt s d) : Live s :=
  ⟨Nat.lt_of_lt_of_le h.dpos h.dle, h.lpos⟩

/-- the complete prefix is determined by the file -/
theorem PtrOkAt.unique {s : State} {d d' : Nat} (h : PtrOkAt s d) (h' : PtrOkAt s d') : d = d' := by
  have key : ∀ {a b : Nat}, PtrOkAt s a → PtrOkAt s b → ¬ a < b := by
    intro a b ha hb hlt
    have hb1 : b - 1 < s.trie.size := by have := hb.dle; omega
    have hget : s.trie[b - 1]? = some s.trie[b - 1] := by simp [hb1]
    have hrun := ha.run (b - 1) _ hget (by omega)
    have := hb.tails (b - 1) _ hget (by omega) hrun
    omega
  have h1 := key h h'
  have h2 := key h' h
  omega

theorem PtrOkAt.of_eq {s s' : State} {d : Nat} (h : PtrOkAt s d) (ht : s'.trie = s.trie)
    (hl : s'.links = s.links) : PtrOkAt s' d :=
  ⟨h.dpos, by rw [ht]; exact h.dle, by rw [hl]; exact h.lpos,
   fun b c hc => by rw [hl]; exact h.cells b c (by rw [← ht]; exact hc),
   fun j st hst => by rw [hl]; exact h.stubs j st (by rw [← hl]; exact hst),
   fun b c hc => h.tails b c (by rw [← ht]; exact hc),
   fun b c hc => h.run b c (by rw [← ht]; exact hc)⟩

theorem PtrOk.of_eq {s s' : State} (h : PtrOk s) (ht : s'.trie = s.trie) (hl : s'.links = s.links) :
    PtrOk s' := by
  obtain ⟨d, hd⟩ := h
  exact ⟨d, hd.of_eq ht hl⟩

theorem Whole.of_eq {s s' : State} (h : Whole s) (ht : s'.trie = s.trie) (hl : s'.links = s.links) :
    Whole s' := by
  have := PtrOkAt.of_eq h ht hl
  unfold Whole; rw [ht]; exact this

/-- a cell read through the totalised accessor is in range as well -/
theorem PtrOkAt.cellOk {s : State} {d : Nat} (h : PtrOkAt s d) (b : Nat) :
    CellOk (s.cell b) d s.links.size := by
  unfold State.cell
  cases hb : s.trie[b]? with
  | none => exact cellOk_default h.dpos h.lpos
  | some c => exact h.cells b c hb

/-! ### the four primitive writes -/

theorem getElem?_push_some_ptr {α : Type} {a : Array α} {x c : α} {b : Nat} (h : (a.push x)[b]? = some c) :
    (b < a.size ∧ a[b]? = some c) ∨ (b = a.size ∧ c = x) := by
  rw [Array.getElem?_push] at h
  by_cases hb : b = a.size
  · rw [if_pos hb] at h; cases h; exact Or.inr ⟨hb, rfl⟩
  · rw [if_neg hb] at h
    exact Or.inl ⟨(Array.getElem?_eq_some_iff.mp h).1, h⟩

/-- appending a block that announces no tail closes the file: everything is complete again -/
theorem PtrOkAt.appendCell_closed {s : State} {d : Nat} (h : PtrOkAt s d) (c : Cell)
    (hc : CellOk c d s.links.size) (ht : c.flags.hasTail = false) :
    Whole (s.appendCell c).1 := by
  have hsz : (s.appendCell c).1.trie.size = s.trie.size + 1 := by simp
  have hd := h.dle
  unfold Whole
  rw [hsz]
  refine ⟨by omega, by omega, h.lpos, ?_, ?_, ?_, ?_⟩
  · intro b x hx
    rcases getElem?_push_some_ptr hx with ⟨_, hx'⟩ | ⟨_, rfl⟩
    · exact (h.cells b x hx').mono (by omega) (Nat.le_refl _)
    · exact hc.mono (by omega) (Nat.le_refl _)
  · intro j st hst
    have := h.stubs j st hst
    exact ⟨this.1, by omega⟩
  · intro b x hx _ hh
    rcases getElem?_push_some_ptr hx with ⟨hb, hx'⟩ | ⟨_, rfl⟩
    · by_cases hbd : b < d
      · have := h.tails b x hx' hbd hh; omega
      · omega
    · rw [ht] at hh; cases hh
  · intro b x hx hb
    have := (Array.getElem?_eq_some_iff.mp hx).1
    simp only [trie_appendCell, Array.size_push] at this
    omega

/-- appending a block that announces a tail leaves the complete prefix where it was -/
theorem PtrOkAt.appendCell_open {s : State} {d : Nat} (h : PtrOkAt s d) (c : Cell)
    (hc : CellOk c d s.links.size) (ht : c.flags.hasTail = true) :
    PtrOkAt (s.appendCell c).1 d := by
  have hd := h.dle
  refine ⟨h.dpos, by simp; omega, h.lpos, ?_, h.stubs, ?_, ?_⟩
  · intro b x hx
    rcases getElem?_push_some_ptr hx with ⟨_, hx'⟩ | ⟨_, rfl⟩
    · exact h.cells b x hx'
    · exact hc
  · intro b x hx hbd hh
    rcases getElem?_push_some_ptr hx with ⟨_, hx'⟩ | ⟨hb, _⟩
    · exact h.tails b x hx' hbd hh
    · omega
  · intro b x hx hb
    rcases getElem?_push_some_ptr hx with ⟨_, hx'⟩ | ⟨_, rfl⟩
    · exact h.run b x hx' hb
    · exact ht

theorem PtrOkAt.appendCell {s : State} {d : Nat} (h : PtrOkAt s d) (c : Cell)
    (hc : CellOk c d s.links.size) : PtrOk (s.appendCell c).1 := by
  cases ht : c.flags.hasTail with
  | false => exact (h.appendCell_closed c hc ht).ptrOk
  | true => exact ⟨d, h.appendCell_open c hc ht⟩

/-- rewriting a block in place: the new contents have their pointers in range, the tail announcement
    is what it was -/
theorem PtrOkAt.modCell {s : State} {d : Nat} (h : PtrOkAt s d) (i : Nat) (f : Cell → Cell)
    (hf : ∀ c, s.trie[i]? = some c → CellOk (f c) d s.links.size ∧ (f c).flags.hasTail = c.flags.hasTail) :
    PtrOkAt (s.modCell i f) d := by
  have hget : ∀ (b : Nat) (x : Cell), (s.modCell i f).trie[b]? = some x →
      ∃ y : Cell, s.trie[b]? = some y ∧ CellOk x d s.links.size ∧ x.flags.hasTail = y.flags.hasTail := by
    intro b x hx
    rw [getElem?_modCell] at hx
    by_cases hib : i = b
    · subst hib
      rw [if_pos rfl] at hx
      cases hy : s.trie[i]? with
      | none => rw [hy] at hx; cases hx
      | some y =>
        rw [hy] at hx; simp only [Option.map_some] at hx; cases hx
        exact ⟨y, rfl, (hf y hy).1, (hf y hy).2⟩
    · rw [if_neg hib] at hx
      exact ⟨x, hx, h.cells b x hx, rfl⟩
  refine ⟨h.dpos, by simp; exact h.dle, by simp; exact h.lpos, ?_, ?_, ?_, ?_⟩
  · intro b x hx
    obtain ⟨y, _, hok, _⟩ := hget b x hx
    simp only [links_modCell]; exact hok
  · intro j st hst
    simp only [links_modCell] at hst ⊢
    exact h.stubs j st hst
  · intro b x hx hbd hh
    obtain ⟨y, hy, _, he⟩ := hget b x hx
    exact h.tails b y hy hbd (by rw [← he]; exact hh)
  · intro b x hx hb
    obtain ⟨y, hy, _, he⟩ := hget b x hx
    rw [he]; exact h.run b y hy hb

theorem Whole.modCell {s : State} (h : Whole s) (i : Nat) (f : Cell → Cell)
    (hf : ∀ c, s.trie[i]? = some c → CellOk (f c) s.trie.size s.links.size ∧ (f c).flags.hasTail = c.flags.hasTail) :
    Whole (s.modCell i f) := by
  have := PtrOkAt.modCell h i f hf
  unfold Whole; rw [trie_modCell_size]; exact this

theorem PtrOkAt.appendStub {s : State} {d : Nat} (h : PtrOkAt s d) (b : Stub)
    (hp : b.prev < s.links.size) (ht : b.target < d) : PtrOkAt (s.appendStub b).1 d := by
  have hls : (s.appendStub b).1.links.size = s.links.size + 1 := by simp [State.appendStub]
  refine ⟨h.dpos, h.dle, by omega, ?_, ?_, h.tails, h.run⟩
  · intro x c hc
    rw [hls]
    exact (h.cells x c hc).mono (Nat.le_refl _) (by omega)
  · intro j st hst
    rw [hls]
    have hst' : (s.links.push b)[j]? = some st := hst
    rcases getElem?_push_some_ptr hst' with ⟨_, hx'⟩ | ⟨_, rfl⟩
    · have := h.stubs j st hx'; exact ⟨by omega, this.2⟩
    · exact ⟨by omega, ht⟩

theorem Whole.appendStub {s : State} (h : Whole s) (b : Stub)
    (hp : b.prev < s.links.size) (ht : b.target < s.trie.size) : Whole (s.appendStub b).1 :=
  PtrOkAt.appendStub h b hp ht

theorem PtrOkAt.setHdr {s : State} {d : Nat} (h : PtrOkAt s d) (id : Nat) : PtrOkAt (s.setHdr id) d :=
  h.of_eq rfl rfl

theorem Whole.setHdr {s : State} (h : Whole s) (id : Nat) : Whole (s.setHdr id) :=
  PtrOkAt.setHdr h id

/-! ### traces that carry the invariant at every single write -/

inductive PTrace : State → State → Prop
  | refl (s) : PTrace s s
  | ram {s s1 s2} : PTrace s s1 → s2.trie = s1.trie → s2.links = s1.links → s2.hdrId = s1.hdrId →
      s2.log = s1.log → PTrace s s2
  | appendCell {s s1} (c : Cell) : PTrace s s1 → PtrOk (s1.appendCell c).1 → PTrace s (s1.appendCell c).1
  | modCell {s s1} (i : Nat) (f : Cell → Cell) : PTrace s s1 →
      (∀ c, s1.trie[i]? = some c → CellLe c (f c)) → PtrOk (s1.modCell i f) → PTrace s (s1.modCell i f)
  | appendStub {s s1} (b : Stub) : PTrace s s1 → PtrOk (s1.appendStub b).1 → PTrace s (s1.appendStub b).1
  | setHdr {s s1} (id : Nat) : PTrace s s1 → PTrace s (s1.setHdr id)

theorem PTrace.trans {a b c : State} (h1 : PTrace a b) (h2 : PTrace b c) : PTrace a c := by
  induction h2 with
  | refl => exact h1
  | ram _ e1 e2 e3 e4 ih => exact PTrace.ram ih e1 e2 e3 e4
  | appendCell c _ hp ih => exact PTrace.appendCell c ih hp
  | modCell i f _ hf hp ih => exact PTrace.modCell i f ih hf hp
  | appendStub b _ hp ih => exact PTrace.appendStub b ih hp
  | setHdr id _ ih => exact PTrace.setHdr id ih

/-- forgetting the invariant -/
theorem PTrace.toTrace {s s' : State} (h : PTrace s s') : Trace s s' := by
  induction h with
  | refl => exact Trace.refl _
  | ram _ e1 e2 e3 e4 ih => exact Trace.ram ih e1 e2 e3 e4
  | appendCell c _ _ ih => exact Trace.appendCell c ih
  | modCell i f _ hf _ ih => exact Trace.modCell i f ih hf
  | appendStub b _ _ ih => exact Trace.appendStub b ih
  | setHdr id _ ih => exact Trace.setHdr id ih

theorem PTrace.le {s s' : State} (h : PTrace s s') : s ⊑ s' := h.toTrace.le

/-- the invariant holds at the end of a trace that starts in a safe state -/
theorem PTrace.ptrOk {s s' : State} (h : PTrace s s') (hs : PtrOk s) : PtrOk s' := by
  induction h with
  | refl => exact hs
  | ram _ e1 e2 _ _ ih => exact ih.of_eq e1 e2
  | appendCell c _ hp _ => exact hp
  | modCell i f _ _ hp _ => exact hp
  | appendStub b _ hp _ => exact hp
  | setHdr id _ ih => exact ih.of_eq rfl rfl

theorem PTrace.of_eq {s s' : State} (ht : s'.trie = s.trie) (hl : s'.links = s.links)
    (hh : s'.hdrId = s.hdrId) (hlog : s'.log = s.log) : PTrace s s' :=
  PTrace.ram (PTrace.refl s) ht hl hh hlog

/-! ### every cut of the log of a `PTrace` is the log of an intermediate state of it -/

def PCuts (s s' : State) (ws : List Write) : Prop :=
  s'.log = ws ++ s.log ∧
  ∀ k, k ≤ ws.length → ∃ m : State, PTrace s m ∧ PTrace m s' ∧ m.log = ws.drop (ws.length - k) ++ s.log

theorem PCuts.same {s s1 s2 : State} {ws : List Write} (h : PCuts s s1 ws)
    (hstep : ∀ m, PTrace m s1 → PTrace m s2) (hlog : s2.log = s1.log) : PCuts s s2 ws := by
  refine ⟨hlog.trans h.1, fun k hk => ?_⟩
  obtain ⟨m, h1, h2, h3⟩ := h.2 k hk
  exact ⟨m, h1, hstep m h2, h3⟩

theorem PCuts.push {s s1 s2 : State} {ws : List Write} (w : Write) (h : PCuts s s1 ws)
    (hs : PTrace s s1) (hstep : ∀ m, PTrace m s1 → PTrace m s2) (hlog : s2.log = w :: s1.log) :
    PCuts s s2 (w :: ws) := by
  refine ⟨by rw [hlog, h.1]; rfl, fun k hk => ?_⟩
  by_cases hk' : k ≤ ws.length
  · obtain ⟨m, h1, h2, h3⟩ := h.2 k hk'
    refine ⟨m, h1, hstep m h2, ?_⟩
    have e : (w :: ws).length - k = (ws.length - k) + 1 := by simp only [List.length_cons]; omega
    rw [e, List.drop_succ_cons]; exact h3
  · have e : (w :: ws).length - k = 0 := by
      simp only [List.length_cons] at hk ⊢; omega
    refine ⟨s2, hstep s hs, PTrace.refl s2, ?_⟩
    rw [e, List.drop_zero, hlog, h.1]; rfl

theorem PTrace.cuts {s s' : State} (h : PTrace s s') : ∃ ws : List Write, PCuts s s' ws := by
  induction h with
  | refl =>
    refine ⟨[], rfl, fun k hk => ?_⟩
    exact ⟨_, PTrace.refl _, PTrace.refl _, by simp⟩
  | ram _ e1 e2 e3 e4 ih =>
    obtain ⟨ws, hc⟩ := ih
    exact ⟨ws, hc.same (fun m hm => PTrace.ram hm e1 e2 e3 e4) e4⟩
  | appendCell c ht hp ih =>
    obtain ⟨ws, hc⟩ := ih
    exact ⟨_, hc.push (.trieAppend c) ht (fun m hm => PTrace.appendCell c hm hp) rfl⟩
  | @modCell s1 i f ht hf hp ih =>
    obtain ⟨ws, hc⟩ := ih
    cases hi : s1.trie[i]? with
    | none =>
      exact ⟨ws, hc.same (fun m hm => PTrace.modCell i f hm hf hp) (by rw [log_modCell_none f hi])⟩
    | some c =>
      exact ⟨_, hc.push (.trieSet i (f c)) ht (fun m hm => PTrace.modCell i f hm hf hp) (log_modCell_some f hi)⟩
  | appendStub b ht hp ih =>
    obtain ⟨ws, hc⟩ := ih
    exact ⟨_, hc.push (.linkAppend b) ht (fun m hm => PTrace.appendStub b hm hp) rfl⟩
  | setHdr id ht ih =>
    obtain ⟨ws, hc⟩ := ih
    exact ⟨_, hc.push (.hdr id) ht (fun m hm => PTrace.setHdr id hm) rfl⟩

/-- every cut of the log of a `PTrace` from a safe state with a faithful log replays to the files of a
    state that satisfies the invariant -/
theorem PTrace.cut_state {s0 sf : State} (hg : GoodLog s0) (hp : PtrOk s0) (ht : PTrace s0 sf) :
    ∀ k, k ≤ sf.log.length - s0.log.length →
      ∃ m : State, PtrOk m ∧ m ⊑ sf ∧
        replay ((sf.log.reverse).take (s0.log.length + k)) = m.files := by
  intro k hk
  obtain ⟨d0, hd0⟩ := hp
  have hl : Live s0 := hd0.live
  obtain ⟨ws, hlog, hcut⟩ := ht.cuts
  have hlen : sf.log.length - s0.log.length = ws.length := by
    rw [hlog, List.length_append]; omega
  rw [hlen] at hk
  obtain ⟨m, h1, h2, h3⟩ := hcut k hk
  refine ⟨m, h1.ptrOk ⟨d0, hd0⟩, h2.le, ?_⟩
  have hgm : GoodLog m := h1.toTrace.goodLog hg hl.1 hl.2
  rw [hlog, take_reverse_log, ← h3]
  exact hgm

end Traph

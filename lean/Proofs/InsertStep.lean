import Proofs.GraftSpec
import Proofs.InsertFrame
/-! Heap-level steps of `add_lru`: the two relations between states (`NoStruct`: only attribute bits
    changed; `GraftStep`: one fresh node appended and hooked into one empty slot), the step lemmas for
    `markCanHave`, `ensureStem`, one iteration of `addLruCreate`, and the relation between the first loop
    (`addLruDescend`) and the ghost descent `T.descend`. -/
namespace Traph
open State

/-! ### `NoStruct`: nothing structural changed -/

def NoStruct (s s' : State) : Prop :=
  s'.trie.size = s.trie.size ∧ ∀ (i : Nat) (c : Cell), s.trie[i]? = some c → ∃ c' : Cell, s'.trie[i]? = some c' ∧
    c'.left = c.left ∧ c'.right = c.right ∧ c'.child = c.child ∧ c'.chunk = c.chunk ∧
    c'.flags.hasTail = c.flags.hasTail

theorem NoStruct.refl (s : State) : NoStruct s s :=
  ⟨rfl, fun _ c h => ⟨c, h, rfl, rfl, rfl, rfl, rfl⟩⟩

theorem NoStruct.trans {a b c : State} (h1 : NoStruct a b) (h2 : NoStruct b c) : NoStruct a c := by
  refine ⟨h2.1.trans h1.1, fun i x hx => ?_⟩
  obtain ⟨y, hy, e1, e2, e3, e4, e5⟩ := h1.2 i x hx
  obtain ⟨z, hz, f1, f2, f3, f4, f5⟩ := h2.2 i y hy
  exact ⟨z, hz, f1.trans e1, f2.trans e2, f3.trans e3, f4.trans e4, f5.trans e5⟩

theorem NoStruct.sig {s s' : State} (h : NoStruct s s') (j : Nat) :
    (s.trie[j]?).map Cell.sig = (s'.trie[j]?).map Cell.sig := by
  cases hs : s.trie[j]? with
  | none =>
    have h1 : s.trie.size ≤ j := by simpa using hs
    have h2 : s'.trie[j]? = none := Array.getElem?_eq_none (by rw [h.1]; exact h1)
    rw [h2]
  | some c =>
    obtain ⟨c', hc', _, _, _, e4, e5⟩ := h.2 j c hs
    rw [hc']; simp [Cell.sig, e4, e5]

/-- two tries of the same size that agree on chunk and has-tail flag of every block read the same stems -/
theorem stemAt_congr (s t : State) (hsz : t.trie.size = s.trie.size)
    (h : ∀ j : Nat, (s.trie[j]?).map Cell.sig = (t.trie[j]?).map Cell.sig) (j : Nat) :
    t.stemAt j = s.stemAt j := by
  unfold stemAt
  have hk := h j
  cases hs : s.trie[j]? with
  | none =>
    rw [hs] at hk
    cases ht : t.trie[j]? with
    | none => rfl
    | some c => rw [ht] at hk; simp at hk
  | some c =>
    rw [hs] at hk
    cases ht : t.trie[j]? with
    | none => rw [ht] at hk; simp at hk
    | some c' =>
      rw [ht] at hk
      simp only [Option.map_some, Option.some.injEq, Cell.sig, Prod.mk.injEq] at hk
      simp only [← hk.1, ← hk.2, hsz, readTail_congr s t h]

theorem NoStruct.stemAt {s s' : State} (h : NoStruct s s') (j : Nat) : s'.stemAt j = s.stemAt j :=
  stemAt_congr s s' h.1 h.sig j

theorem NoStruct.rep {s s' : State} {t : T} (h : NoStruct s s') (hr : Rep s t) : Rep s' t :=
  hr.of_ptrs_eq (fun a _ c hc => by
    obtain ⟨c', hc', e1, e2, e3, _, _⟩ := h.2 a c hc
    exact ⟨c', hc', e1, e3, e2⟩)

theorem NoStruct.cell_child {s s' : State} (h : NoStruct s s') (j : Nat) :
    (s'.cell j).child = (s.cell j).child := by
  unfold State.cell
  cases hs : s.trie[j]? with
  | none =>
    have h1 : s.trie.size ≤ j := by simpa using hs
    have h2 : s'.trie[j]? = none := Array.getElem?_eq_none (by rw [h.1]; exact h1)
    rw [h2]
  | some c =>
    obtain ⟨c', hc', _, _, e3, _, _⟩ := h.2 j c hs
    rw [hc']; exact e3

theorem NoStruct.closed {s s' : State} (h : NoStruct s s') (hc : TailClosed s) : TailClosed s' := by
  unfold TailClosed State.cell at *
  rw [h.1]
  cases hs : s.trie[s.trie.size - 1]? with
  | none =>
    have h1 : s.trie.size ≤ s.trie.size - 1 := by simpa using hs
    have h2 : s'.trie[s.trie.size - 1]? = none := Array.getElem?_eq_none (by rw [h.1]; exact h1)
    rw [h2]; rfl
  | some c =>
    obtain ⟨c', hc', _, _, _, _, e5⟩ := h.2 _ c hs
    rw [hs] at hc
    rw [hc']; simp only [Option.getD_some] at hc ⊢; rw [e5]; exact hc

theorem NoStruct.shape {s s' : State} {t : T} (h : NoStruct s s') (hs : Shape s t) : Shape s' t where
  live := by rw [h.1]; exact hs.live
  rep := h.rep hs.rep
  ord := OrdT.frame t _ _ hs.ord (fun a _ => h.stemAt a)
  nodup := hs.nodup
  root := by rw [h.1]; exact hs.root
  closed := h.closed hs.closed

theorem noStruct_markCanHave (s : State) (n : Nat) (b : Bool) : NoStruct s (s.markCanHave n b) := by
  unfold markCanHave; split
  · refine ⟨trie_modCell_size _ _ _, fun i c hc => ?_⟩
    rw [getElem?_modCell]
    by_cases e : n = i
    · rw [if_pos e, hc]; exact ⟨_, rfl, rfl, rfl, rfl, rfl, rfl⟩
    · rw [if_neg e]; exact ⟨c, hc, rfl, rfl, rfl, rfl, rfl⟩
  · exact NoStruct.refl s

/-! ### the ghost search only looks at stems -/

theorem T.find_node (s0 : State) (stem : Stem) (a : Nat) (l c r : T) :
    (T.node a l c r).find s0 stem =
      if s0.stemAt a = stem then .found a
      else if lexLt stem (s0.stemAt a) then
        (match l with | .nil => .missing a .L | _ => l.find s0 stem)
      else
        (match r with | .nil => .missing a .R | _ => r.find s0 stem) := rfl

theorem T.find_congr {s s' : State} (h : ∀ j, s'.stemAt j = s.stemAt j) (stem : Stem) :
    ∀ u : T, u.find s' stem = u.find s stem := by
  intro u
  induction u with
  | nil => rfl
  | node a l c r ihl _ ihr =>
    rw [T.find_node, T.find_node, h a, ihl, ihr]

theorem T.descend_congr {s s' : State} (h : ∀ j, s'.stemAt j = s.stemAt j) :
    ∀ (stems : List Stem) (u : T) (pre : LRU), u.descend s' stems pre = u.descend s stems pre := by
  intro stems
  induction stems with
  | nil => intro u pre; rfl
  | cons stem rest ih =>
    intro u pre
    simp only [T.descend, T.find_congr h stem u, ih]

theorem T.find_ne_corrupt {s : State} {stem : Stem} : ∀ u : T, u ≠ .nil → u.find s stem ≠ .corrupt := by
  intro u
  induction u with
  | nil => intro h; exact absurd rfl h
  | node a l c r ihl _ ihr =>
    intro _
    simp only [T.find]
    split
    · simp
    · split
      · cases l with
        | nil => simp
        | node _ _ _ _ => exact ihl (by simp)
      · cases r with
        | nil => simp
        | node _ _ _ _ => exact ihr (by simp)

theorem T.find_missing_slot {s : State} {stem : Stem} :
    ∀ (u : T) (q : Nat) (sl : Slot), u.find s stem = .missing q sl → sl ≠ .C := by
  intro u
  induction u with
  | nil => intro q sl h; simp [T.find] at h
  | node a l c r ihl _ ihr =>
    intro q sl h
    simp only [T.find] at h
    split at h
    · cases h
    · split at h
      · cases l with
        | nil => simp only [Find.missing.injEq] at h; rw [← h.2]; simp
        | node _ _ _ _ => exact ihl q sl h
      · cases r with
        | nil => simp only [Find.missing.injEq] at h; rw [← h.2]; simp
        | node _ _ _ _ => exact ihr q sl h

/-! ### what the descent finds is an entry (no order / nodup hypothesis needed for this direction) -/

theorem T.sib_entry {s : State} : ∀ (u : T) (pre : LRU) (a : Nat), a ∈ u.sibs →
    (pre ++ [s.stemAt a], a) ∈ u.entries s pre := by
  intro u
  induction u with
  | nil => intro _ a h; simp [T.sibs] at h
  | node d l c r ihl _ ihr =>
    intro pre a h
    simp only [T.sibs, List.mem_append, List.mem_cons] at h
    simp only [T.entries, List.mem_append, List.mem_cons, Prod.mk.injEq]
    rcases h with h | rfl | h
    · exact Or.inl (ihl pre a h)
    · exact Or.inr (Or.inl ⟨rfl, rfl⟩)
    · exact Or.inr (Or.inr (Or.inr (ihr pre a h)))

theorem T.childAt_entries {s : State} {x : LRU × Nat} : ∀ (u : T) (pre : LRU) (a : Nat), a ∈ u.sibs →
    x ∈ (u.childAt a).entries s (pre ++ [s.stemAt a]) → x ∈ u.entries s pre := by
  intro u
  induction u with
  | nil => intro _ a h; simp [T.sibs] at h
  | node d l c r ihl _ ihr =>
    intro pre a h hx
    simp only [T.sibs, List.mem_append, List.mem_cons] at h
    simp only [T.entries, List.mem_append, List.mem_cons]
    simp only [T.childAt] at hx
    by_cases e : d = a
    · subst e; rw [if_pos rfl] at hx; exact Or.inr (Or.inr (Or.inl hx))
    · rw [if_neg e] at hx
      by_cases hl : a ∈ l.sibs
      · rw [if_pos hl] at hx; exact Or.inl (ihl pre a hl hx)
      · rw [if_neg hl] at hx
        have har : a ∈ r.sibs := by
          rcases h with h | h | h
          · exact absurd h hl
          · exact absurd h.symm e
          · exact h
        exact Or.inr (Or.inr (Or.inr (ihr pre a har hx)))

theorem descend_found_mem {s : State} : ∀ (stems : List Stem) (u : T) (pre : LRU) (b : Nat),
    u.descend s stems pre = .found b → (pre ++ stems, b) ∈ u.entries s pre := by
  intro stems
  induction stems with
  | nil => intro u pre b h; simp [T.descend] at h
  | cons stem rest ih =>
    intro u pre b hd
    simp only [T.descend] at hd
    cases hf : u.find s stem with
    | corrupt => rw [hf] at hd; simp at hd
    | missing q sl => rw [hf] at hd; simp at hd
    | found a =>
      rw [hf] at hd
      simp only at hd
      obtain ⟨hmem, hst⟩ := T.find_sound u a hf
      cases rest with
      | nil =>
        simp only [Loc.found.injEq] at hd
        subst hd
        have := T.sib_entry (s := s) u pre a hmem
        rw [hst] at this; exact this
      | cons st2 rest2 =>
        simp only at hd
        cases hc : u.childAt a with
        | nil => rw [hc] at hd; simp at hd
        | node a' l' c' r' =>
          rw [hc] at hd
          simp only at hd
          have h1 := ih (.node a' l' c' r') (pre ++ [stem]) b hd
          rw [← hc, ← hst] at h1
          have h2 := T.childAt_entries u pre a hmem h1
          rw [hst] at h2
          simpa using h2

/-! ### `GraftStep`: one fresh node `b = s.trie.size` hooked into the empty slot `sl` of block `q` -/

structure GraftStep (s s' : State) (q : Nat) (sl : Slot) (x : Stem) : Prop where
  size_lt : s.trie.size < s'.trie.size
  cq : ∃ c : Cell, s.trie[q]? = some c ∧ c.slot sl = 0 ∧ s'.trie[q]? = some (c.setSlot sl s.trie.size)
  old : ∀ a, a < s.trie.size → a ≠ q → s'.trie[a]? = s.trie[a]?
  fresh : ∃ f : Cell, s'.trie[s.trie.size]? = some f ∧ f.left = 0 ∧ f.child = 0 ∧ f.right = 0
  stems : ∀ a, a < s.trie.size → s'.stemAt a = s.stemAt a
  stemNew : s'.stemAt s.trie.size = x
  closed : TailClosed s'

/-- the write pair "append the node for `x`, then point slot `sl` of `q` to it" is a `GraftStep` -/
theorem graftStep_write (s : State) (q : Nat) (sl : Slot) (x : Stem) (par : Nat) (ch : Bool) (c : Cell)
    (hc : s.trie[q]? = some c) (hslot : c.slot sl = 0) (hcl : TailClosed s) :
    GraftStep s ((s.writeNew x par ch).1.modCell q (fun c => c.setSlot sl s.trie.size)) q sl x := by
  have hq : q < s.trie.size := (Array.getElem?_eq_some_iff.mp hc).1
  refine ⟨?_, ⟨c, hc, hslot, ?_⟩, ?_, ⟨headCell x par ch, ?_, rfl, rfl, rfl⟩, ?_, ?_, ?_⟩
  · rw [trie_modCell_size]; exact size_lt_writeNew _ _ _ _
  · rw [getElem?_modCell, if_pos rfl, writeNew_old _ _ _ _ _ hq, hc]; rfl
  · intro a ha hne
    rw [getElem?_modCell, if_neg (Ne.symm hne), writeNew_old _ _ _ _ _ ha]
  · rw [getElem?_modCell, if_neg (by omega), getElem?_writeNew_head]
  · intro a ha
    rw [stemAt_setSlot, stemAt_writeNew_other _ _ _ _ _ ha hcl]
  · rw [stemAt_setSlot, stemAt_writeNew']
  · exact (TailClosed.writeNew s x par ch).modCell q _ (fun c => by cases sl <;> rfl)

theorem GraftStep.cell_child_new {s s' : State} {q : Nat} {sl : Slot} {x : Stem} (g : GraftStep s s' q sl x) :
    (s'.cell s.trie.size).child = 0 := by
  obtain ⟨f, hf, _, h2, _⟩ := g.fresh
  simp [State.cell, hf, h2]

/-- where there is a hole in a represented tree, the heap slot is empty -/
theorem Hole.slot_empty {s : State} {q sl u pre lo hi pre' lo' hi'}
    (h : Hole s q sl u pre lo hi pre' lo' hi') : Rep s u → ∃ c, s.trie[q]? = some c ∧ c.slot sl = 0 := by
  induction h with
  | hereL c r pre lo hi =>
    intro hr; obtain ⟨_, ⟨cell, hc, h1, _, _⟩, _⟩ := hr
    exact ⟨cell, hc, by simpa [Cell.slot] using h1⟩
  | hereR l c pre lo hi =>
    intro hr; obtain ⟨_, ⟨cell, hc, _, _, h3⟩, _⟩ := hr
    exact ⟨cell, hc, by simpa [Cell.slot] using h3⟩
  | hereC l r pre lo hi =>
    intro hr; obtain ⟨_, ⟨cell, hc, _, h2, _⟩, _⟩ := hr
    exact ⟨cell, hc, by simpa [Cell.slot] using h2⟩
  | inL c r hi _ ih => intro hr; exact ih hr.2.2.1
  | inR l c lo _ ih => intro hr; exact ih hr.2.2.2.2
  | inC l r lo hi _ ih => intro hr; exact ih hr.2.2.2.1

/-! ### unfolding the two loops -/

theorem addLruDescend_cons_stop (flag : Bool) (s : State) (stem : Stem) (rest : List Stem) (node : Nat)
    (ex : Bool) (pos : Nat) (h : Hist) (s1 : State) (n : Nat)
    (he : s.ensureStem node ex stem = (s1, n)) (hstop : rest = [] ∨ (s1.cell n).child = 0) :
    addLruDescend flag s (stem :: rest) node ex pos h =
      (s1.markCanHave n (!rest.isEmpty && flag && (s1.cell n).flags.noChild), n, rest,
        h.visit (s1.cell n) (pos + stem.length)) := by
  simp only [addLruDescend, he]
  rw [if_neg]
  rcases hstop with rfl | h0
  · simp
  · simp [h0]

theorem addLruDescend_cons_go (flag : Bool) (s : State) (stem : Stem) (rest : List Stem) (node : Nat)
    (ex : Bool) (pos : Nat) (h : Hist) (s1 : State) (n : Nat)
    (he : s.ensureStem node ex stem = (s1, n)) (hr : rest ≠ []) (hch : (s1.cell n).child ≠ 0) :
    addLruDescend flag s (stem :: rest) node ex pos h =
      addLruDescend flag (s1.markCanHave n (!rest.isEmpty && flag && (s1.cell n).flags.noChild)) rest
        (s1.cell n).child true (pos + stem.length) (h.visit (s1.cell n) (pos + stem.length)) := by
  simp only [addLruDescend, he]
  rw [if_pos]
  cases rest with
  | nil => exact absurd rfl hr
  | cons _ _ => simp [hch]

theorem addLruCreate_cons (flag : Bool) (s : State) (x : Stem) (rest : List Stem) (q : Nat) :
    addLruCreate flag s (x :: rest) q =
      addLruCreate flag ((s.writeNew x q (!rest.isEmpty && flag)).1.modCell q
        (fun c => c.setSlot .C s.trie.size)) rest s.trie.size := rfl

theorem ensureStem_found (s : State) (start : Nat) (stem : Stem) (i : Nat)
    (hf : s.findSib stem (s.trie.size + 1) start = .found i) :
    s.ensureStem start true stem = (s, i) := by
  simp [ensureStem, hf]

theorem ensureStem_missing (s : State) (start : Nat) (stem : Stem) (q : Nat) (sl : Slot)
    (hf : s.findSib stem (s.trie.size + 1) start = .missing q sl) :
    s.ensureStem start true stem =
      ((s.writeNew stem (s.cell q).parent false).1.modCell q (fun c => c.setSlot sl s.trie.size),
        s.trie.size) := by
  simp only [ensureStem, hf, Bool.not_true, Bool.false_eq_true, if_false]
  rfl

/-! ### the first loop against the ghost descent -/

/-- what the first loop returns, according to the outcome of the ghost descent -/
def DescSpec (s : State) (r : State × Nat × List Stem × Hist) : Loc → Prop
  | .found b => NoStruct s r.1 ∧ r.2.1 = b ∧ r.2.2.1 = []
  | .fell q sl _ rest' =>
    if sl = .C then NoStruct s r.1 ∧ r.2.1 = q ∧ r.2.2.1 = rest'
    else ∃ x rest'' s1 s2, rest' = x :: rest'' ∧ NoStruct s s1 ∧ GraftStep s1 s2 q sl x ∧
      NoStruct s2 r.1 ∧ r.2.1 = s1.trie.size ∧ r.2.2.1 = rest''
  | .corrupt => False

theorem DescSpec.mono {s0 s : State} {r : State × Nat × List Stem × Hist} (h0 : NoStruct s0 s) :
    ∀ loc : Loc, DescSpec s r loc → DescSpec s0 r loc
  | .found b, h => ⟨h0.trans h.1, h.2⟩
  | .corrupt, h => h
  | .fell q sl pre' rest', h => by
    simp only [DescSpec] at h ⊢
    by_cases e : sl = .C
    · rw [if_pos e] at h ⊢; exact ⟨h0.trans h.1, h.2⟩
    · rw [if_neg e] at h ⊢
      obtain ⟨x, rest'', s1, s2, e1, n1, g, n2, e2, e3⟩ := h
      exact ⟨x, rest'', s1, s2, e1, h0.trans n1, g, n2, e2, e3⟩

theorem addLruDescend_spec (flag : Bool) : ∀ (stems : List Stem) (s : State) (u : T) (pre : LRU)
    (pos : Nat) (h : Hist),
    Rep s u → u ≠ .nil → u.size ≤ s.trie.size → TailClosed s → stems ≠ [] →
    DescSpec s (addLruDescend flag s stems u.root true pos h) (u.descend s stems pre) := by
  intro stems
  induction stems with
  | nil => intro _ _ _ _ _ _ _ _ _ h; exact absurd rfl h
  | cons stem rest ih =>
    intro s u pre pos h hr hne hsz hcl _
    have hfs := findSib_eq_find (s := s) (stem := stem) u (s.trie.size + 1) hr hne (by omega)
    cases hf : u.find s stem with
    | corrupt => exact absurd hf (T.find_ne_corrupt u hne)
    | missing q sl =>
      rw [hf] at hfs
      obtain ⟨c, hc, hslot⟩ := findSib_missing s stem _ _ _ _ hfs
      have hg := graftStep_write s q sl stem (s.cell q).parent false c hc hslot hcl
      have he := ensureStem_missing s u.root stem q sl hfs
      rw [addLruDescend_cons_stop flag s stem rest u.root true pos h _ _ he (Or.inr hg.cell_child_new)]
      have hsl := T.find_missing_slot u q sl hf
      simp only [T.descend, hf, DescSpec]
      rw [if_neg hsl]
      exact ⟨stem, rest, s, _, rfl, NoStruct.refl s, hg, noStruct_markCanHave _ _ _, rfl, rfl⟩
    | found a =>
      rw [hf] at hfs
      have he := ensureStem_found s u.root stem a hfs
      obtain ⟨hmem, _⟩ := T.find_sound u a hf
      obtain ⟨hrc, cell, hcell, hch⟩ := Rep.childAt u a hr hmem
      have hcella : s.cell a = cell := by simp [State.cell, hcell]
      cases rest with
      | nil =>
        rw [addLruDescend_cons_stop flag s stem [] u.root true pos h _ _ he (Or.inl rfl)]
        simp only [T.descend, hf, DescSpec]
        exact ⟨noStruct_markCanHave _ _ _, by trivial, by trivial⟩
      | cons st2 rest2 =>
        cases hc : u.childAt a with
        | nil =>
          rw [hc] at hch
          rw [addLruDescend_cons_stop flag s stem _ u.root true pos h _ _ he
            (Or.inr (by rw [hcella, hch]; rfl))]
          simp only [T.descend, hf, hc, DescSpec]
          exact ⟨noStruct_markCanHave _ _ _, by trivial, by trivial⟩
        | node a' l' c' r' =>
          rw [hc] at hch hrc
          have hne0 : (s.cell a).child ≠ 0 := by rw [hcella, hch]; exact hrc.1
          rw [addLruDescend_cons_go flag s stem _ u.root true pos h _ _ he (by simp) hne0]
          have hns := noStruct_markCanHave s a
            (!(st2 :: rest2).isEmpty && flag && (s.cell a).flags.noChild)
          have hsz' : (T.node a' l' c' r').size ≤ s.trie.size := by
            have := T.childAt_size u a; rw [hc] at this; omega
          have hroot : (s.cell a).child = (T.node a' l' c' r').root := by rw [hcella, hch]
          rw [hroot]
          have := ih _ (.node a' l' c' r') (pre ++ [stem]) (pos + stem.length)
            (h.visit (s.cell a) (pos + stem.length)) (hns.rep hrc) (by simp)
            (by rw [hns.1]; exact hsz') (hns.closed hcl) (by simp)
          rw [T.descend_congr hns.stemAt] at this
          simp only [T.descend, hf, hc]
          exact DescSpec.mono hns _ this

end Traph

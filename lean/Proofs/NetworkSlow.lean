import Proofs.NetworkAgg
import Proofs.LinkBagC03
/-! C07, both variants as one pass of link events. `State.netEvents out auto` is the list of
    `(source webentity, target webentity, weight)` triples of the index: for each block the carrying
    traversal meets that is a page, resolves to a webentity and has a list on the requested side, for
    each distinct other end of that list (with its multiplicity as weight), the other end's bottom-up
    webentity — dropped when there is none, or when it is the source's and self-links are not requested.
    `networkSlow_eq`: the memory-light variant is the fold of these events from the empty answer (its
    cache is transparent). `network_eq`: the two-pass variant is the fold of the same events from the
    tally rows. -/
namespace Traph
open State

/-- the event a list member gives rise to: nothing if the other end has no webentity or the link is a
    self-link that was not requested -/
def evOf (auto : Bool) (A tWe w : Nat) : Option (Nat × Nat × Nat) :=
  if tWe = 0 then none else if (!auto && decide (A = tWe)) = true then none else some (A, tWe, w)

namespace State

/-- the events of one block met by the traversal with carried id `bw.2` -/
def blockEvents (s : State) (out auto : Bool) (bw : Nat × Nat) : List (Nat × Nat × Nat) :=
  if ((s.cell bw.1).flags.page && decide (bw.2 ≠ 0)) = true ∧
      (if out then (s.cell bw.1).out else (s.cell bw.1).inn) ≠ 0 then
    (s.weighted (if out then (s.cell bw.1).out else (s.cell bw.1).inn)).filterMap
      (fun tw => evOf auto bw.2 (s.windupWe tw.1) tw.2)
  else []

def netEvents (s : State) (out auto : Bool) : List (Nat × Nat × Nat) :=
  s.dfsWe.flatMap (s.blockEvents out auto)

/-- first pass of the two-pass variant: one row per webentity that has a page, with its page tallies -/
def netTally (s : State) : List NetRow :=
  netFold (·.2) (fun (bw : Nat × Nat) r =>
      if (s.cell bw.1).flags.crawled then { r with crawled := r.crawled + 1 }
      else { r with uncrawled := r.uncrawled + 1 }) []
    (s.dfsWe.filter (fun bw => (s.cell bw.1).flags.page && decide (bw.2 ≠ 0)))

end State

theorem blockEvents_def (s : State) (out auto : Bool) (bw : Nat × Nat) :
    s.blockEvents out auto bw =
      if ((s.cell bw.1).flags.page && decide (bw.2 ≠ 0)) = true ∧
          (if out then (s.cell bw.1).out else (s.cell bw.1).inn) ≠ 0 then
        (s.weighted (if out then (s.cell bw.1).out else (s.cell bw.1).inn)).filterMap
          (fun tw => evOf auto bw.2 (s.windupWe tw.1) tw.2)
      else [] := rfl

theorem netFold_append {α : Type} (key : α → Nat) (f : α → NetRow → NetRow) (g : List NetRow) (l₁ l₂ : List α) :
    netFold key f g (l₁ ++ l₂) = netFold key f (netFold key f g l₁) l₂ := by
  unfold netFold; rw [List.foldl_append]

/-! ### the memory-light variant -/

/-- the cache only ever holds bottom-up webentities -/
def WeCacheOk (s : State) (c : List (Nat × Nat)) : Prop := ∀ bw ∈ c, bw.2 = s.windupWe bw.1

theorem WeCacheOk.get {s : State} {c : List (Nat × Nat)} (h : WeCacheOk s c) {b w : Nat} (hg : dictGet? c b = some w) :
    w = s.windupWe b := h (b, w) (dictGet?_mem c b w hg)

theorem nw_mem_dictSet : ∀ (d : List (Nat × Nat)) (k v : Nat) (x : Nat × Nat),
    x ∈ dictSet d k v → x = (k, v) ∨ x ∈ d
  | [], k, v, x, h => by simp [dictSet] at h; exact Or.inl h
  | (k', v') :: rest, k, v, x, h => by
    unfold dictSet at h
    by_cases e : k' = k
    · rw [if_pos e] at h
      rcases List.mem_cons.mp h with h | h
      · left; rw [h, e]
      · right; exact List.mem_cons_of_mem _ h
    · rw [if_neg e] at h
      rcases List.mem_cons.mp h with h | h
      · right; rw [h]; exact List.mem_cons_self
      · rcases nw_mem_dictSet rest k v x h with h | h
        · exact Or.inl h
        · right; exact List.mem_cons_of_mem _ h

theorem WeCacheOk.set {s : State} {c : List (Nat × Nat)} (h : WeCacheOk s c) (b : Nat) :
    WeCacheOk s (dictSet c b (s.windupWe b)) := by
  intro bw hbw
  rcases nw_mem_dictSet c b _ bw hbw with e | hm
  · subst e; rfl
  · exact h bw hm

/-- the body of the inner loop of `get_webentities_links_slow` -/
def slowInner (s : State) (auto : Bool) (A : Nat) (acc : List NetRow × List (Nat × Nat)) (tw : Nat × Nat) :
    List NetRow × List (Nat × Nat) :=
  let (tWe, cache) := match dictGet? acc.2 tw.1 with
    | some w => (w, acc.2)
    | none => let w := s.windupWe tw.1; (w, if w = 0 then acc.2 else dictSet acc.2 tw.1 w)
  if tWe = 0 then (acc.1, cache)
  else if !auto && A = tWe then (acc.1, cache)
  else (netTouch acc.1 A (fun r => { r with targets := counterAdd r.targets tWe tw.2 }), cache)

/-- the body of its outer loop -/
def slowStep (s : State) (out auto : Bool) (acc : List NetRow × List (Nat × Nat)) (bw : Nat × Nat) :
    List NetRow × List (Nat × Nat) :=
  let c := s.cell bw.1
  let head := if out then c.out else c.inn
  if !c.flags.page || head = 0 || bw.2 = 0 then acc else
  (s.weighted head).foldl (slowInner s auto bw.2) (acc.1, dictSet acc.2 bw.1 bw.2)

theorem slowStep_def (s : State) (out auto : Bool) (acc : List NetRow × List (Nat × Nat)) (bw : Nat × Nat) :
    slowStep s out auto acc bw =
      if (!(s.cell bw.1).flags.page || decide ((if out then (s.cell bw.1).out else (s.cell bw.1).inn) = 0)
          || decide (bw.2 = 0)) = true then acc
      else (s.weighted (if out then (s.cell bw.1).out else (s.cell bw.1).inn)).foldl (slowInner s auto bw.2)
        (acc.1, dictSet acc.2 bw.1 bw.2) := rfl

theorem networkSlow_unfold (s : State) (out auto : Bool) :
    s.networkSlow out auto = (s.dfsWe.foldl (slowStep s out auto) ([], [])).1 := rfl

theorem slowInner_spec (s : State) (auto : Bool) (A : Nat) (acc : List NetRow × List (Nat × Nat)) (tw : Nat × Nat)
    (hc : WeCacheOk s acc.2) :
    ∃ c', WeCacheOk s c' ∧
      slowInner s auto A acc tw =
        ((evOf auto A (s.windupWe tw.1) tw.2).elim acc.1 (fun e => netTouch acc.1 e.1 (netAdd e)), c') := by
  unfold slowInner evOf
  cases hg : dictGet? acc.2 tw.1 with
  | some w =>
    have hw := hc.get hg
    subst hw
    refine ⟨acc.2, hc, ?_⟩
    simp only
    by_cases h0 : s.windupWe tw.1 = 0
    · rw [if_pos h0, if_pos h0]; rfl
    · rw [if_neg h0, if_neg h0]
      by_cases ha : (!auto && decide (A = s.windupWe tw.1)) = true
      · rw [if_pos ha, if_pos ha]; rfl
      · rw [if_neg ha, if_neg ha]; rfl
  | none =>
    simp only
    by_cases h0 : s.windupWe tw.1 = 0
    · refine ⟨acc.2, hc, ?_⟩
      rw [if_pos h0, if_pos h0, if_pos h0]; rfl
    · refine ⟨dictSet acc.2 tw.1 (s.windupWe tw.1), hc.set _, ?_⟩
      rw [if_neg h0, if_neg h0, if_neg h0]
      by_cases ha : (!auto && decide (A = s.windupWe tw.1)) = true
      · rw [if_pos ha, if_pos ha]; rfl
      · rw [if_neg ha, if_neg ha]; rfl

theorem slowInner_fold (s : State) (auto : Bool) (A : Nat) : ∀ (W : List (Nat × Nat))
    (acc : List NetRow × List (Nat × Nat)), WeCacheOk s acc.2 →
    WeCacheOk s (W.foldl (slowInner s auto A) acc).2 ∧
      (W.foldl (slowInner s auto A) acc).1 =
        netFold (·.1) netAdd acc.1 (W.filterMap (fun tw => evOf auto A (s.windupWe tw.1) tw.2))
  | [], acc, hc => ⟨hc, rfl⟩
  | tw :: W, acc, hc => by
    obtain ⟨c', hc', e⟩ := slowInner_spec s auto A acc tw hc
    rw [List.foldl_cons, e]
    have ih := slowInner_fold s auto A W
      ((evOf auto A (s.windupWe tw.1) tw.2).elim acc.1 (fun e => netTouch acc.1 e.1 (netAdd e)), c') hc'
    refine ⟨ih.1, ?_⟩
    rw [ih.2]
    cases hev : evOf auto A (s.windupWe tw.1) tw.2 with
    | none =>
      rw [List.filterMap_cons_none (f := fun tw : Nat × Nat => evOf auto A (s.windupWe tw.1) tw.2) (a := tw) hev]
      rfl
    | some ev =>
      rw [List.filterMap_cons_some (f := fun tw : Nat × Nat => evOf auto A (s.windupWe tw.1) tw.2) (a := tw) hev]
      rfl

theorem slowStep_fold (s : State) (out auto : Bool) : ∀ (D : List (Nat × Nat)),
    (∀ bw ∈ D, bw.2 ≠ 0 → bw.2 = s.windupWe bw.1) → ∀ (acc : List NetRow × List (Nat × Nat)), WeCacheOk s acc.2 →
    (D.foldl (slowStep s out auto) acc).1 = netFold (·.1) netAdd acc.1 (D.flatMap (s.blockEvents out auto))
  | [], _, _, _ => rfl
  | bw :: D, hD, acc, hc => by
    rw [List.foldl_cons, List.flatMap_cons, netFold_append]
    have hD' : ∀ bw ∈ D, bw.2 ≠ 0 → bw.2 = s.windupWe bw.1 := fun x hx => hD x (List.mem_cons_of_mem _ hx)
    rw [slowStep_def, blockEvents_def]
    by_cases hq : ((s.cell bw.1).flags.page && decide (bw.2 ≠ 0)) = true ∧
        (if out then (s.cell bw.1).out else (s.cell bw.1).inn) ≠ 0
    · have hcond : ¬ ((!(s.cell bw.1).flags.page || decide ((if out then (s.cell bw.1).out else (s.cell bw.1).inn) = 0)
          || decide (bw.2 = 0)) = true) := by
        obtain ⟨h1, h2⟩ := hq
        simp only [Bool.and_eq_true, decide_eq_true_eq] at h1
        simp [h1.1, h1.2, h2]
      rw [if_neg hcond, if_pos hq]
      have hbw : bw.2 ≠ 0 := by
        have := hq.1; simp only [Bool.and_eq_true, decide_eq_true_eq] at this; exact this.2
      have hc1 : WeCacheOk s (dictSet acc.2 bw.1 bw.2) := by
        rw [hD bw (List.mem_cons_self ..) hbw]; exact hc.set _
      have hin := slowInner_fold s auto bw.2
        (s.weighted (if out then (s.cell bw.1).out else (s.cell bw.1).inn)) (acc.1, dictSet acc.2 bw.1 bw.2) hc1
      rw [slowStep_fold s out auto D hD' _ hin.1, hin.2]
    · have hcond : (!(s.cell bw.1).flags.page || decide ((if out then (s.cell bw.1).out else (s.cell bw.1).inn) = 0)
          || decide (bw.2 = 0)) = true := by
        simp only [Bool.and_eq_true, decide_eq_true_eq, not_and, Decidable.not_not] at hq
        simp only [Bool.or_eq_true, Bool.not_eq_true', decide_eq_true_eq]
        cases hp : (s.cell bw.1).flags.page with
        | false => exact Or.inl (Or.inl rfl)
        | true =>
          by_cases hb : bw.2 = 0
          · exact Or.inr hb
          · exact Or.inl (Or.inr (hq ⟨hp, hb⟩))
      rw [if_pos hcond, if_neg hq, netFold_nil]
      exact slowStep_fold s out auto D hD' acc hc

/-- MAIN (memory-light variant): whenever the carried ids of the traversal are the bottom-up webentities
    of their blocks (true under `Shape` and the parent invariant), `get_webentities_links_slow` is the
    fold of the link events from the empty answer -/
theorem networkSlow_eq_of (s : State) (out auto : Bool)
    (hD : ∀ bw ∈ s.dfsWe, bw.2 ≠ 0 → bw.2 = s.windupWe bw.1) :
    s.networkSlow out auto = netFold (·.1) netAdd [] (s.netEvents out auto) := by
  rw [networkSlow_unfold]
  exact slowStep_fold s out auto s.dfsWe hD ([], []) (by intro bw h; simp at h)

/-- the carried id of a block is its bottom-up webentity -/
theorem dfsWe_windupWe {s : State} {t : T} (h : Shape s t) (hp : ParOk s t 0) {b w : Nat}
    (hm : (b, w) ∈ s.dfsWe) : w = s.windupWe b := by
  obtain ⟨p, hb, hw⟩ := (dfsWe_mem_iff h b w).mp hm
  rw [hw, windupWe_eq h hp hb]

theorem dfsWe_of_entry {s : State} {t : T} (h : Shape s t) (hp : ParOk s t 0) {p : LRU} {b : Nat}
    (hb : (p, b) ∈ t.entries s []) : (b, s.windupWe b) ∈ s.dfsWe :=
  (dfsWe_mem_iff h b _).mpr ⟨p, hb, windupWe_eq h hp hb⟩

theorem networkSlow_eq {s : State} {t : T} (h : Shape s t) (hp : ParOk s t 0) (out auto : Bool) :
    s.networkSlow out auto = netFold (·.1) netAdd [] (s.netEvents out auto) :=
  networkSlow_eq_of s out auto (fun _ hbw _ => dfsWe_windupWe h hp hbw)

/-! ### the two-pass variant -/

theorem foldl_nested_eq {α β γ ε : Type} (step : γ → ε → γ) (hl : α → List β) (k : α → β → Option ε)
    (inner : α → γ → β → γ) : ∀ (l : List α),
    (∀ x ∈ l, ∀ y ∈ hl x, ∀ g, inner x g y = (k x y).elim g (step g)) → ∀ (g : γ),
    l.foldl (fun g x => (hl x).foldl (inner x) g) g = (l.flatMap (fun x => (hl x).filterMap (k x))).foldl step g := by
  have hinner : ∀ (x : α) (W : List β), (∀ y ∈ W, ∀ g, inner x g y = (k x y).elim g (step g)) → ∀ g,
      W.foldl (inner x) g = (W.filterMap (k x)).foldl step g := by
    intro x W
    induction W with
    | nil => intro _ _; rfl
    | cons y W ih =>
      intro hW g
      rw [List.foldl_cons, hW y (List.mem_cons_self ..), ih (fun y' hy' => hW y' (List.mem_cons_of_mem _ hy'))]
      cases hk : k x y with
      | none => rw [List.filterMap_cons_none hk]; rfl
      | some e => rw [List.filterMap_cons_some hk]; rfl
  intro l
  induction l with
  | nil => intro _ _; rfl
  | cons x l ih =>
    intro hin g
    rw [List.foldl_cons, List.flatMap_cons, List.foldl_append,
      hinner x (hl x) (hin x (List.mem_cons_self ..)),
      ih (fun x' hx' => hin x' (List.mem_cons_of_mem _ hx'))]

theorem flatMap_pointers {α β ε : Type} (q : α → Bool) (c : α → Prop) [DecidablePred c] (mk : α → β)
    (F : β → List ε) : ∀ (D : List α),
    ((D.filter q).filterMap (fun x => if c x then some (mk x) else none)).flatMap F =
      D.flatMap (fun x => if q x = true ∧ c x then F (mk x) else [])
  | [] => rfl
  | x :: D => by
    rw [List.flatMap_cons, ← flatMap_pointers q c mk F D]
    by_cases hq : q x = true
    · rw [List.filter_cons_of_pos hq]
      by_cases hc : c x
      · rw [List.filterMap_cons_some (by rw [if_pos hc]), List.flatMap_cons, if_pos ⟨hq, hc⟩]
      · rw [List.filterMap_cons_none (by rw [if_neg hc]), if_neg (fun h => hc h.2), List.nil_append]
    · rw [List.filter_cons_of_neg hq, if_neg (fun h => hq h.1), List.nil_append]

/-- the page → webentity dictionary of the first pass, read at a page entry -/
theorem pagesWe_get {s : State} {t : T} (h : Shape s t) (hp : ParOk s t 0) {p : LRU} {b : Nat}
    (hb : (p, b) ∈ t.entries s []) (hpg : (s.cell b).flags.page = true) :
    dictGet? (s.dfsWe.filter (fun bw => (s.cell bw.1).flags.page && decide (bw.2 ≠ 0))) b =
      if s.windupWe b = 0 then none else some (s.windupWe b) := by
  cases hg : dictGet? (s.dfsWe.filter (fun bw => (s.cell bw.1).flags.page && decide (bw.2 ≠ 0))) b with
  | some w =>
    have hm := List.mem_filter.mp (dictGet?_mem _ _ _ hg)
    have hw := dfsWe_windupWe h hp hm.1
    have hne : w ≠ 0 := by
      have := hm.2; simp only [Bool.and_eq_true, decide_eq_true_eq] at this; exact this.2
    rw [← hw, if_neg hne]
  | none =>
    by_cases h0 : s.windupWe b = 0
    · rw [if_pos h0]
    · exfalso
      have hm : (b, s.windupWe b) ∈ s.dfsWe.filter (fun bw => (s.cell bw.1).flags.page && decide (bw.2 ≠ 0)) :=
        List.mem_filter.mpr ⟨dfsWe_of_entry h hp hb, by simp [hpg, h0]⟩
      unfold dictGet? at hg
      rw [Option.map_eq_none_iff, List.find?_eq_none] at hg
      exact hg _ hm (by simp)

/-- MAIN (two-pass variant): `get_webentities_links` is the fold of the same link events, from the rows
    of the first pass -/
theorem network_eq {s : State} {t : T} {L : List (Bytes × Bytes)} (v : LinkView s t L) (out auto : Bool) :
    s.network out auto = netFold (·.1) netAdd s.netTally (s.netEvents out auto) := by
  have key := foldl_nested_eq (γ := List NetRow) (fun g e => netTouch g e.1 (netAdd e))
    (fun (sh : Nat × Nat) => s.weighted sh.2)
    (fun sh tw => evOf auto sh.1 (s.windupWe tw.1) tw.2)
    (fun sh g tw =>
      match dictGet? (s.dfsWe.filter (fun bw => (s.cell bw.1).flags.page && decide (bw.2 ≠ 0))) tw.1 with
      | none => g
      | some tWe =>
        if !auto && sh.1 = tWe then g
        else netTouch g sh.1 (fun r => { r with targets := counterAdd r.targets tWe tw.2 }))
    ((s.dfsWe.filter (fun bw => (s.cell bw.1).flags.page && decide (bw.2 ≠ 0))).filterMap (fun bw =>
      if (if out then (s.cell bw.1).out else (s.cell bw.1).inn) ≠ 0 then
        some (bw.2, if out then (s.cell bw.1).out else (s.cell bw.1).inn) else none))
    (by
      intro sh hsh tw htw g
      obtain ⟨bw, hbw, hsome⟩ := List.mem_filterMap.mp hsh
      by_cases hh : (if out then (s.cell bw.1).out else (s.cell bw.1).inn) ≠ 0
      · rw [if_pos hh] at hsome
        simp only [Option.some.injEq] at hsome
        subst hsome
        simp only at htw ⊢
        obtain ⟨hbw1, _⟩ := List.mem_filter.mp hbw
        obtain ⟨p, hpb, _⟩ := (dfsWe_mem_iff v.shape bw.1 bw.2).mp hbw1
        have hmem : tw.1 ∈ s.bag out bw.1 := by
          rw [bag_eq_walk s out bw.1 hh]
          exact ((weighted_spec s _ tw.1 tw.2).mp htw).1
        obtain ⟨q, hq, hqp⟩ := v.graph.bag_entry v.shape hmem
        rw [pagesWe_get v.shape v.par hq hqp]
        unfold evOf
        by_cases h0 : s.windupWe tw.1 = 0
        · rw [if_pos h0, if_pos h0]; rfl
        · rw [if_neg h0, if_neg h0]
          simp only
          by_cases ha : (!auto && decide (bw.2 = s.windupWe tw.1)) = true
          · rw [if_pos ha, if_pos ha]; rfl
          · rw [if_neg ha, if_neg ha]; rfl
      · rw [if_neg hh] at hsome; cases hsome)
    s.netTally
  have hflat := flatMap_pointers (fun (bw : Nat × Nat) => (s.cell bw.1).flags.page && decide (bw.2 ≠ 0))
    (fun bw => (if out then (s.cell bw.1).out else (s.cell bw.1).inn) ≠ 0)
    (fun bw => (bw.2, if out then (s.cell bw.1).out else (s.cell bw.1).inn))
    (fun sh => (s.weighted sh.2).filterMap (fun tw => evOf auto sh.1 (s.windupWe tw.1) tw.2)) s.dfsWe
  unfold State.netEvents State.blockEvents netFold
  rw [← hflat]
  exact key

end Traph

section
open Traph
#print axioms networkSlow_eq
#print axioms network_eq
end

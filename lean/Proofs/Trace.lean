import Proofs.TraceOps
/-! C18, main statement: every cut of the program-ordered write sequence of any history (without
    `clear`) replays to files that are below the completed history in the heap order. Hence a reopened
    torn index reports only pages and link stubs that the completed history also has. -/
namespace Traph
open State

/-! ### list bookkeeping: the log is newest-first, the files are replayed oldest-first -/

theorem take_reverse_log (base ws : List Write) (k : Nat) :
    ((ws ++ base).reverse).take (base.length + k) = (ws.drop (ws.length - k) ++ base).reverse := by
  rw [List.reverse_append, List.reverse_append]
  have e : base.length + k = base.reverse.length + k := by simp
  rw [e, List.take_length_add_append, List.take_reverse]

/-! ### the cut theorem, for traces -/

/-- every cut of the log of a trace from a good state is exactly the files of an intermediate state -/
theorem Trace.cut_state {s0 sf : State} (hg : GoodLog s0) (hl : Live s0) (ht : Trace s0 sf) :
    ∀ k, k ≤ sf.log.length - s0.log.length →
      ∃ m : State, Trace s0 m ∧ Trace m sf ∧
        replay ((sf.log.reverse).take (s0.log.length + k)) = m.files := by
  intro k hk
  obtain ⟨ws, hlog, hcut⟩ := ht.cuts
  have hlen : sf.log.length - s0.log.length = ws.length := by
    rw [hlog, List.length_append]; omega
  rw [hlen] at hk
  obtain ⟨m, h1, h2, h3⟩ := hcut k hk
  refine ⟨m, h1, h2, ?_⟩
  have hgm : GoodLog m := h1.goodLog hg hl.1 hl.2
  rw [hlog, take_reverse_log, ← h3]
  exact hgm

/-- every cut of the log of a trace from a good state is below the end of the trace -/
theorem Trace.cut_le {s0 sf : State} (hg : GoodLog s0) (hl : Live s0) (ht : Trace s0 sf) :
    ∀ k, k ≤ sf.log.length - s0.log.length →
      Files.Le (replay ((sf.log.reverse).take (s0.log.length + k))) sf.files := by
  intro k hk
  obtain ⟨m, _, h2, h3⟩ := ht.cut_state hg hl k hk
  rw [h3]
  exact h2.le.files

/-! ### MAIN: histories -/

/-- C18: every cut (after `s0`'s own writes) of the write sequence of a history is below the completed
    history in the heap order -/
theorem C18_cut_le (s0 : State) (hg : GoodLog s0) (hl : Live s0) (ops : List Op)
    (hop : ∀ op ∈ ops, ∀ d rs, op ≠ .clear d rs) :
    let sf := s0.run ops
    ∀ k, k ≤ sf.log.length - s0.log.length →
      Files.Le (replay ((sf.log.reverse).take (s0.log.length + k))) sf.files := by
  intro sf k hk
  exact (run_trace ops s0 hl hop).cut_le hg hl k hk

/-- the same, naming the intermediate state: it lies between `s0` and the completed history -/
theorem C18_cut_state (s0 : State) (hg : GoodLog s0) (hl : Live s0) (ops : List Op)
    (hop : ∀ op ∈ ops, ∀ d rs, op ≠ .clear d rs) :
    let sf := s0.run ops
    ∀ k, k ≤ sf.log.length - s0.log.length →
      ∃ m : State, s0 ⊑ m ∧ m ⊑ sf ∧ replay ((sf.log.reverse).take (s0.log.length + k)) = m.files := by
  intro sf k hk
  obtain ⟨m, h1, h2, h3⟩ := (run_trace ops s0 hl hop).cut_state hg hl k hk
  exact ⟨m, h1.le, h2.le, h3⟩

/-- the files of any history are what its log replays to -/
theorem goodLog_run (s0 : State) (hg : GoodLog s0) (hl : Live s0) (ops : List Op)
    (hop : ∀ op ∈ ops, ∀ d rs, op ≠ .clear d rs) : GoodLog (s0.run ops) :=
  (run_trace ops s0 hl hop).goodLog hg hl.1 hl.2

/-! ### instantiation: histories from a fresh index -/

/-- the state with just the two header blocks written -/
def baseState (cfg : Config) (dflt : Rule) : State := { cfg := cfg, dflt := dflt, log := [.linkHdr, .hdr 0] }

theorem live_base (cfg : Config) (dflt : Rule) : Live (baseState cfg dflt) :=
  ⟨Nat.zero_lt_one, Nat.zero_lt_one⟩

theorem goodLog_baseState (cfg : Config) (dflt : Rule) : GoodLog (baseState cfg dflt) :=
  goodLog_base cfg dflt

theorem goodLog_fresh (cfg : Config) (dflt : Rule) (rules : List (Bytes × Rule)) :
    GoodLog (State.fresh cfg dflt rules []).1 :=
  (trace_fresh cfg dflt rules []).goodLog (goodLog_base cfg dflt) Nat.zero_lt_one Nat.zero_lt_one

theorem trace_fresh_run (cfg : Config) (dflt : Rule) (rules : List (Bytes × Rule)) (ops : List Op)
    (hop : ∀ op ∈ ops, ∀ d rs, op ≠ .clear d rs) :
    Trace (baseState cfg dflt) ((State.fresh cfg dflt rules []).1.run ops) :=
  (trace_fresh cfg dflt rules []).trans (run_trace ops _ (live_fresh cfg dflt rules []) hop)

/-- C18 for a fresh index (constructor rules included): EVERY cut of the whole write sequence — also
    inside the constructor — is below the completed history -/
theorem C18_fresh_cut_le (cfg : Config) (dflt : Rule) (rules : List (Bytes × Rule)) (ops : List Op)
    (hop : ∀ op ∈ ops, ∀ d rs, op ≠ .clear d rs) :
    let sf := (State.fresh cfg dflt rules []).1.run ops
    ∀ k, k ≤ sf.log.length → Files.Le (replay ((sf.log.reverse).take k)) sf.files := by
  intro sf k hk
  have ht : Trace (baseState cfg dflt) sf := trace_fresh_run cfg dflt rules ops hop
  obtain ⟨ws, hlog⟩ := ht.log
  have hb : (baseState cfg dflt).log = [.linkHdr, .hdr 0] := rfl
  by_cases h2 : 2 ≤ k
  · have hb2 : (baseState cfg dflt).log.length = 2 := rfl
    have key := ht.cut_le (goodLog_baseState cfg dflt) (live_base cfg dflt) (k - 2)
    rw [hb2] at key
    have e : 2 + (k - 2) = k := by omega
    rw [e] at key
    exact key (by omega)
  · rw [hlog, hb, List.reverse_append]
    have hk01 : k = 0 ∨ k = 1 := by omega
    rcases hk01 with rfl | rfl
    · simp only [List.take_zero]
      exact Files.Le.empty _
    · have e : (([Write.linkHdr, Write.hdr 0] : List Write).reverse ++ ws.reverse).take 1 = [Write.hdr 0] := by
        simp
      rw [e]
      refine ⟨fun i c hc => ?_, fun i b hb => by simp [replay, Files.apply] at hb⟩
      have hle := ht.le
      have hc' : (baseState cfg dflt).trie[i]? = some c := by
        simpa [replay, Files.apply, baseState] using hc
      exact hle.cells i c hc'

/-! ### whole-write cuts reopened with the model's `cutOpen` -/

/-- reopening the files of a live state gives that state's stores back -/
theorem openCut_files (ram m : State) (hl : Live m) :
    ∃ st, openCut ram m.files 0 = .ok st ∧ st.trie = m.trie ∧ st.links = m.links ∧ st.hdrId = m.hdrId := by
  have h1 : ¬ m.files.trie.size = 0 := by have := hl.1; show ¬ m.trie.size = 0; omega
  have h2 : ¬ m.files.links.size = 0 := by have := hl.2; show ¬ m.links.size = 0; omega
  refine ⟨_, by simp only [openCut]; rfl, ?_, ?_, ?_⟩
  · simp only [if_neg h1]; rfl
  · simp only [if_neg h2]; rfl
  · simp only [if_neg h1]; rfl

theorem cutOpen_whole (ram : State) (full : List Write) (k : Nat) :
    cutOpen ram full k 0 = openCut ram (replay (full.take k)) 0 := by
  unfold cutOpen
  simp only
  congr 1
  split
  · split <;> rfl
  · rfl

/-- C18 with the model's own reopening: a cut at a write boundary of any history reopens (with whatever
    RAM part the caller supplies) to a state below the completed history -/
theorem C18_cutOpen_le (s0 : State) (hg : GoodLog s0) (hl : Live s0) (ops : List Op)
    (hop : ∀ op ∈ ops, ∀ d rs, op ≠ .clear d rs) (ram : State) :
    let sf := s0.run ops
    ∀ k, k ≤ sf.log.length - s0.log.length →
      ∃ st, cutOpen ram sf.log.reverse (s0.log.length + k) 0 = .ok st ∧ st ⊑ sf := by
  intro sf k hk
  obtain ⟨m, h1, h2, h3⟩ := (run_trace ops s0 hl hop).cut_state hg hl k hk
  obtain ⟨st, hst, e1, e2, _⟩ := openCut_files ram m (h1.live hl)
  refine ⟨st, ?_, (Le.of_eq e1.symm e2.symm).trans h2.le⟩
  rw [cutOpen_whole, h3]; exact hst

/-! ### consequences of `Files.Le` -/

/-- a block flagged as a page in the cut files is a page with the same chunk and parent afterwards -/
theorem Files.Le.page_persists {f g : Files} (h : Files.Le f g) (i : Nat) (c : Cell)
    (hc : f.trie[i]? = some c) (hp : c.flags.page = true) :
    ∃ c', g.trie[i]? = some c' ∧ c'.flags.page = true ∧ c'.chunk = c.chunk ∧ c'.parent = c.parent := by
  obtain ⟨c', hc', hle⟩ := h.1 i c hc
  exact ⟨c', hc', hle.page hp, hle.chunk, hle.parent⟩

theorem Files.Le.crawled_persists {f g : Files} (h : Files.Le f g) (i : Nat) (c : Cell)
    (hc : f.trie[i]? = some c) (hp : c.flags.crawled = true) :
    ∃ c', g.trie[i]? = some c' ∧ c'.flags.crawled = true := by
  obtain ⟨c', hc', hle⟩ := h.1 i c hc
  exact ⟨c', hc', hle.crawled hp⟩

/-- tree pointers present in the cut files are the same afterwards -/
theorem Files.Le.pointer_persists {f g : Files} (h : Files.Le f g) (i : Nat) (c : Cell)
    (hc : f.trie[i]? = some c) :
    ∃ c', g.trie[i]? = some c' ∧ (c.left ≠ 0 → c'.left = c.left) ∧ (c.right ≠ 0 → c'.right = c.right) ∧
      (c.child ≠ 0 → c'.child = c.child) := by
  obtain ⟨c', hc', hle⟩ := h.1 i c hc
  exact ⟨c', hc', hle.left, hle.right, hle.child⟩

/-- every stub of the cut files is the same stub afterwards -/
theorem Files.Le.stub_persists {f g : Files} (h : Files.Le f g) (i : Nat) (b : Stub)
    (hb : f.links[i]? = some b) : g.links[i]? = some b := h.2 i b hb

/-- C18, user-facing form: every page block and every link stub present after a crash cut of a history
    from a fresh index is present, unchanged, in the completed history -/
theorem C18_fresh_reports (cfg : Config) (dflt : Rule) (rules : List (Bytes × Rule)) (ops : List Op)
    (hop : ∀ op ∈ ops, ∀ d rs, op ≠ .clear d rs) (k : Nat) :
    let sf := (State.fresh cfg dflt rules []).1.run ops
    let cut := replay ((sf.log.reverse).take k)
    k ≤ sf.log.length →
    (∀ (i : Nat) (c : Cell), cut.trie[i]? = some c → c.flags.page = true →
        i < sf.trie.size ∧ (sf.cell i).flags.page = true ∧ (sf.cell i).chunk = c.chunk ∧
        (sf.cell i).parent = c.parent) ∧
    (∀ (i : Nat) (b : Stub), cut.links[i]? = some b → sf.links[i]? = some b) := by
  intro sf cut hk
  have hle : Files.Le cut sf.files := C18_fresh_cut_le cfg dflt rules ops hop k hk
  refine ⟨fun i c hc hp => ?_, fun i b hb => hle.stub_persists i b hb⟩
  obtain ⟨c', hc', h1, h2, h3⟩ := hle.page_persists i c hc hp
  have hc'' : sf.trie[i]? = some c' := hc'
  refine ⟨(Array.getElem?_eq_some_iff.mp hc'').1, ?_, ?_, ?_⟩ <;>
    simp only [State.cell, hc'', Option.getD_some] <;> assumption

#print axioms step_trace
#print axioms run_trace
#print axioms Trace.cuts
#print axioms Trace.goodLog
#print axioms C18_cut_le
#print axioms C18_fresh_cut_le
#print axioms C18_cutOpen_le
#print axioms C18_fresh_reports

end Traph

import Proofs.Descend
/-! Heap-side frame facts for insertion: which writes leave stems, pointers and the "tail closed"
    condition alone. -/
namespace Traph
open State

/-- what `readTail` looks at in a block -/
def Cell.sig (c : Cell) : Bytes × Bool := (c.chunk, c.flags.hasTail)

/-- two tries that agree on chunk and has-tail flag of every block read the same tails -/
theorem readTail_congr (s t : State)
    (h : ∀ j : Nat, (s.trie[j]?).map Cell.sig = (t.trie[j]?).map Cell.sig) :
    ∀ (f i : Nat), t.readTail f i = s.readTail f i
  | 0, _ => rfl
  | f + 1, i => by
    have hi := h i
    rw [readTail, readTail]
    cases hs : s.trie[i]? with
    | none =>
      rw [hs] at hi
      cases ht : t.trie[i]? with
      | none => rfl
      | some c => rw [ht] at hi; simp at hi
    | some c =>
      rw [hs] at hi
      cases ht : t.trie[i]? with
      | none => rw [ht] at hi; simp at hi
      | some c' =>
        rw [ht] at hi
        simp only [Option.map_some, Option.some.injEq, Cell.sig, Prod.mk.injEq] at hi
        simp only [hi.1, hi.2, readTail_congr s t h f (i + 1)]

/-- a block rewrite that keeps chunk and has-tail flag changes no stem anywhere -/
theorem stemAt_modCell (s : State) (i : Nat) (f : Cell → Cell)
    (hf : ∀ c, (f c).chunk = c.chunk ∧ (f c).flags.hasTail = c.flags.hasTail) (j : Nat) :
    (s.modCell i f).stemAt j = s.stemAt j := by
  have h : ∀ k : Nat, (s.trie[k]?).map Cell.sig =
      ((s.modCell i f).trie[k]?).map Cell.sig := by
    intro k
    rw [getElem?_modCell]
    by_cases hik : i = k
    · subst hik
      simp only [if_true]
      cases s.trie[i]? with
      | none => rfl
      | some c => simp [Cell.sig, (hf c).1, (hf c).2]
    · simp [hik]
  unfold stemAt
  have hk := h j
  cases hs : s.trie[j]? with
  | none =>
    rw [hs] at hk
    cases ht : (s.modCell i f).trie[j]? with
    | none => rfl
    | some c => rw [ht] at hk; simp at hk
  | some c =>
    rw [hs] at hk
    cases ht : (s.modCell i f).trie[j]? with
    | none => rw [ht] at hk; simp at hk
    | some c' =>
      rw [ht] at hk
      simp only [Option.map_some, Option.some.injEq, Cell.sig, Prod.mk.injEq] at hk
      simp only [← hk.1, ← hk.2, trie_modCell_size, readTail_congr s (s.modCell i f) h]

theorem stemAt_markCanHave (s : State) (n : Nat) (b : Bool) (j : Nat) : (s.markCanHave n b).stemAt j = s.stemAt j := by
  unfold markCanHave; split
  · exact stemAt_modCell s n (fun c => { c with flags := { c.flags with noChild := false } }) (fun c => ⟨rfl, rfl⟩) j
  · rfl

theorem stemAt_setSlot (s : State) (i : Nat) (sl : Slot) (v : Nat) (j : Nat) :
    (s.modCell i (fun c => c.setSlot sl v)).stemAt j = s.stemAt j :=
  stemAt_modCell s i (fun c => c.setSlot sl v) (fun c => by cases sl <;> exact ⟨rfl, rfl⟩) j

theorem stemAt_setChild (s : State) (i v j : Nat) :
    (s.modCell i (fun c => { c with child := v })).stemAt j = s.stemAt j :=
  stemAt_modCell s i (fun c => { c with child := v }) (fun c => ⟨rfl, rfl⟩) j

/-- `TailClosed` survives block rewrites that keep the has-tail flag -/
theorem TailClosed.modCell {s : State} (h : TailClosed s) (i : Nat) (f : Cell → Cell)
    (hf : ∀ c, (f c).flags.hasTail = c.flags.hasTail) : TailClosed (s.modCell i f) := by
  unfold TailClosed at *
  rw [trie_modCell_size, cell_modCell]
  split
  · rw [hf]; exact h
  · exact h

theorem TailClosed.markCanHave {s : State} (h : TailClosed s) (n : Nat) (b : Bool) : TailClosed (s.markCanHave n b) := by
  unfold State.markCanHave; split
  · exact h.modCell n (fun c => { c with flags := { c.flags with noChild := false } }) (fun c => rfl)
  · exact h

/-- the last block `writeNew` appends never announces a further tail -/
theorem TailClosed.writeNew (s : State) (stem : Bytes) (p : Nat) (c : Bool) : TailClosed (s.writeNew stem p c).1 := by
  unfold TailClosed State.cell
  rw [writeNew_trie]
  by_cases hl : stem.length > Layout.stemCap
  · -- long stem: the last block is the last tail cell
    have hch : chunks Layout.stemCap (stem.drop Layout.stemCap) ≠ [] := by
      intro e
      have hfl := chunks_flatten Layout.stemCap (by decide) (stem.drop Layout.stemCap)
      rw [e] at hfl
      have : (stem.drop Layout.stemCap).length = 0 := by rw [← hfl]; rfl
      simp at this; omega
    have hne : tailsOf stem ≠ [] := by
      unfold tailsOf; rw [if_pos hl]
      intro e
      have := tailCells_length (chunks Layout.stemCap (stem.drop Layout.stemCap))
      rw [e] at this
      exact hch (List.length_eq_zero_iff.mp this.symm)
    have hsz : (s.trie.push (headCell stem p c) ++ (tailsOf stem).toArray).size - 1 =
        (s.trie.push (headCell stem p c)).size + ((tailsOf stem).length - 1) := by
      have : 0 < (tailsOf stem).length := List.length_pos_iff.mpr hne
      simp; omega
    rw [hsz, Array.getElem?_append_right (by omega)]
    simp only [Nat.add_sub_cancel_left, List.getElem?_toArray]
    have hlast : (tailsOf stem)[(tailsOf stem).length - 1]? = (tailsOf stem).getLast? := by
      rw [List.getLast?_eq_getElem?]
    rw [hlast]
    have : ∀ chs : List Bytes, chs ≠ [] → ∃ ck, (tailCells chs).getLast? = some { chunk := ck, flags := { isTail := true } } := by
      intro chs
      induction chs with
      | nil => intro h; exact absurd rfl h
      | cons a as ih =>
        intro _
        cases as with
        | nil => exact ⟨a, by simp [tailCells]⟩
        | cons b bs =>
          obtain ⟨ck, hck⟩ := ih (by simp)
          refine ⟨ck, ?_⟩
          rw [tailCells_cons_cons, List.getLast?_cons, hck]; rfl
    unfold tailsOf
    rw [if_pos hl]
    obtain ⟨ck, hck⟩ := this _ hch
    rw [hck]; rfl
  · -- short stem: the last block is the head, without has-tail
    have ht : tailsOf stem = [] := by unfold tailsOf; rw [if_neg hl]
    rw [ht]
    simp [headCell, hl]

end Traph

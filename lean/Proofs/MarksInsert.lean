import Proofs.MarksInv
import Proofs.ParentInsert
/-! C13, part 3 (c), (d): `add_lru` preserves the mark invariant (any flag), and with
    `flag_can_have_child_webentities = True` it leaves every PROPER ancestor of the returned node unmarked.
    The ghost tree is the one built by `addLru_grow`; the proof carries `MarkOk` and the "unmarked
    ancestors" property `UnmOk` through the same steps (as `Proofs/ParentInsert.lean` does for `ParOk`). -/
namespace Traph
open State

/-! ### cells after the write pair "append the node, hook it into the slot" -/

theorem flags_setSlot (c : Cell) (sl : Slot) (v : Nat) : (c.setSlot sl v).flags = c.flags := by
  cases sl <;> rfl

theorem cell_writeNew_old (s : State) (x : Stem) (par : Nat) (ch : Bool) (a : Nat) (ha : a < s.trie.size) :
    (s.writeNew x par ch).1.cell a = s.cell a := by
  unfold State.cell; rw [writeNew_old s x par ch a ha]

theorem flags_write_old (s : State) (q : Nat) (sl : Slot) (x : Stem) (par : Nat) (ch : Bool) (v : Nat)
    (a : Nat) (ha : a < s.trie.size) :
    (((s.writeNew x par ch).1.modCell q (fun c => c.setSlot sl v)).cell a).flags = (s.cell a).flags := by
  rw [cell_modCell]; split
  · rw [flags_setSlot, cell_writeNew_old s x par ch a ha]
  · rw [cell_writeNew_old s x par ch a ha]

theorem noChild_write_new (s : State) (q : Nat) (sl : Slot) (x : Stem) (par : Nat) (ch : Bool) (v : Nat) :
    (((s.writeNew x par ch).1.modCell q (fun c => c.setSlot sl v)).cell s.trie.size).flags.noChild = !ch := by
  rw [cell_modCell]; split
  · rw [flags_setSlot, cell_writeNew_head]; rfl
  · rw [cell_writeNew_head]; rfl

theorem attrStep_write (s : State) (q : Nat) (sl : Slot) (x : Stem) (par : Nat) (ch : Bool) (v : Nat) :
    AttrStep s ((s.writeNew x par ch).1.modCell q (fun c => c.setSlot sl v)) :=
  (attrStep_writeNew s x par ch).trans (attrStep_modCell _ q _ (fun c => attrEq_setSlot c sl v))

theorem mstep_write (s : State) (q : Nat) (sl : Slot) (x : Stem) (par : Nat) (ch : Bool) (v : Nat) :
    MStep s ((s.writeNew x par ch).1.modCell q (fun c => c.setSlot sl v)) where
  we := fun a ha => ((attrStep_write s q sl x par ch v).old a ha).we
  nc := fun a ha hn => by rw [flags_write_old s q sl x par ch v a ha] at hn; exact hn
  new := fun b hb => ((attrStep_write s q sl x par ch v).new b hb).we

/-! ### `markCanHave` -/

/-- what the first loop does to a matched node that is not the last: afterwards it is unmarked -/
theorem noChild_markCanHave_clear (s : State) (n : Nat) (hn : n < s.trie.size) (g : Bool) (hg : g = true) :
    ((s.markCanHave n (g && (s.cell n).flags.noChild)).cell n).flags.noChild = false := by
  subst hg
  unfold State.markCanHave
  cases hnc : (s.cell n).flags.noChild with
  | false => simp [hnc]
  | true =>
    simp only [Bool.and_self, if_true]
    rw [cell_modCell, if_pos ⟨rfl, hn⟩]

/-- the first loop never sets a `noChild` flag of an old block -/
theorem addLruDescend_noChild_mono (flag : Bool) (stems : List Stem) (s : State) (node : Nat) (ex : Bool)
    (pos : Nat) (h : Hist) (h0 : 0 < s.trie.size) {b : Nat} (hb : b < s.trie.size)
    (hf : (s.cell b).flags.noChild = false) :
    ((addLruDescend flag s stems node ex pos h).1.cell b).flags.noChild = false := by
  cases hc : ((addLruDescend flag s stems node ex pos h).1.cell b).flags.noChild with
  | false => rfl
  | true =>
    have := (addLruDescend_le flag stems s node ex pos h h0).1.cell_noChild hb hc
    rw [hf] at this; cases this

/-! ### entries whose path starts with a given stem -/

theorem entry_head_find {s : State} {u : T} {lo hi : Option Stem} (hord : OrdT s u lo hi)
    (hnd : u.addrs.Nodup) {pre : LRU} {stem : Stem} {tl : List Stem} {b : Nat}
    (h : (pre ++ stem :: tl, b) ∈ u.entries s pre) :
    ∃ a, a ∈ u.sibs ∧ u.find s stem = .found a ∧
      ((tl = [] ∧ b = a) ∨
        (tl ≠ [] ∧ (pre ++ stem :: tl, b) ∈ (u.childAt a).entries s (pre ++ [stem]))) := by
  rw [mem_entries_iff u pre _ b hnd] at h
  obtain ⟨a, hmem, h⟩ := h
  have key : ∀ tl', pre ++ stem :: tl = pre ++ [s.stemAt a] ++ tl' → s.stemAt a = stem ∧ tl = tl' := by
    intro tl' e
    rw [List.append_assoc] at e
    have := List.append_cancel_left e
    simp only [List.singleton_append, List.cons.injEq] at this
    exact ⟨this.1.symm, this.2⟩
  rcases h with ⟨h1, h2⟩ | h
  · obtain ⟨hst, htl⟩ := key [] (by simpa using h1)
    exact ⟨a, hmem, T.find_found u lo hi hord a hmem hst, Or.inl ⟨htl, h2⟩⟩
  · obtain ⟨x, rest, e⟩ := entries_prefix _ _ _ _ h
    obtain ⟨hst, htl⟩ := key (x :: rest) e
    refine ⟨a, hmem, T.find_found u lo hi hord a hmem hst, Or.inr ⟨by rw [htl]; simp, ?_⟩⟩
    rw [hst] at h; exact h

/-! ### the first loop: existing proper ancestors are unmarked; so is a fresh sibling that is not last -/

theorem addLruDescend_unmark : ∀ (stems : List Stem) (s : State) (u : T) (lo hi : Option Stem) (pre : LRU)
    (pos : Nat) (h : Hist),
    Rep s u → u ≠ .nil → u.size ≤ s.trie.size → TailClosed s → OrdT s u lo hi → u.addrs.Nodup →
    stems ≠ [] →
    (∀ k b, 0 < k → k < stems.length → (pre ++ stems.take k, b) ∈ u.entries s pre →
      ((addLruDescend true s stems u.root true pos h).1.cell b).flags.noChild = false) ∧
    (∀ q sl pre' x rest'', u.descend s stems pre = .fell q sl pre' (x :: rest'') → sl ≠ .C →
      rest'' ≠ [] →
      ((addLruDescend true s stems u.root true pos h).1.cell s.trie.size).flags.noChild = false) := by
  intro stems
  induction stems with
  | nil => intro _ _ _ _ _ _ _ _ _ _ _ _ _ h; exact absurd rfl h
  | cons stem rest ih =>
    intro s u lo hi pre pos h hr hne hsz hcl hord hnd _
    have hfs := findSib_eq_find (s := s) (stem := stem) u (s.trie.size + 1) hr hne (by omega)
    cases hf : u.find s stem with
    | corrupt => exact absurd hf (T.find_ne_corrupt u hne)
    | missing q0 sl0 =>
      rw [hf] at hfs
      obtain ⟨c, hc, hslot⟩ := findSib_missing s stem _ _ _ _ hfs
      have hg := graftStep_write s q0 sl0 stem (s.cell q0).parent false c hc hslot hcl
      have he := ensureStem_missing s u.root stem q0 sl0 hfs
      rw [addLruDescend_cons_stop true s stem rest u.root true pos h _ _ he (Or.inr hg.cell_child_new)]
      refine ⟨?_, ?_⟩
      · intro k b hk0 _ hent
        obtain ⟨k', rfl⟩ : ∃ k', k = k' + 1 := ⟨k - 1, by omega⟩
        rw [List.take_succ_cons] at hent
        obtain ⟨a, _, hfa, _⟩ := entry_head_find hord hnd hent
        rw [hf] at hfa; cases hfa
      · intro q sl pre' x rest'' hd _ hne''
        simp only [T.descend, hf, Loc.fell.injEq, List.cons.injEq] at hd
        obtain ⟨_, _, _, _, hrr⟩ := hd
        subst hrr
        simp only
        refine noChild_markCanHave_clear _ _ hg.size_lt _ ?_
        cases rest with
        | nil => exact absurd rfl hne''
        | cons _ _ => rfl
    | found a =>
      rw [hf] at hfs
      have he := ensureStem_found s u.root stem a hfs
      obtain ⟨hmem, _⟩ := T.find_sound u a hf
      obtain ⟨hrc, cell, hcell, hch⟩ := Rep.childAt u a hr hmem
      have hcella : s.cell a = cell := by simp [State.cell, hcell]
      have halt : a < s.trie.size := (Array.getElem?_eq_some_iff.mp hcell).1
      cases rest with
      | nil =>
        refine ⟨?_, ?_⟩
        · intro k b hk0 hk _
          simp at hk; omega
        · intro q sl pre' x rest'' hd _ _
          simp [T.descend, hf] at hd
      | cons st2 rest2 =>
        have hclear : ((s.markCanHave a (!(st2 :: rest2).isEmpty && true && (s.cell a).flags.noChild)).cell a
            ).flags.noChild = false := noChild_markCanHave_clear s a halt _ rfl
        cases hc : u.childAt a with
        | nil =>
          rw [hc] at hch
          rw [addLruDescend_cons_stop true s stem _ u.root true pos h _ _ he
            (Or.inr (by rw [hcella, hch]; rfl))]
          refine ⟨?_, ?_⟩
          · intro k b hk0 _ hent
            obtain ⟨k', rfl⟩ : ∃ k', k = k' + 1 := ⟨k - 1, by omega⟩
            rw [List.take_succ_cons] at hent
            obtain ⟨a2, _, hfa, hcase⟩ := entry_head_find hord hnd hent
            rw [hf] at hfa
            cases hfa
            rcases hcase with ⟨_, rfl⟩ | ⟨_, hin⟩
            · exact hclear
            · rw [hc] at hin; simp [T.entries] at hin
          · intro q sl pre' x rest'' hd hsl _
            simp only [T.descend, hf, hc, Loc.fell.injEq] at hd
            exact absurd hd.2.1.symm hsl
        | node a' l' c' r' =>
          rw [hc] at hch hrc
          have hne0 : (s.cell a).child ≠ 0 := by rw [hcella, hch]; exact hrc.1
          rw [addLruDescend_cons_go true s stem _ u.root true pos h _ _ he (by simp) hne0]
          have hns := noStruct_markCanHave s a
            (!(st2 :: rest2).isEmpty && true && (s.cell a).flags.noChild)
          have hsz' : (T.node a' l' c' r').size ≤ s.trie.size := by
            have := T.childAt_size u a; rw [hc] at this; omega
          have hroot : (s.cell a).child = (T.node a' l' c' r').root := by rw [hcella, hch]
          rw [hroot]
          have hord' := OrdT.childAt u lo hi a hord hmem
          have hnd' := T.childAt_nodup u a hnd hmem
          rw [hc] at hord' hnd'
          have h0' : 0 < (s.markCanHave a
              (!(st2 :: rest2).isEmpty && true && (s.cell a).flags.noChild)).trie.size := by
            rw [hns.1]; omega
          obtain ⟨ih1, ih2⟩ := ih _ (.node a' l' c' r') none none (pre ++ [stem]) (pos + stem.length)
            (h.visit (s.cell a) (pos + stem.length)) (hns.rep hrc) (by simp)
            (by rw [hns.1]; exact hsz') (hns.closed hcl)
            (OrdT.frame _ _ _ hord' (fun x _ => hns.stemAt x)) hnd' (by simp)
          refine ⟨?_, ?_⟩
          · intro k b hk0 hk hent
            obtain ⟨k', rfl⟩ : ∃ k', k = k' + 1 := ⟨k - 1, by omega⟩
            rw [List.take_succ_cons] at hent
            obtain ⟨a2, _, hfa, hcase⟩ := entry_head_find hord hnd hent
            rw [hf] at hfa
            cases hfa
            rcases hcase with ⟨_, rfl⟩ | ⟨htl, hin⟩
            · exact addLruDescend_noChild_mono true _ _ _ _ _ _ h0' (by rw [hns.1]; exact halt) hclear
            · rw [hc] at hin
              have hk' : 0 < k' := by
                rcases Nat.eq_zero_or_pos k' with e | e
                · subst e; simp at htl
                · exact e
              refine ih1 k' b hk' (by simp at hk ⊢; omega) ?_
              rw [T.entries_frame _ _ (fun x _ => hns.stemAt x)]
              simpa using hin
          · intro q sl pre' x rest'' hd hsl hne''
            simp only [T.descend, hf, hc] at hd
            have := ih2 q sl pre' x rest'' (by rw [T.descend_congr hns.stemAt]; exact hd) hsl hne''
            rw [hns.1] at this
            exact this

/-! ### the entries of the tree after a graft at a hole -/

theorem graft_hole_mem {s s' : State} {t : T} {q : Nat} {sl : Slot} {x : Stem} {pre' : LRU}
    {lo' hi' : Option Stem} (h : Shape s t) (hh : Hole s q sl t [] none none pre' lo' hi')
    (g : GraftStep s s' q sl x) :
    ∀ p b, (p, b) ∈ (t.graft q sl s.trie.size).entries s' [] →
      (p = pre' ++ [x] ∧ b = s.trie.size) ∨ (p, b) ∈ t.entries s [] := by
  intro p b hm
  have hst : ∀ a ∈ t.addrs, s'.stemAt a = s.stemAt a := fun a ha => g.stems a (h.rep.lt_size a ha)
  have hperm := hh.graft_entries (b := s.trie.size) h.nodup hst g.stemNew
  rcases List.mem_cons.mp (hperm.subset hm) with e | e
  · exact Or.inl (Prod.mk.inj e)
  · exact Or.inr e

theorem after_fell_mem {stems : LRU} {s0 s1 s2 s3 : State} {t : T} {q : Nat} {sl : Slot} {pre' : LRU}
    {x : Stem} {rest'' : List Stem}
    (h : Shape s0 t) (hd : t.descend s0 stems [] = .fell q sl pre' (x :: rest''))
    (n1 : NoStruct s0 s1) (g : GraftStep s1 s2 q sl x) (n2 : NoStruct s2 s3) :
    ∀ p b, (p, b) ∈ (t.graft q sl s1.trie.size).entries s3 [] →
      (p = pre' ++ [x] ∧ b = s1.trie.size) ∨ (p, b) ∈ t.entries s0 [] := by
  intro p b hm
  have h1 := n1.shape h
  have hd1 : t.descend s1 stems [] = .fell q sl pre' (x :: rest'') := by
    rw [T.descend_congr n1.stemAt]; exact hd
  obtain ⟨lo', hi', hh, _, _⟩ :=
    T.descend_hole stems t [] none none q sl pre' x rest'' hd1 (by simp) (by simp)
  rw [T.entries_frame _ [] (fun a _ => n2.stemAt a)] at hm
  rcases graft_hole_mem h1 hh g p b hm with e | e
  · exact Or.inl e
  · rw [T.entries_frame _ [] (fun a _ => n1.stemAt a)] at e
    exact Or.inr e

theorem take_snoc_rest_ne {α : Type} {p : List α} {x : α} {rest stems : List α} {k : Nat}
    (e : p ++ x :: rest = stems) (e1 : stems.take k = p ++ [x]) (hk : k < stems.length) : rest ≠ [] := by
  intro hr
  subst hr
  have h1 := congrArg List.length e1
  have h2 := congrArg List.length e
  simp at h1 h2
  omega

/-! ### the property "every proper ancestor on the path `stems` is unmarked" -/

/-- every node stored under a non-empty proper prefix of `stems` is unmarked -/
def UnmOk (stems : LRU) (s : State) (t : T) : Prop :=
  ∀ k b, 0 < k → k < stems.length → (stems.take k, b) ∈ t.entries s [] →
    (s.cell b).flags.noChild = false

/-! ### the second loop -/

theorem addLruCreate_growM (stems : LRU) (flag : Bool) : ∀ (rest : List Stem) (s : State) (t : T) (q : Nat)
    (p : LRU), Shape s t → MarkOk s t → (flag = true → UnmOk stems s t) → (p, q) ∈ t.entries s [] →
    t.childOf q = .nil → p ≠ [] → p ++ rest = stems →
    ∃ t', Grow stems s t (addLruCreate flag s rest q).1 t' ∧
      MarkOk (addLruCreate flag s rest q).1 t' ∧
      (flag = true → UnmOk stems (addLruCreate flag s rest q).1 t') ∧
      (stems, (addLruCreate flag s rest q).2) ∈ t'.entries (addLruCreate flag s rest q).1 [] := by
  intro rest
  induction rest with
  | nil =>
    intro s t q p h hm hu hent _ _ e
    simp only [List.append_nil] at e
    subst e
    exact ⟨t, Grow.refl h, hm, hu, hent⟩
  | cons x rest ih =>
    intro s t q p h hm hu hent hc hpne e
    rw [addLruCreate_cons]
    have hh := T.child_hole (s := s) t [] none none h.nodup hent hc
    obtain ⟨c, hcq, hslot⟩ := hh.slot_empty h.rep
    have g := graftStep_write s q .C x q (!rest.isEmpty && flag) c hcq hslot h.closed
    have hk : ∃ k, 0 < k ∧ k ≤ stems.length ∧ p ++ [x] = stems.take k := by
      refine ⟨p.length + 1, by omega, ?_, ?_⟩
      · rw [← e]; simp
      · rw [← e, take_append_cons]
    obtain ⟨gr, hent1, hco⟩ := Grow.graft_hole (stems := stems) h hh (by simp) (by simp) g hk
    have hm1 : MarkOk ((s.writeNew x q (!rest.isEmpty && flag)).1.modCell q
        (fun c => c.setSlot .C s.trie.size)) (t.graft q .C s.trie.size) :=
      hm.graft_step h.rep (mstep_write s q .C x q _ _) q .C (Nat.le_refl _)
    have hu1 : flag = true → UnmOk stems ((s.writeNew x q (!rest.isEmpty && flag)).1.modCell q
        (fun c => c.setSlot .C s.trie.size)) (t.graft q .C s.trie.size) := by
      intro hf k b hk0 hkl hmem
      rcases graft_hole_mem h hh g _ _ hmem with ⟨e1, rfl⟩ | hold
      · rw [noChild_write_new]
        have hrne : rest ≠ [] := take_snoc_rest_ne e e1 hkl
        subst hf
        cases rest with
        | nil => exact absurd rfl hrne
        | cons _ _ => rfl
      · have hb := h.rep.lt_size b (entries_addr_mem _ _ _ _ hold)
        rw [flags_write_old s q .C x q _ _ b hb]
        exact hu hf k b hk0 hkl hold
    obtain ⟨t', gr', hm', hu', hent'⟩ := ih _ (t.graft q .C s.trie.size) s.trie.size (p ++ [x]) gr.shape
      hm1 hu1 hent1 hco (by simp) (by rw [← e]; simp)
    exact ⟨t', gr.trans gr', hm', hu', hent'⟩

/-! ### `add_lru` -/

/-- MAIN: `add_lru` preserves the mark invariant (on the ghost tree of `addLru_grow`), and with
    `flag = true` every proper ancestor of the returned node is unmarked afterwards -/
theorem addLru_marks {s : State} {t : T} (h : Shape s t) (hm : MarkOk s t) (stems : LRU) (hne : stems ≠ [])
    (flag : Bool) :
    ∃ t', Grow stems s t (s.addLru stems flag).1 t' ∧ MarkOk (s.addLru stems flag).1 t' ∧
      (flag = true → UnmOk stems (s.addLru stems flag).1 t') ∧
      (stems, (s.addLru stems flag).2.1) ∈ t'.entries (s.addLru stems flag).1 [] := by
  have key : ∀ D : State × Nat × List Stem × Hist,
      D = addLruDescend flag s stems 1 (decide (s.trie.size > 1)) 0 {} →
      ∃ t', Grow stems s t (addLruCreate flag D.1 D.2.2.1 D.2.1).1 t' ∧
        MarkOk (addLruCreate flag D.1 D.2.2.1 D.2.1).1 t' ∧
        (flag = true → UnmOk stems (addLruCreate flag D.1 D.2.2.1 D.2.1).1 t') ∧
        (stems, (addLruCreate flag D.1 D.2.2.1 D.2.1).2) ∈
          t'.entries (addLruCreate flag D.1 D.2.2.1 D.2.1).1 [] := by
    intro D hD
    by_cases hsz : s.trie.size ≤ 1
    · -- empty trie
      have hsz1 : s.trie.size = 1 := by have := h.live; omega
      have ht := h.eq_nil hsz
      subst ht
      cases stems with
      | nil => exact absurd rfl hne
      | cons stem rest =>
        have hex : decide (s.trie.size > 1) = false := by simp; omega
        rw [hex] at hD
        have he : s.ensureStem 1 false stem = ((s.writeNew stem 0 false).1, 1) := by
          simp only [ensureStem, Bool.not_false, if_true]
          exact Prod.ext rfl (by rw [writeNew_idx]; exact hsz1)
        have hhead : (s.writeNew stem 0 false).1.trie[1]? = some (headCell stem 0 false) := by
          have := getElem?_writeNew_head s stem 0 false
          rw [hsz1] at this; exact this
        have hcell : (s.writeNew stem 0 false).1.cell 1 = headCell stem 0 false := by
          simp [State.cell, hhead]
        rw [addLruDescend_cons_stop flag s stem rest 1 false 0 {} _ _ he
          (Or.inr (by rw [hcell]; rfl))] at hD
        subst hD
        simp only
        have hlt := size_lt_writeNew s stem 0 false
        have sh1 : Shape (s.writeNew stem 0 false).1 (.node 1 .nil .nil .nil) :=
          shape_single (by omega) _ hhead rfl rfl rfl (TailClosed.writeNew s stem 0 false)
        have hstem1 : (s.writeNew stem 0 false).1.stemAt 1 = stem := by
          have := stemAt_writeNew' s stem 0 false
          rw [hsz1] at this; exact this
        have gr1 : Grow (stem :: rest) s .nil (s.writeNew stem 0 false).1 (.node 1 .nil .nil .nil) := by
          refine ⟨sh1, by omega, ?_, ?_, ?_⟩
          · intro p b hm; simp [T.entries] at hm
          · intro p b hm
            simp only [T.entries, hstem1, List.nil_append, List.append_nil, List.mem_singleton,
              Prod.mk.injEq] at hm
            exact Or.inr ⟨by omega, 1, by omega, by simp, by simp [hm.1]⟩
          · intro a ha
            exact stemAt_writeNew_other s stem 0 false a ha h.closed
        have hns := noStruct_markCanHave (s.writeNew stem 0 false).1 1
          (!rest.isEmpty && flag && ((s.writeNew stem 0 false).1.cell 1).flags.noChild)
        have gr2 := gr1.trans (Grow.of_noStruct (stems := stem :: rest) sh1 hns)
        have hent : ([stem], 1) ∈ (T.node 1 .nil .nil .nil).entries
            ((s.writeNew stem 0 false).1.markCanHave 1
              (!rest.isEmpty && flag && ((s.writeNew stem 0 false).1.cell 1).flags.noChild)) [] := by
          simp [T.entries, hns.stemAt, hstem1]
        have hm2 : MarkOk ((s.writeNew stem 0 false).1.markCanHave 1
              (!rest.isEmpty && flag && ((s.writeNew stem 0 false).1.cell 1).flags.noChild))
            (.node 1 .nil .nil .nil) := MarkOk.leaf 1
        have hu2 : flag = true → UnmOk (stem :: rest) ((s.writeNew stem 0 false).1.markCanHave 1
              (!rest.isEmpty && flag && ((s.writeNew stem 0 false).1.cell 1).flags.noChild))
            (.node 1 .nil .nil .nil) := by
          intro hf k b hk0 hkl hmem
          simp only [T.entries, List.nil_append, List.append_nil, List.mem_singleton,
            Prod.mk.injEq] at hmem
          obtain ⟨e1, rfl⟩ := hmem
          have hrne : rest ≠ [] := by
            intro hr; subst hr
            simp at hkl; omega
          refine noChild_markCanHave_clear _ 1 (by omega) _ ?_
          subst hf
          cases rest with
          | nil => exact absurd rfl hrne
          | cons _ _ => rfl
        obtain ⟨t', gr', hm', hu', hent'⟩ := addLruCreate_growM (stem :: rest) flag rest _ _ 1 [stem]
          gr2.shape hm2 hu2 hent (by simp [T.childOf]) (by simp) (by simp)
        exact ⟨t', gr2.trans gr', hm', hu', hent'⟩
    · -- non-empty trie: descend from block 1
      have hex : decide (s.trie.size > 1) = true := by simp; omega
      rw [hex] at hD
      have hroot := h.root
      rw [if_neg hsz] at hroot
      have htne : t ≠ .nil := by intro e; subst e; simp at hroot
      have spec := addLruDescend_spec flag stems s t [] 0 {} h.rep htne h.size_le h.closed hne
      rw [hroot, ← hD] at spec
      have msD : MStep s D.1 := by
        rw [hD]
        exact MStep.of_attr_le (attrStep_addLruDescend flag stems s 1 true 0 {})
          (addLruDescend_le flag stems s 1 true 0 {} h.live).1
      have hun : flag = true →
          (∀ k b, 0 < k → k < stems.length → (stems.take k, b) ∈ t.entries s [] →
            (D.1.cell b).flags.noChild = false) ∧
          (∀ q sl pre' x rest'', t.descend s stems [] = .fell q sl pre' (x :: rest'') → sl ≠ .C →
            rest'' ≠ [] → (D.1.cell s.trie.size).flags.noChild = false) := by
        intro hf
        subst hf
        have := addLruDescend_unmark stems s t none none [] 0 {} h.rep htne h.size_le h.closed h.ord
          h.nodup hne
        rw [hroot, ← hD] at this
        simpa using this
      obtain ⟨S, nd, rst, hi⟩ := D
      simp only at msD hun ⊢
      cases hd : t.descend s stems [] with
      | corrupt => rw [hd] at spec; exact absurd spec (by simp [DescSpec])
      | found b =>
        rw [hd] at spec
        simp only [DescSpec] at spec
        obtain ⟨n1, rfl, rfl⟩ := spec
        have hmem := descend_found_mem stems t [] nd hd
        simp only [List.nil_append] at hmem
        have gr := Grow.of_noStruct (stems := stems) h n1
        refine ⟨t, gr, hm.step h.rep msD, ?_, gr.keep _ _ hmem⟩
        intro hf k b hk0 hkl hent
        have hent' : (stems.take k, b) ∈ t.entries S [] := hent
        rw [T.entries_frame _ [] (fun a _ => n1.stemAt a)] at hent'
        exact (hun hf).1 k b hk0 hkl hent'
      | fell q sl pre' rest' =>
        rw [hd] at spec
        simp only [DescSpec] at spec
        obtain ⟨hrne, _, _⟩ := descend_fell_suffix stems t [] q sl pre' rest' hd
        cases rest' with
        | nil => exact absurd rfl hrne
        | cons x rest'' =>
          by_cases hC : sl = .C
          · rw [if_pos hC] at spec
            subst hC
            obtain ⟨n1, rfl, rfl⟩ := spec
            rw [addLruCreate_cons]
            have hd1 : t.descend S stems [] = .fell nd .C pre' (x :: rest'') := by
              rw [T.descend_congr n1.stemAt]; exact hd
            obtain ⟨_, _, hh, _, _⟩ :=
              T.descend_hole stems t [] none none nd .C pre' x rest'' hd1 (by simp) (by simp)
            obtain ⟨c, hcq, hslot⟩ := hh.slot_empty (n1.rep h.rep)
            have g := graftStep_write S nd .C x nd (!rest''.isEmpty && flag) c hcq hslot
              (n1.closed h.closed)
            obtain ⟨gr, hent, hco, e⟩ := grow_after_fell_graft h hd n1 g (NoStruct.refl _)
            have hmS : MarkOk S t := hm.step h.rep msD
            have hm1 := hmS.graft_step (n1.rep h.rep)
              (mstep_write S nd .C x nd (!rest''.isEmpty && flag) S.trie.size) nd .C (Nat.le_refl _)
            have hu1 : flag = true → UnmOk stems ((S.writeNew x nd (!rest''.isEmpty && flag)).1.modCell nd
                (fun c => c.setSlot .C S.trie.size)) (t.graft nd .C S.trie.size) := by
              intro hf k b hk0 hkl hmem
              rcases after_fell_mem h hd n1 g (NoStruct.refl _) _ _ hmem with ⟨e1, rfl⟩ | hold
              · rw [noChild_write_new]
                have hrne : rest'' ≠ [] := take_snoc_rest_ne e e1 hkl
                subst hf
                cases rest'' with
                | nil => exact absurd rfl hrne
                | cons _ _ => rfl
              · have hb : b < S.trie.size := by
                  rw [n1.1]; exact h.rep.lt_size b (entries_addr_mem _ _ _ _ hold)
                rw [flags_write_old S nd .C x nd _ _ b hb]
                exact (hun hf).1 k b hk0 hkl hold
            obtain ⟨t', gr', hm', hu', hent'⟩ := addLruCreate_growM stems flag rest'' _ _ S.trie.size
              (pre' ++ [x]) gr.shape hm1 hu1 hent hco (by simp) (by rw [← e]; simp)
            exact ⟨t', gr.trans gr', hm', hu', hent'⟩
          · rw [if_neg hC] at spec
            obtain ⟨x', rest3, s1, s2, e0, n1, g, n2, rfl, rfl⟩ := spec
            obtain ⟨rfl, rfl⟩ := List.cons.inj e0
            obtain ⟨gr, hent, hco, e⟩ := grow_after_fell_graft h hd n1 g n2
            have hm1 : MarkOk S (t.graft q sl s1.trie.size) :=
              hm.graft_step h.rep msD q sl (Nat.le_of_eq n1.1.symm)
            have hu1 : flag = true → UnmOk stems S (t.graft q sl s1.trie.size) := by
              intro hf k b hk0 hkl hmem
              rcases after_fell_mem h hd n1 g n2 _ _ hmem with ⟨e1, rfl⟩ | hold
              · have hrne : rest'' ≠ [] := take_snoc_rest_ne e e1 hkl
                rw [n1.1]
                exact (hun hf).2 q sl pre' x rest'' hd hC hrne
              · exact (hun hf).1 k b hk0 hkl hold
            obtain ⟨t', gr', hm', hu', hent'⟩ := addLruCreate_growM stems flag rest'' S _ s1.trie.size
              (pre' ++ [x]) gr.shape hm1 hu1 hent hco (by simp) (by rw [← e]; simp)
            exact ⟨t', gr.trans gr', hm', hu', hent'⟩
  exact key _ rfl

/-- (c): `add_lru` preserves the mark invariant, whatever the flag -/
theorem addLru_markOk {s : State} {t : T} (h : Shape s t) (hm : MarkOk s t) (stems : LRU) (hne : stems ≠ [])
    (flag : Bool) :
    ∃ t', Grow stems s t (s.addLru stems flag).1 t' ∧ MarkOk (s.addLru stems flag).1 t' ∧
      (stems, (s.addLru stems flag).2.1) ∈ t'.entries (s.addLru stems flag).1 [] := by
  obtain ⟨t', gr, hm', _, hent⟩ := addLru_marks h hm stems hne flag
  exact ⟨t', gr, hm', hent⟩

/-- (d) THE POINT: after `add_lru(lru, flag_can_have_child_webentities=True)` every proper ancestor of
    the returned node (the node stored under every non-empty proper prefix of the path) is unmarked -/
theorem addLru_true_unmarks {s : State} {t : T} (h : Shape s t) (hm : MarkOk s t) (stems : LRU)
    (hne : stems ≠ []) :
    ∃ t', Grow stems s t (s.addLru stems true).1 t' ∧ MarkOk (s.addLru stems true).1 t' ∧
      (stems, (s.addLru stems true).2.1) ∈ t'.entries (s.addLru stems true).1 [] ∧
      ∀ k, 0 < k → k < stems.length → ∀ b, (stems.take k, b) ∈ t'.entries (s.addLru stems true).1 [] →
        ((s.addLru stems true).1.cell b).flags.noChild = false := by
  obtain ⟨t', gr, hm', hu, hent⟩ := addLru_marks h hm stems hne true
  exact ⟨t', gr, hm', hent, fun k hk0 hkl b hb => hu rfl k b hk0 hkl hb⟩

/-- the same without ghost tree: in terms of the look-up `lru_node` of the resulting index -/
theorem addLru_true_unmarks_lruNode {s : State} {t : T} (h : Shape s t) (hm : MarkOk s t) (stems : LRU)
    (hne : stems ≠ []) :
    ∀ k, 0 < k → k < stems.length → ∀ b, (s.addLru stems true).1.lruNode (stems.take k) = some b →
      ((s.addLru stems true).1.cell b).flags.noChild = false := by
  obtain ⟨t', gr, _, _, hu⟩ := addLru_true_unmarks h hm stems hne
  intro k hk0 hkl b hb
  have hne' : stems.take k ≠ [] := by
    intro e
    have := congrArg List.length e
    rw [List.length_take, List.length_nil] at this; omega
  exact hu k hk0 hkl b ((lruNode_iff_entries gr.shape _ hne' b).mp hb)

#print axioms addLruDescend_unmark
#print axioms addLru_markOk
#print axioms addLru_true_unmarks

end Traph

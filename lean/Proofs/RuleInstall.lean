import Proofs.ChainOps
/-! C06, last clause: installing a creation rule on a populated index has the same effect as re-inserting,
    in the order of the model's own DFS, every page stored beneath the anchor.

    * `State.reinsert`: re-insert a list of pages through `__add_page(lru)` (crawled = False), reports summed
      with `+=`, stopping at the first `KeyError`;
    * `State.rulePrologue`: what `add_webentity_creation_rule` does before the walk (RAM rule, `add_lru` of the
      anchor, rule flag);
    * `State.pagesBelow`: the model's own `dfs_iter(node, anchor)` on the prologue state, page blocks only;
    * `addRuleLoop_eq`: the walk over a trie that grows under it = `reinsert` of the pages pending on its stack;
    * `C06_rule_install`: `addRule = prologue ; reinsert (pagesBelow)`, under a fuel hypothesis that
      `Proofs/RuleFuel.lean` discharges (`rule_fuel_ok`, `C06_rule_install_full`, `C06_rule_install_reachable`);
    * `pagesBelow_mem_iff`, `pagesBelow_nodup`: that list is exactly the pages whose LRU has the anchor as a
      stem-prefix, each once. -/
set_option linter.unusedSimpArgs false
namespace Traph
open State Layout

/-! ### the specification: re-insertion of a list of pages -/

/-- `for lru in lrus: report += self.__add_page(lru)` — the first `KeyError` aborts -/
def State.reinsert : State → List Bytes → Report → State × Except Err Report
  | s, [], rep => (s, .ok rep)
  | s, l :: ls, rep =>
    match s.addPageCore l false with
    | (s1, _, .error e) => (s1, .error e)
    | (s1, _, .ok r1) => State.reinsert s1 ls (rep.add r1)

theorem reinsert_size_le : ∀ (ls : List Bytes) (s : State) (rep : Report), 0 < s.trie.size →
    s.trie.size ≤ (s.reinsert ls rep).1.trie.size
  | [], s, rep, _ => Nat.le_refl _
  | l :: ls, s, rep, h0 => by
    have hle := (le_addPageCore s l false h0).size
    rcases hA : s.addPageCore l false with ⟨s1, n1, res⟩
    rw [hA] at hle
    simp only at hle
    simp only [State.reinsert, hA]
    cases res with
    | error e => exact hle
    | ok r1 => exact Nat.le_trans hle (reinsert_size_le ls s1 _ (by omega))

/-! ### the pending stack of the walk, as ghost trees -/

def stackRoots (ds : List (T × Bytes)) : List (Nat × Bytes) := ds.map (fun p => (p.1.root, p.2))

/-- the pages the pending trees will yield, in the order of the walk -/
def pagesOf (s : State) (ds : List (T × Bytes)) : List Bytes :=
  (((ds.map (fun p => p.1.pre s p.2)).flatten).filter (fun e => (s.cell e.1).flags.page)).map (·.2)

theorem pagesOf_nil (s : State) : pagesOf s [] = [] := rfl

theorem pagesOf_pushIf (s : State) (u : T) (y : Bytes) (ds : List (T × Bytes)) :
    pagesOf s (pushIf u y ds) = pagesOf s ((u, y) :: ds) := by
  cases u with
  | nil => simp [pushIf, pagesOf, T.pre]
  | node a l c r => rfl

theorem pagesOf_cons (s : State) (u : T) (y : Bytes) (ds : List (T × Bytes)) :
    pagesOf s ((u, y) :: ds) =
      ((u.pre s y).filter (fun e => (s.cell e.1).flags.page)).map (·.2) ++ pagesOf s ds := by
  simp [pagesOf, List.filter_append]

theorem pagesOf_cons_node (s : State) (a : Nat) (l c r : T) (lru : Bytes) (rest : List (T × Bytes)) :
    pagesOf s ((T.node a l c r, lru) :: rest) =
      (if (s.cell a).flags.page then [lru ++ s.stemAt a] else []) ++
        pagesOf s (pushIf c (lru ++ s.stemAt a) (pushIf l lru (pushIf r lru rest))) := by
  rw [pagesOf_pushIf, pagesOf_cons s c, pagesOf_pushIf, pagesOf_cons s l, pagesOf_pushIf, pagesOf_cons s r,
    pagesOf_cons]
  simp only [T.pre, List.filter_cons, List.filter_append, List.map_append, List.append_assoc]
  split <;> simp

theorem stackRoots_pushIf {s : State} (u : T) (y : Bytes) (ds : List (T × Bytes)) (hr : Rep s u) :
    (if u.root ≠ 0 then (u.root, y) :: stackRoots ds else stackRoots ds) = stackRoots (pushIf u y ds) :=
  pushIf_roots u y ds hr

theorem ruleNext_stackRoots {s : State} {start a : Nat} {l c r : T} (hr : Rep s (.node a l c r)) (hne : a ≠ start)
    (lru : Bytes) (rest : List (T × Bytes)) :
    ruleNext start a (s.cell a) lru (lru ++ s.stemAt a) (stackRoots rest) =
      stackRoots (pushIf c (lru ++ s.stemAt a) (pushIf l lru (pushIf r lru rest))) := by
  obtain ⟨h1, h2, h3⟩ := hr.cell_eq
  obtain ⟨_, _, rl, rc, rr⟩ := hr
  unfold ruleNext
  simp only [h1, h2, h3]
  rw [if_pos hne, stackRoots_pushIf r lru rest rr, stackRoots_pushIf l lru _ rl, stackRoots_pushIf c _ _ rc]

theorem ruleNext_stackRoots_start {s : State} {a : Nat} {l c r : T} (hr : Rep s (.node a l c r)) (lru : Bytes) :
    ruleNext a a (s.cell a) lru (lru ++ s.stemAt a) [] = stackRoots (pushIf c (lru ++ s.stemAt a) []) := by
  obtain ⟨_, h2, _⟩ := hr.cell_eq
  obtain ⟨_, _, _, rc, _⟩ := hr
  unfold ruleNext
  simp only [h2, ne_eq, not_true_eq_false, if_false]
  exact stackRoots_pushIf c _ [] rc

theorem stackRoots_mapFam (gs : List (Nat × Slot × Nat)) (ds : List (T × Bytes)) : stackRoots (mapFam gs ds) = stackRoots ds := by
  unfold stackRoots mapFam
  rw [List.map_map]
  apply List.map_congr_left
  intro p _
  simp [applyGrafts_root]

/-- carrying the pending trees along a chain that leaves the page marks alone does not change the pages
    they will yield: the grafted blocks are not pages -/
theorem pagesOf_mapFam {s s' : State} {gs : List (Nat × Slot × Nat)} (ch : Chain s s' gs) (ps : PageSame s s') :
    ∀ (ds : List (T × Bytes)), (∀ p ∈ ds, Rep s p.1) → pagesOf s' (mapFam gs ds) = pagesOf s ds
  | [], _ => rfl
  | (u, y) :: ds, hr => by
    have ih := pagesOf_mapFam ch ps ds (fun p hp => hr p (by simp [hp]))
    have hu : Rep s u := hr (u, y) (by simp)
    show pagesOf s' ((applyGrafts gs u, y) :: mapFam gs ds) = _
    rw [pagesOf_cons, pagesOf_cons, ih]
    congr 2
    have hold := ch.pre_old y hu
    have e1 : ((applyGrafts gs u).pre s' y).filter (fun e => (s'.cell e.1).flags.page) =
        (oldOnly s.trie.size ((applyGrafts gs u).pre s' y)).filter (fun e => (s'.cell e.1).flags.page) := by
      unfold oldOnly
      rw [List.filter_filter]
      apply List.filter_congr
      intro e _
      by_cases hlt : e.1 < s.trie.size
      · simp [hlt]
      · have : (s'.cell e.1).flags.page = false := by
          rw [ps e.1, cell_of_size_le s e.1 (Nat.le_of_not_lt hlt)]
        simp [this]
    rw [e1, hold]
    apply List.filter_congr
    intro e _
    rw [ps e.1]

/-! ### one visit -/

theorem reinsert_visit (s : State) (a : Nat) (lru : Bytes) (rep : Report) (P : List Bytes) :
    s.reinsert ((if (s.cell a).flags.page then [lru ++ s.stemAt a] else []) ++ P) rep =
      match ruleVisit s a lru rep with
      | (s1, .error e) => (s1, .error e)
      | (s1, .ok rep1) => s1.reinsert P rep1 := by
  unfold ruleVisit
  by_cases hpg : (s.cell a).flags.page = true
  · rw [if_pos hpg, if_pos hpg]
    simp only [List.singleton_append, State.reinsert]
    rcases s.addPageCore (lru ++ s.stemAt a) false with ⟨s1, n1, res⟩
    cases res <;> rfl
  · rw [if_neg hpg, if_neg hpg]
    rfl

/-- the invariant of the walk: the pending stack is a family of non-empty represented trees of the
    current trie, disjoint from one another and from the visited blocks `V` -/
structure WalkInv (start : Nat) (s : State) (t : T) (V : List Nat) (ds : List (T × Bytes)) : Prop where
  shape : Shape s t
  inv : Inv s t
  size : 1 < s.trie.size
  stack : StackOk s t (stackRoots ds)
  ne : ∀ p ∈ ds, p.1 ≠ .nil
  fam : Fam s V ds
  start : start ∈ V

theorem pushIf_ne_nil {u : T} {y : Bytes} {ds : List (T × Bytes)} (h : ∀ p ∈ ds, p.1 ≠ .nil) :
    ∀ p ∈ pushIf u y ds, p.1 ≠ .nil :=
  pushIf_forall (P := fun t => t ≠ .nil) h id

theorem mapFam_ne_nil {s : State} (gs : List (Nat × Slot × Nat)) {ds : List (T × Bytes)}
    (hr : ∀ p ∈ ds, Rep s p.1) (h : ∀ p ∈ ds, p.1 ≠ .nil) : ∀ p ∈ mapFam gs ds, p.1 ≠ .nil := by
  intro p hp
  obtain ⟨p0, hp0, rfl⟩ := List.mem_map.mp hp
  exact applyGrafts_ne_nil gs (hr p0 hp0) (h p0 hp0)

/-- what a successful visit of block `a` leaves behind, for any family `ds0` pending afterwards -/
theorem visit_ok {start : Nat} {s : State} {t : T} {V : List Nat} {ds0 : List (T × Bytes)} {a : Nat}
    {lru : Bytes} {rep rep1 : Report} {s1 : State}
    (h : Shape s t) (hi : Inv s t) (hsz : 1 < s.trie.size)
    (hent : ∃ p, (p, a) ∈ t.entries s [] ∧ lru = p.dropLast.flatten)
    (hst : StackOk s t (stackRoots ds0)) (hne : ∀ p ∈ ds0, p.1 ≠ .nil) (hf : Fam s V ds0) (hstart : start ∈ V)
    (hR : ruleVisit s a lru rep = (s1, .ok rep1)) :
    ∃ t1 gs, WalkInv start s1 t1 V (mapFam gs ds0) ∧ pagesOf s1 (mapFam gs ds0) = pagesOf s ds0 := by
  by_cases hpg : (s.cell a).flags.page = true
  · obtain ⟨p, hm, rfl⟩ := hent
    obtain ⟨q, e, _⟩ := entries_last_and_ptrs t [] p a h.rep hm
    have hcur : p.dropLast.flatten ++ s.stemAt a = p.flatten := by
      rw [e, List.dropLast_concat]; simp
    have e2 : lruIter (p.dropLast.flatten ++ s.stemAt a) = p := by
      rw [hcur]; exact lruIter_flatten p (hi.wf p a hm)
    have hpne : p ≠ [] := by rw [e]; simp
    obtain ⟨gs, ch, ps⟩ := addPageCore_chain_known h hsz (p.dropLast.flatten ++ s.stemAt a)
      (by rw [e2]; exact hpne) a (by rw [e2]; exact hm) hpg
    obtain ⟨t1, x1, f1⟩ := addPageCore_step h (p.dropLast.flatten ++ s.stemAt a) false
    obtain ⟨_, _, g3⟩ := f1 (by rw [e2]; exact hpne)
    have hi1 := (g3 hi).1.inv
    have hs1 : (s.addPageCore (p.dropLast.flatten ++ s.stemAt a) false).1 = s1 := by
      unfold ruleVisit at hR
      rw [if_pos hpg] at hR
      rcases hA : s.addPageCore (p.dropLast.flatten ++ s.stemAt a) false with ⟨s1', n1, res⟩
      rw [hA] at hR
      cases res with
      | error e => simp at hR
      | ok r1 => simp only [Prod.mk.injEq] at hR; exact hR.1
    rw [hs1] at ch ps x1 hi1
    refine ⟨t1, gs, ⟨x1.shape, hi1, Nat.lt_of_lt_of_le hsz ch.size_le, ?_, mapFam_ne_nil gs hf.rep hne,
      ch.fam hf, hstart⟩, pagesOf_mapFam ch ps ds0 hf.rep⟩
    rw [stackRoots_mapFam]
    exact hst.mono x1
  · have : ruleVisit s a lru rep = (s, .ok rep) := by unfold ruleVisit; rw [if_neg hpg]
    rw [this] at hR
    simp only [Prod.mk.injEq, Except.ok.injEq] at hR
    obtain ⟨rfl, _⟩ := hR
    refine ⟨t, [], ⟨h, hi, hsz, ?_, ?_, ?_, hstart⟩, ?_⟩ <;> simp only [mapFam_nil_grafts] <;> assumption

/-! ### the walk -/

theorem addRuleLoop_nil (start fuel : Nat) (s : State) (rep : Report) :
    addRuleLoop start fuel s [] rep = (s, .ok rep) := by
  cases fuel <;> simp [addRuleLoop]

/-- MAIN (loop): with enough fuel for the blocks still to be met, the walk from a pending stack is the
    re-insertion of the pages the pending trees hold, in pre-order -/
theorem addRuleLoop_eq (start : Nat) : ∀ (fuel : Nat) (s : State) (t : T) (V : List Nat)
    (ds : List (T × Bytes)) (rep : Report), WalkInv start s t V ds →
    (s.reinsert (pagesOf s ds) rep).1.trie.size < fuel + V.length →
    addRuleLoop start fuel s (stackRoots ds) rep = s.reinsert (pagesOf s ds) rep := by
  intro fuel
  induction fuel with
  | zero =>
    intro s t V ds rep w hf
    have h1 := w.fam.bound
    have h2 := reinsert_size_le (pagesOf s ds) s rep (by have := w.size; omega)
    omega
  | succ fuel ih =>
    intro s t V ds rep w hf
    cases ds with
    | nil => rw [show stackRoots [] = [] from rfl, addRuleLoop_nil, pagesOf_nil]; rfl
    | cons d rest =>
      obtain ⟨u, lru⟩ := d
      cases u with
      | nil => exact absurd rfl (w.ne (T.nil, lru) (by simp))
      | node a l c r =>
        have hr : Rep s (.node a l c r) := w.fam.rep (T.node a l c r, lru) (by simp)
        have hcnt := w.fam.cnt a
        have hane : a ≠ start := by
          intro e
          subst e
          have h1 : 0 < V.count a := List.count_pos_iff.mpr w.start
          rw [famCount_cons, count_addrs_node] at hcnt
          simp only [if_true] at hcnt
          omega
        have hVa : a ∉ V := by
          intro hm
          have h1 : 0 < V.count a := List.count_pos_iff.mpr hm
          rw [famCount_cons, count_addrs_node] at hcnt
          simp only [if_true] at hcnt
          omega
        show addRuleLoop start (fuel + 1) s ((a, lru) :: stackRoots rest) rep = _
        rw [addRuleLoop_succ_cons, ruleNext_stackRoots hr hane, pagesOf_cons_node, reinsert_visit]
        rw [pagesOf_cons_node, reinsert_visit] at hf
        -- the family pending after the pop
        have hal : a < s.trie.size := hr.lt_size a (by simp [T.addrs])
        have rl : Rep s l := hr.2.2.1
        have rc : Rep s c := hr.2.2.2.1
        have rr : Rep s r := hr.2.2.2.2
        have hst0 : StackOk s t (stackRoots (pushIf c (lru ++ s.stemAt a) (pushIf l lru (pushIf r lru rest)))) := by
          rw [← ruleNext_stackRoots (start := start) hr hane]
          exact stackOk_next w.shape w.stack
        have hne0 : ∀ p ∈ pushIf c (lru ++ s.stemAt a) (pushIf l lru (pushIf r lru rest)), p.1 ≠ .nil :=
          pushIf_ne_nil (pushIf_ne_nil (pushIf_ne_nil (fun p hp => w.ne p (by simp [hp]))))
        have hf0 : Fam s (a :: V) (pushIf c (lru ++ s.stemAt a) (pushIf l lru (pushIf r lru rest))) := by
          refine ⟨?_, ?_, ?_⟩
          · exact pushIf_forall (P := fun t => Rep s t)
              (pushIf_forall (P := fun t => Rep s t)
                (pushIf_forall (P := fun t => Rep s t) (fun p hp => w.fam.rep p (by simp [hp])) (fun _ => rr))
                (fun _ => rl)) (fun _ => rc)
          · intro x
            have := w.fam.cnt x
            rw [famCount_cons, count_addrs_node] at this
            rw [famCount_pushIf, famCount_pushIf, famCount_pushIf, List.count_cons]
            simp only [beq_iff_eq]
            omega
          · intro x hx
            rcases List.mem_cons.mp hx with rfl | hx
            · exact hal
            · exact w.fam.vlt x hx
        rcases hR : ruleVisit s a lru rep with ⟨s1, res⟩
        rw [hR] at hf
        cases res with
        | error e => rfl
        | ok rep1 =>
          simp only at hf ⊢
          obtain ⟨t1, gs, w1, hp1⟩ := visit_ok (start := start) w.shape w.inv w.size (w.stack a lru (by simp [stackRoots]))
            hst0 hne0 hf0 (List.mem_cons_of_mem _ w.start) hR
          rw [← stackRoots_mapFam gs, ← hp1]
          rw [← hp1] at hf
          exact ih s1 t1 (a :: V) _ rep1 w1 (by rw [List.length_cons]; omega)

/-! ### the request -/

/-- what `add_webentity_creation_rule` does before the walk: the rule goes to the RAM dict, the anchor is
    inserted with `add_lru` and its node flagged; returns the state and the anchor's block -/
def State.rulePrologue (s : State) (anchor : Bytes) (r : Rule) : State × Nat :=
  ((State.addLru { s with rules := dictSet s.rules anchor r } (lruIter anchor) false).1.modCell
      (State.addLru { s with rules := dictSet s.rules anchor r } (lruIter anchor) false).2.1
      (fun c => { c with flags := { c.flags with rule := true } }),
   (State.addLru { s with rules := dictSet s.rules anchor r } (lruIter anchor) false).2.1)

theorem addRule_true_eq (s : State) (anchor : Bytes) (r : Rule) :
    s.addRule anchor r true =
      addRuleLoop (s.rulePrologue anchor r).2
        (8 * ((s.rulePrologue anchor r).1.trie.size + 2) * ((s.rulePrologue anchor r).1.trie.size + 2))
        (s.rulePrologue anchor r).1 [((s.rulePrologue anchor r).2, lruDirname anchor)] {} := rfl

/-- `write_in_trie=False` (not reachable through `Op.addRule`, which passes `true`): RAM only, no walk -/
theorem addRule_false_eq (s : State) (anchor : Bytes) (r : Rule) :
    s.addRule anchor r false = ({ s with rules := dictSet s.rules anchor r }, .ok {}) := rfl

/-- the prologue keeps shape and page set; the anchor's node is the returned block -/
theorem rulePrologue_keeps {s : State} {t : T} (h : Shape s t) (anchor : Bytes) (r : Rule) :
    ∃ t2, Keeps s t (s.rulePrologue anchor r).1 t2 ∧
      (lruIter anchor ≠ [] →
        (lruIter anchor, (s.rulePrologue anchor r).2) ∈ t2.entries (s.rulePrologue anchor r).1 []) := by
  have k0 : Keeps s t { s with rules := dictSet s.rules anchor r } t := Keeps.of_trie_eq h rfl
  obtain ⟨t1, k1, hent⟩ := keeps_addLruIter k0.shape anchor false
  have k2 := keeps_setRule k1.shape
    (State.addLru { s with rules := dictSet s.rules anchor r } (lruIter anchor) false).2.1 true
  exact ⟨t1, k0.trans (k1.trans k2), fun hne => k2.ext.keep _ _ (hent hne)⟩

/-- the model's own `dfs_iter(node, anchor)` from block `n`, restricted to page blocks: the pages beneath
    the anchor, in the order of the walk -/
def State.pagesBelow (s : State) (n : Nat) (anchor : Bytes) : List Bytes :=
  ((s.dfsIter (some (n, anchor)) false).filter (fun e => (s.cell e.1).flags.page)).map (·.2)

/-- the subtree hanging at a stored path, and the walk from it -/
theorem pagesBelow_eq {s : State} {t : T} (h : Shape s t) {anchor : Bytes} {n : Nat}
    (hP : (lruIter anchor, n) ∈ t.entries s []) :
    ∃ l c r, Rep s (.node n l c r) ∧ (T.node n l c r).addrs.Nodup ∧
      s.pagesBelow n anchor =
        (if (s.cell n).flags.page then [lruDirname anchor ++ s.stemAt n] else []) ++
          pagesOf s (pushIf c (lruDirname anchor ++ s.stemAt n) []) ∧
      (∀ q b, (q, b) ∈ c.entries s (lruIter anchor) ↔
        ((q, b) ∈ t.entries s [] ∧ ∃ x rest, q = lruIter anchor ++ x :: rest)) := by
  obtain ⟨l, c, r, lo', hi', h1, _, h3, h4, hiff⟩ :=
    subtree_at_ord (lruIter anchor) t none none [] n h.rep h.ord h.nodup (by simpa using hP)
  simp only [List.nil_append] at hiff
  have hsz : (T.node n l c r).size ≤ s.trie.size := Nat.le_trans h4 h.size_le
  refine ⟨l, c, r, h1, h3, ?_, hiff⟩
  unfold State.pagesBelow
  rw [dfsIter_some h1 h3 hsz anchor, pagesOf_pushIf, pagesOf_cons, pagesOf_nil, List.append_nil]
  simp only [List.filter_cons]
  split <;> simp

/-- MAIN: `add_webentity_creation_rule(anchor, rule)` on a populated index = its prologue, then the
    re-insertion (through `__add_page(lru)`, reports summed) of every page stored beneath the anchor, in the
    order of the model's DFS. Hypothesis `hfuel` says that the trie at the end of those re-insertions is
    smaller than the fuel the model gives its walk (see `Proofs/RuleFuel.lean`). -/
theorem C06_rule_install {s : State} {t : T} (h : Shape s t) (hi : Inv s t) (anchor : Bytes) (r : Rule)
    (hne : lruIter anchor ≠ [])
    (hfuel : ((s.rulePrologue anchor r).1.reinsert
        ((s.rulePrologue anchor r).1.pagesBelow (s.rulePrologue anchor r).2 anchor) {}).1.trie.size <
      8 * ((s.rulePrologue anchor r).1.trie.size + 2) * ((s.rulePrologue anchor r).1.trie.size + 2)) :
    s.addRule anchor r true =
      (s.rulePrologue anchor r).1.reinsert
        ((s.rulePrologue anchor r).1.pagesBelow (s.rulePrologue anchor r).2 anchor) {} := by
  obtain ⟨t2, k2, hent⟩ := rulePrologue_keeps h anchor r
  have hP := hent hne
  have hi2 : Inv (s.rulePrologue anchor r).1 t2 := (k2.adds hi).inv
  rw [addRule_true_eq]
  generalize (s.rulePrologue anchor r).1 = s2 at *
  generalize (s.rulePrologue anchor r).2 = n at *
  have h2 := k2.shape
  obtain ⟨l, c, r', hr, hnd, hpb, _⟩ := pagesBelow_eq h2 hP
  rw [hpb] at hfuel ⊢
  have hn : n < s2.trie.size := hr.lt_size n (by simp [T.addrs])
  have hsz : 1 < s2.trie.size := by have := hr.1; omega
  obtain ⟨F, hF⟩ : ∃ F, 8 * (s2.trie.size + 2) * (s2.trie.size + 2) = F + 1 :=
    ⟨8 * (s2.trie.size + 2) * (s2.trie.size + 2) - 1, by
      have : 0 < 8 * (s2.trie.size + 2) * (s2.trie.size + 2) := Nat.mul_pos (by omega) (by omega)
      omega⟩
  rw [hF] at hfuel ⊢
  rw [addRuleLoop_succ_cons, ruleNext_stackRoots_start hr, reinsert_visit]
  rw [reinsert_visit] at hfuel
  have hst1 : StackOk s2 t2 [(n, lruDirname anchor)] := by
    intro b lru hm
    simp only [List.mem_singleton, Prod.mk.injEq] at hm
    obtain ⟨rfl, rfl⟩ := hm
    exact ⟨lruIter anchor, hP, rfl⟩
  have hst0 : StackOk s2 t2 (stackRoots (pushIf c (lruDirname anchor ++ s2.stemAt n) [])) := by
    rw [← ruleNext_stackRoots_start hr]
    exact stackOk_next h2 hst1
  have hne0 : ∀ p ∈ pushIf c (lruDirname anchor ++ s2.stemAt n) ([] : List (T × Bytes)), p.1 ≠ .nil :=
    pushIf_ne_nil (fun p hp => by simp at hp)
  have hf0 : Fam s2 [n] (pushIf c (lruDirname anchor ++ s2.stemAt n) []) := by
    refine ⟨pushIf_forall (P := fun t => Rep s2 t) (fun p hp => by simp at hp) (fun _ => hr.2.2.2.1), ?_, ?_⟩
    · intro x
      have := List.nodup_iff_count.mp hnd x
      rw [count_addrs_node] at this
      rw [famCount_pushIf, famCount_nil, List.count_cons, List.count_nil]
      simp only [beq_iff_eq]
      omega
    · intro x hx
      simp only [List.mem_singleton] at hx
      subst hx; exact hn
  rcases hR : ruleVisit s2 n (lruDirname anchor) {} with ⟨s1, res⟩
  rw [hR] at hfuel
  cases res with
  | error e => rfl
  | ok rep1 =>
    simp only at hfuel ⊢
    obtain ⟨t1, gs, w1, hp1⟩ := visit_ok (start := n) h2 hi2 hsz (hst1 n _ (by simp)) hst0 hne0 hf0
      (by simp) hR
    rw [← stackRoots_mapFam gs, ← hp1]
    rw [← hp1] at hfuel
    exact addRuleLoop_eq n F s1 t1 [n] _ rep1 w1 (by simpa using hfuel)

/-! ### the list of pages beneath the anchor -/

/-- the walk of `dfs_iter(node, anchor)` from the node of a stored path meets exactly the stored paths that
    have it as a stem-prefix (itself included), with their flattened LRUs -/
theorem dfsIter_some_mem_iff {s : State} {t : T} (h : Shape s t) {anchor : Bytes} {n : Nat}
    (hP : (lruIter anchor, n) ∈ t.entries s []) (b : Nat) (lru : Bytes) :
    (b, lru) ∈ s.dfsIter (some (n, anchor)) false ↔
      ∃ X, (X, b) ∈ t.entries s [] ∧ lruIter anchor <+: X ∧ lru = X.flatten := by
  obtain ⟨l, c, r, lo', hi', h1, _, h3, h4, hiff⟩ :=
    subtree_at_ord (lruIter anchor) t none none [] n h.rep h.ord h.nodup (by simpa using hP)
  simp only [List.nil_append] at hiff
  have hsz : (T.node n l c r).size ≤ s.trie.size := Nat.le_trans h4 h.size_le
  rw [dfsIter_some h1 h3 hsz anchor, pa_dirname_stem h hP, List.mem_cons, pre_mem_iff c (lruIter anchor)]
  constructor
  · rintro (e | ⟨p, hp, rfl⟩)
    · obtain ⟨rfl, rfl⟩ := Prod.mk.inj e
      exact ⟨lruIter anchor, hP, List.prefix_refl _, rfl⟩
    · obtain ⟨hm, x, rest, rfl⟩ := (hiff p b).mp hp
      exact ⟨_, hm, List.prefix_append _ _, rfl⟩
  · rintro ⟨X, hX, ⟨q, rfl⟩, rfl⟩
    cases q with
    | nil =>
      rw [List.append_nil] at hX ⊢
      have := entries_path_injective h.ord h.nodup hX hP
      subst this
      exact Or.inl rfl
    | cons x rest =>
      exact Or.inr ⟨_, (hiff _ b).mpr ⟨hX, x, rest, rfl⟩, rfl⟩

/-- (1) the list the installation re-inserts is exactly the set of pages whose LRU has the anchor as a
    stem-prefix (the anchor itself included when it is a page) -/
theorem pagesBelow_mem_iff {s : State} {t : T} (h : Shape s t) {anchor : Bytes} {n : Nat}
    (hP : (lruIter anchor, n) ∈ t.entries s []) (lru : Bytes) :
    lru ∈ s.pagesBelow n anchor ↔ ∃ p, IsPage s t p ∧ lruIter anchor <+: p ∧ lru = p.flatten := by
  unfold State.pagesBelow
  simp only [List.mem_map, List.mem_filter]
  constructor
  · rintro ⟨⟨b, l⟩, ⟨hm, hp⟩, rfl⟩
    obtain ⟨X, hX, hpre, e⟩ := (dfsIter_some_mem_iff h hP b l).mp hm
    exact ⟨X, ⟨b, hX, hp⟩, hpre, e⟩
  · rintro ⟨p, ⟨b, hm, hp⟩, hpre, rfl⟩
    exact ⟨(b, p.flatten), ⟨(dfsIter_some_mem_iff h hP b _).mpr ⟨p, hm, hpre, rfl⟩, hp⟩, rfl⟩

theorem dfsIter_some_addrs_nodup {s : State} {t : T} (h : Shape s t) {anchor : Bytes} {n : Nat}
    (hP : (lruIter anchor, n) ∈ t.entries s []) : ((s.dfsIter (some (n, anchor)) false).map (·.1)).Nodup := by
  obtain ⟨l, c, r, lo', hi', h1, _, h3, h4, _⟩ :=
    subtree_at_ord (lruIter anchor) t none none [] n h.rep h.ord h.nodup (by simpa using hP)
  have hsz : (T.node n l c r).size ≤ s.trie.size := Nat.le_trans h4 h.size_le
  rw [dfsIter_some h1 h3 hsz anchor, List.map_cons]
  have hperm := pre_addrs_perm (s := s) c (lruDirname anchor ++ s.stemAt n)
  have hnd : (n :: c.addrs).Nodup := by
    refine List.Nodup.sublist ?_ h3
    simp only [T.addrs]
    exact ((List.sublist_append_right _ _).trans (List.sublist_append_left _ _)).cons_cons _
  exact (hperm.cons n).nodup_iff.mpr hnd

/-- (1) … each exactly once -/
theorem pagesBelow_nodup {s : State} {t : T} (h : Shape s t) (hw : WfStems s t) {anchor : Bytes} {n : Nat}
    (hP : (lruIter anchor, n) ∈ t.entries s []) : (s.pagesBelow n anchor).Nodup := by
  unfold State.pagesBelow
  have h1 := dfsIter_some_addrs_nodup h hP
  unfold List.Nodup at h1 ⊢
  rw [List.pairwise_map] at h1 ⊢
  refine List.Pairwise.imp_of_mem ?_ (h1.filter _)
  intro x y hx hy hne e
  apply hne
  obtain ⟨hx, _⟩ := List.mem_filter.mp hx
  obtain ⟨hy, _⟩ := List.mem_filter.mp hy
  obtain ⟨X, hX, _, ex⟩ := (dfsIter_some_mem_iff h hP x.1 x.2).mp hx
  obtain ⟨Y, hY, _, ey⟩ := (dfsIter_some_mem_iff h hP y.1 y.2).mp hy
  have e' : x.2 = y.2 := e
  have hXY : X = Y := by
    rw [← lruIter_flatten X (hw X _ hX), ← lruIter_flatten Y (hw Y _ hY), ← ex, ← ey, e']
  subst hXY
  exact entries_path_injective h.ord h.nodup hX hY

/-- (1) in terms of the index BEFORE the request: the re-inserted list is exactly the pages of the index that
    lie beneath the anchor -/
theorem pagesBelow_prologue_iff {s : State} {t : T} (h : Shape s t) (hi : Inv s t) (anchor : Bytes) (r : Rule)
    (hne : lruIter anchor ≠ []) (lru : Bytes) :
    lru ∈ (s.rulePrologue anchor r).1.pagesBelow (s.rulePrologue anchor r).2 anchor ↔
      ∃ p, IsPage s t p ∧ lruIter anchor <+: p ∧ lru = p.flatten := by
  obtain ⟨t2, k2, hent⟩ := rulePrologue_keeps h anchor r
  rw [pagesBelow_mem_iff k2.shape (hent hne)]
  constructor
  · rintro ⟨p, hp, hpre, e⟩; exact ⟨p, (k2.page hi p).mp hp, hpre, e⟩
  · rintro ⟨p, hp, hpre, e⟩; exact ⟨p, (k2.page hi p).mpr hp, hpre, e⟩

theorem pagesBelow_prologue_nodup {s : State} {t : T} (h : Shape s t) (hi : Inv s t) (anchor : Bytes) (r : Rule)
    (hne : lruIter anchor ≠ []) :
    ((s.rulePrologue anchor r).1.pagesBelow (s.rulePrologue anchor r).2 anchor).Nodup := by
  obtain ⟨t2, k2, hent⟩ := rulePrologue_keeps h anchor r
  exact pagesBelow_nodup k2.shape (k2.adds hi).inv.wf (hent hne)

end Traph

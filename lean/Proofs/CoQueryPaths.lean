import Proofs.CoQuery
/-! C16 — the pointer paths `HPath` of the completeness theorem in terms of the finite map denoted by the
    tree: every entry stored strictly below the entry of a prefix node is reached from the prefix node by a
    pointer path whose ancestors are the prefix node itself and the nodes of the intermediate LRUs. -/
namespace Traph
open State Layout

/-- walking sideways inside one sibling tree, from its root to any of its siblings -/
theorem hpath_sib {s : State} {start : Nat} : ∀ (u : T), Rep s u → (∀ x ∈ u.sibs, x ≠ start) →
    ∀ a ∈ u.sibs, ∀ {lru : Bytes} {b : Nat} {cur : Bytes} {anc : List Nat},
      HPath s start a lru b cur anc → HPath s start u.root lru b cur anc
  | .nil, _, _, a, ha => by simp [T.sibs] at ha
  | .node a0 l c r, hr, hns, a, ha => by
    intro hp
    obtain ⟨e1, _, e3⟩ := Rep.cell_eq hr
    obtain ⟨_, _, rl, _, rr⟩ := hr
    have h0 : a0 ≠ start := hns a0 (by simp [T.sibs])
    simp only [T.sibs, List.mem_append, List.mem_cons] at ha
    rw [T.root_node]
    rcases ha with ha | rfl | ha
    · have hl : l ≠ .nil := by rintro rfl; simp [T.sibs] at ha
      have hroot := Rep.root_ne_zero rl hl
      have ih := hpath_sib l rl (fun x hx => hns x (by simp [T.sibs, hx])) a ha hp
      rw [← e1] at ih hroot
      exact HPath.left h0 hroot ih
    · exact hp
    · have hl : r ≠ .nil := by rintro rfl; simp [T.sibs] at ha
      have hroot := Rep.root_ne_zero rr hl
      have ih := hpath_sib r rr (fun x hx => hns x (by simp [T.sibs, hx])) a ha hp
      rw [← e3] at ih hroot
      exact HPath.right h0 hroot ih

theorem co_sib_entry {s : State} (u : T) (pre : LRU) (hnd : u.addrs.Nodup) {a : Nat} (ha : a ∈ u.sibs) :
    (pre ++ [s.stemAt a], a) ∈ u.entries s pre :=
  (mem_entries_iff u pre _ a hnd).mpr ⟨a, ha, Or.inl ⟨rfl, rfl⟩⟩

theorem co_entries_ne_nil {s : State} {u : T} {pre p : LRU} {b : Nat} (h : (p, b) ∈ u.entries s pre) : u ≠ .nil := by
  rintro rfl; simp [T.entries] at h

/-- below a sibling tree that does not contain `start`: every entry is reached from the root of the tree;
    the ancestors are the nodes of the proper prefixes of the path -/
theorem hpath_below {s : State} {start : Nat} : ∀ (p : LRU) (u : T) (pre : LRU) (b : Nat), Rep s u →
    u.addrs.Nodup → start ∉ u.addrs → (pre ++ p, b) ∈ u.entries s pre →
    ∃ anc, HPath s start u.root pre.flatten b (pre ++ p).flatten anc ∧
      ∀ m ∈ anc, ∃ k, 0 < k ∧ k < p.length ∧ (pre ++ p.take k, m) ∈ u.entries s pre
  | [], u, pre, b, _, _, _, h => by
    obtain ⟨x, rest, e⟩ := entries_prefix _ _ _ _ h
    have := congrArg List.length e
    simp at this
  | y :: p', u, pre, b, hr, hnd, hns, h => by
    obtain ⟨a, ha, hcase⟩ := entries_head_sib hnd h
    have hsibs : ∀ x ∈ u.sibs, x ≠ start := fun x hx e => hns (e ▸ T.sibs_subset_addrs u x hx)
    rcases hcase with ⟨e, rfl⟩ | ⟨x, rest, e, hch⟩
    · refine ⟨[], hpath_sib u hr hsibs b ha ?_, by simp⟩
      have : (pre ++ y :: p').flatten = pre.flatten ++ s.stemAt b := by rw [e]; simp
      rw [this]; exact HPath.here b _
    · obtain ⟨hrc, cell, hcell, hch'⟩ := Rep.childAt u a hr ha
      have hcellA : s.cell a = cell := by simp [State.cell, hcell]
      simp only [List.cons.injEq] at e
      obtain ⟨rfl, rfl⟩ := e
      obtain ⟨anc, hp, hanc⟩ := hpath_below (x :: rest) (u.childAt a) (pre ++ [s.stemAt a]) b hrc
        (T.childAt_nodup u a hnd ha) (fun hx => hns (T.childAt_addrs u a _ hx)) hch
      have hne : (s.cell a).child ≠ 0 := by
        rw [hcellA, hch']; exact Rep.root_ne_zero hrc (co_entries_ne_nil hch)
      have hp' : HPath s start (s.cell a).child (pre.flatten ++ s.stemAt a) b
          (pre ++ s.stemAt a :: x :: rest).flatten anc := by
        rw [hcellA, hch']
        have e1 : (pre ++ [s.stemAt a]).flatten = pre.flatten ++ s.stemAt a := by simp
        have e2 : pre ++ [s.stemAt a] ++ x :: rest = pre ++ s.stemAt a :: x :: rest := by simp
        rw [e1, e2] at hp
        exact hp
      refine ⟨a :: anc, hpath_sib u hr hsibs a ha (HPath.child hne hp'), ?_⟩
      intro m hm
      rcases List.mem_cons.mp hm with rfl | hm
      · exact ⟨1, by omega, by simp, by simpa using co_sib_entry u pre hnd ha⟩
      · obtain ⟨k, hk0, hk1, hent⟩ := hanc m hm
        refine ⟨k + 1, by omega, by simp at hk1 ⊢; omega, ?_⟩
        have := T.childAt_entries (s := s) u pre a ha hent
        simpa [List.take_succ_cons] using this

theorem co_sib_not_mem_childAt : ∀ (u : T) (a : Nat), u.addrs.Nodup → a ∈ u.sibs → a ∉ (u.childAt a).addrs
  | .nil, a, _, h => by simp [T.sibs] at h
  | .node b l c r, a, hnd, h => by
    have hn := T.nodup_node hnd
    simp only [T.sibs, List.mem_append, List.mem_cons] at h
    rcases h with h | rfl | h
    · rw [T.childAt_node_left hnd h]; exact co_sib_not_mem_childAt l a hn.2.2.2.1 h
    · rw [T.childAt_node_self]; exact hn.2.1
    · rw [T.childAt_node_right hnd h]; exact co_sib_not_mem_childAt r a hn.2.2.2.2.2.1 h

/-- two siblings with the same stem are the same block -/
theorem co_sib_stem_inj {s : State} {u : T} {lo hi : Option Stem} (ho : OrdT s u lo hi) {a a' : Nat}
    (ha : a ∈ u.sibs) (ha' : a' ∈ u.sibs) (e : s.stemAt a = s.stemAt a') : a = a' := by
  have h1 := T.find_found u lo hi ho a ha rfl
  have h2 := T.find_found u lo hi ho a' ha' e.symm
  rw [h1] at h2
  exact Find.found.inj h2

/-- from the node of `pre ++ p1` to any entry strictly below it -/
theorem hpath_from_aux {s : State} {root b : Nat} {r : LRU} (hr0 : r ≠ []) : ∀ (n : Nat) (p1 : LRU),
    p1.length ≤ n → ∀ (u : T) (pre : LRU)
    (lo hi : Option Stem), Rep s u → u.addrs.Nodup → OrdT s u lo hi →
    (pre ++ p1, root) ∈ u.entries s pre → (pre ++ p1 ++ r, b) ∈ u.entries s pre →
    ∃ anc, HPath s root root (pre ++ p1).dropLast.flatten b (pre ++ p1 ++ r).flatten anc ∧
      ∀ m ∈ anc, m = root ∨ ∃ k, 0 < k ∧ k < r.length ∧ (pre ++ p1 ++ r.take k, m) ∈ u.entries s pre
  | _, [], _, u, pre, lo, hi, _, _, _, h, _ => by
    obtain ⟨x, rest, e⟩ := entries_prefix _ _ _ _ h
    have := congrArg List.length e
    simp at this
  | 0, y :: p1', hlen, _, _, _, _, _, _, _, _, _ => by simp at hlen
  | n + 1, y :: p1', hlen, u, pre, lo, hi, hr, hnd, ho, h1, h2 => by
    obtain ⟨a, ha, hcase⟩ := entries_head_sib hnd h1
    have h2' : (pre ++ (y :: p1' ++ r), b) ∈ u.entries s pre := by rw [← List.append_assoc]; exact h2
    obtain ⟨a', ha', hcase'⟩ := entries_head_sib hnd h2'
    obtain ⟨x0, rest0, er⟩ : ∃ x0 rest0, r = x0 :: rest0 := by
      cases r with
      | nil => exact absurd rfl hr0
      | cons x0 rest0 => exact ⟨x0, rest0, rfl⟩
    -- the second entry lies in the child tree of a sibling with the same first stem
    have hsame : y = s.stemAt a' ∧ ∃ x' rest', y :: p1' ++ r = s.stemAt a' :: x' :: rest' ∧
        (pre ++ [s.stemAt a'] ++ x' :: rest', b) ∈ (u.childAt a').entries s (pre ++ [s.stemAt a']) := by
      rcases hcase' with ⟨e, _⟩ | ⟨x', rest', e, hch⟩
      · have := congrArg List.length e
        rw [er] at this
        simp at this
      · have e0 := e
        simp only [List.cons_append, List.cons.injEq] at e
        exact ⟨e.1, x', rest', e0, hch⟩
    obtain ⟨ey', x', rest', e2, hch2⟩ := hsame
    have ey : y = s.stemAt a := by
      rcases hcase with ⟨e, _⟩ | ⟨_, _, e, _⟩
      · simp only [List.cons.injEq] at e; exact e.1
      · simp only [List.cons.injEq] at e; exact e.1
    have haa : a = a' := co_sib_stem_inj ho ha ha' (ey.symm.trans ey')
    subst haa
    subst ey
    obtain ⟨hrc, cell, hcell, hch'⟩ := Rep.childAt u a hr ha
    have hcellA : s.cell a = cell := by simp [State.cell, hcell]
    have hnd' := T.childAt_nodup u a hnd ha
    have etail : p1' ++ r = x' :: rest' := by
      simp only [List.cons_append, List.cons.injEq, true_and] at e2
      exact e2
    rcases hcase with ⟨e, rfl⟩ | ⟨x, rest, e, hch1⟩
    · -- the prefix node is the sibling itself
      simp only [List.cons.injEq, true_and] at e
      subst e
      simp only [List.nil_append] at etail
      subst etail
      obtain ⟨anc, hp, hanc⟩ := hpath_below (start := root) (x' :: rest') (u.childAt root) (pre ++ [s.stemAt root]) b hrc
        hnd' (co_sib_not_mem_childAt u root hnd ha) hch2
      have hne : (s.cell root).child ≠ 0 := by
        rw [hcellA, hch']; exact Rep.root_ne_zero hrc (co_entries_ne_nil hch2)
      have e1 : (pre ++ [s.stemAt root]).dropLast = pre := by rw [List.dropLast_concat]
      refine ⟨root :: anc, ?_, ?_⟩
      · rw [e1]
        refine HPath.child hne ?_
        rw [hcellA, hch']
        have e3 : (pre ++ [s.stemAt root]).flatten = pre.flatten ++ s.stemAt root := by simp
        rw [e3] at hp
        exact hp
      · intro m hm
        rcases List.mem_cons.mp hm with rfl | hm
        · exact Or.inl rfl
        · obtain ⟨k, hk0, hk1, hent⟩ := hanc m hm
          exact Or.inr ⟨k, hk0, hk1, T.childAt_entries (s := s) u pre root ha hent⟩
    · -- the prefix node lies deeper: recurse into the child tree of the sibling
      simp only [List.cons.injEq, true_and] at e
      subst e
      have h1' : (pre ++ [s.stemAt a] ++ x :: rest, root) ∈ (u.childAt a).entries s (pre ++ [s.stemAt a]) := hch1
      have h2'' : (pre ++ [s.stemAt a] ++ x :: rest ++ r, b) ∈ (u.childAt a).entries s (pre ++ [s.stemAt a]) := by
        have : pre ++ [s.stemAt a] ++ x :: rest ++ r = pre ++ [s.stemAt a] ++ x' :: rest' := by
          rw [List.append_assoc (pre ++ [s.stemAt a]), etail]
        rw [this]; exact hch2
      obtain ⟨anc, hp, hanc⟩ := hpath_from_aux hr0 n (x :: rest) (by simp at hlen ⊢; omega) (u.childAt a)
        (pre ++ [s.stemAt a]) none none hrc hnd' (OrdT.childAt u lo hi a ho ha) h1' h2''
      have e3 : pre ++ [s.stemAt a] ++ x :: rest = pre ++ s.stemAt a :: x :: rest := by simp
      rw [e3] at hp hanc
      refine ⟨anc, hp, fun m hm => ?_⟩
      rcases hanc m hm with hm | ⟨k, hk0, hk1, hent⟩
      · exact Or.inl hm
      · refine Or.inr ⟨k, hk0, hk1, ?_⟩
        have := T.childAt_entries (s := s) u pre a ha (x := (pre ++ s.stemAt a :: x :: rest ++ List.take k r, m))
          (by rw [← e3]; rw [← e3] at hent; exact hent)
        exact this

/-- **the bridge**: in an index with the shape invariant, an entry `(q ++ r, b)` stored strictly below the
    entry `(q, root)` of a prefix is reached from `root` by a pointer path; the ancestors on the path are
    `root` and the nodes of the intermediate LRUs `q ++ r.take k`, `0 < k < |r|` -/
theorem hpath_of_entries {s : State} {t : T} (h : Shape s t) {q r : LRU} {root b : Nat}
    (hq : (q, root) ∈ t.entries s []) (hb : (q ++ r, b) ∈ t.entries s []) (hr : r ≠ []) :
    ∃ anc, HPath s root root q.dropLast.flatten b (q ++ r).flatten anc ∧
      ∀ m ∈ anc, m = root ∨ ∃ k, 0 < k ∧ k < r.length ∧ (q ++ r.take k, m) ∈ t.entries s [] := by
  have := hpath_from_aux (s := s) (root := root) (b := b) hr q.length q (Nat.le_refl _) t [] none none h.rep h.nodup h.ord
    (by simpa using hq) (by simpa using hb)
  simpa using this

#print axioms hpath_of_entries

end Traph

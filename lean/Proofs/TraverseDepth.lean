import Proofs.PagesApi
/-! The depth-limited walk `webentity_dfs_iter(node, lru, max_depth = d)`.

    * `T.wePreD`: structural counterpart of `weDfsGo start (some d)`; `weDfsGo_eq_wePreD`.
    * `wePreD_below_mem_iff`: membership below the start node: no webentity on the way *and* the level of
      the node is at most `d` (the start node is level 0; the code tests `level >= max_depth` *before*
      pushing the child, so a node of level `j` is pushed iff `j - 1 < d`).
    * `weDfs_depth_mem_iff` (ghost subtree phrasing) and `weDfs_depth_walk_iff` (finite-map phrasing, the
      analogue of `weDfs_walk_iff`): the extra conjunct is `X.length ≤ (lruIter p).length + d`.
    * `weDfs_opt_walk_iff`: both cases (`none` / `some d`) in one statement. -/
namespace Traph
open State

/-- structural counterpart of `weDfsGo start (some d)`: as `T.wePre`, but the child tree of a node of
    level `lvl` is visited only when `lvl < d` -/
def T.wePreD (s : State) (start d : Nat) : T → Bytes → Nat → List (Nat × Bytes)
  | .nil, _, _ => []
  | .node a l c r, lru, lvl =>
    (if a = start ∨ (s.cell a).we = 0 then
        (a, lru ++ s.stemAt a) ::
          (if lvl ≥ d then [] else c.wePreD s start d (lru ++ s.stemAt a) (lvl + 1)) else [])
    ++ (if a = start then [] else l.wePreD s start d lru lvl ++ r.wePreD s start d lru lvl)

theorem weDfsGo_eq_wePreD {s : State} (start d : Nat) :
    ∀ (fuel : Nat) (ts : List (T × Bytes × Nat)), StackRep s ts → stackSize ts < fuel →
      s.weDfsGo start (some d) fuel (ts.map (fun p => (p.1.root, p.2)))
        = (ts.map (fun p => p.1.wePreD s start d p.2.1 p.2.2)).flatten := by
  intro fuel
  induction fuel with
  | zero => intro ts _ hf; omega
  | succ f ih =>
    intro ts hs hf
    cases ts with
    | nil => simp [weDfsGo]
    | cons p ts =>
      obtain ⟨t, lru, lvl⟩ := p
      obtain ⟨hr, hn⟩ := hs (t, lru, lvl) (by simp)
      cases t with
      | nil => exact absurd rfl hn
      | node a l c r =>
        obtain ⟨h1, h2, h3⟩ := hr.cell_eq
        obtain ⟨ha, _, rl, rc, rr⟩ := hr
        have hts : StackRep s ts := hs.tail
        simp only [stackSize_cons, T.size] at hf
        simp only [List.map_cons, T.root_node, weDfsGo, h1, h2, h3, List.flatten_cons, T.wePreD]
        have hsib : (if a ≠ start then
              (if l.root ≠ 0 then (l.root, lru, lvl) ::
                  (if r.root ≠ 0 then (r.root, lru, lvl) :: ts.map (fun p => (p.1.root, p.2))
                   else ts.map (fun p => (p.1.root, p.2)))
               else (if r.root ≠ 0 then (r.root, lru, lvl) :: ts.map (fun p => (p.1.root, p.2))
                   else ts.map (fun p => (p.1.root, p.2))))
              else ts.map (fun p => (p.1.root, p.2)))
            = (if a = start then ts else pushIf l (lru, lvl) (pushIf r (lru, lvl) ts)).map
                (fun p => (p.1.root, p.2)) := by
          by_cases e : a = start
          · simp [e]
          · rw [if_pos e, if_neg e, pushIf_roots r (lru, lvl) ts rr, pushIf_roots l (lru, lvl) _ rl]
        rw [hsib]
        generalize hst : (if a = start then ts else pushIf l (lru, lvl) (pushIf r (lru, lvl) ts)) = st
        have hst_rep : StackRep s st := by
          subst hst; split
          · exact hts
          · exact (hts.pushIf rr).pushIf rl
        have hst_sz : stackSize st ≤ l.size + r.size + stackSize ts := by
          subst hst; split
          · omega
          · rw [pushIf_size, pushIf_size]; omega
        have hst_fl : (st.map (fun p => p.1.wePreD s start d p.2.1 p.2.2)).flatten
            = (if a = start then [] else l.wePreD s start d lru lvl ++ r.wePreD s start d lru lvl)
              ++ (ts.map (fun p => p.1.wePreD s start d p.2.1 p.2.2)).flatten := by
          subst hst; split
          · simp
          · rw [pushIf_flatten l _ _ (fun t (x : Bytes × Nat) => t.wePreD s start d x.1 x.2) (fun _ => rfl),
                pushIf_flatten r _ _ (fun t (x : Bytes × Nat) => t.wePreD s start d x.1 x.2) (fun _ => rfl)]
            simp
        by_cases hrel : a = start ∨ (s.cell a).we = 0
        · have hb : (decide (a = start) || decide ((s.cell a).we = 0)) = true := by simpa using hrel
          simp only [hb, Bool.true_and, if_true, if_pos hrel, decide_eq_true_eq]
          by_cases hlv : lvl ≥ d
          · simp only [if_pos hlv, ite_self]
            rw [ih _ hst_rep (by omega), hst_fl]
            simp
          · simp only [if_neg hlv]
            rw [pushIf_roots c (lru ++ s.stemAt a, lvl + 1) st rc]
            rw [ih _ (hst_rep.pushIf rc) (by rw [pushIf_size]; omega)]
            rw [pushIf_flatten c _ _ (fun t (x : Bytes × Nat) => t.wePreD s start d x.1 x.2) (fun _ => rfl),
              hst_fl]
            simp
        · have hb : (decide (a = start) || decide ((s.cell a).we = 0)) = false := by
            simpa using hrel
          simp only [hb, Bool.false_and, Bool.false_eq_true, if_false, if_neg hrel]
          rw [ih _ hst_rep (by omega), hst_fl]
          simp

theorem T.wePreD_start (s : State) (a d : Nat) (l c r : T) (lru0 : Bytes) :
    (T.node a l c r).wePreD s a d lru0 0 =
      (a, lru0 ++ s.stemAt a) :: (if 0 ≥ d then [] else c.wePreD s a d (lru0 ++ s.stemAt a) 1) := by
  simp [T.wePreD]

theorem weDfs_depth_eq {s : State} {a : Nat} {l c r : T} (hr : Rep s (.node a l c r))
    (hsz : (T.node a l c r).size ≤ s.trie.size) (startLru : Bytes) (d : Nat) :
    s.weDfs a startLru (some d) = (T.node a l c r).wePreD s a d (lruDirname startLru) 0 := by
  have := weDfsGo_eq_wePreD (s := s) a d (s.trie.size + 1) [(T.node a l c r, lruDirname startLru, 0)]
    (by intro p hp; simp only [List.mem_singleton] at hp; subst hp; exact ⟨hr, by simp⟩)
    (by simp only [stackSize_cons, stackSize_nil]; omega)
  simpa [weDfs] using this

/-- membership in the depth-limited walk at a node that is not the start node -/
theorem T.mem_wePreD_node {s : State} {start a d : Nat} (hne : a ≠ start) (l c r : T) (lru0 : Bytes)
    (lvl : Nat) (x : Nat × Bytes) :
    x ∈ (T.node a l c r).wePreD s start d lru0 lvl ↔
      ((s.cell a).we = 0 ∧ (x = (a, lru0 ++ s.stemAt a) ∨
        (lvl < d ∧ x ∈ c.wePreD s start d (lru0 ++ s.stemAt a) (lvl + 1)))) ∨
      x ∈ l.wePreD s start d lru0 lvl ∨ x ∈ r.wePreD s start d lru0 lvl := by
  simp only [T.wePreD, hne, false_or, if_false, List.mem_append]
  by_cases hw : (s.cell a).we = 0
  · rw [if_pos hw]
    by_cases hl : lvl ≥ d
    · rw [if_pos hl]
      have : ¬ lvl < d := by omega
      simp [hw, this]
    · rw [if_neg hl]
      have : lvl < d := by omega
      simp [hw, this]
  · rw [if_neg hw]; simp [hw]

/-- below the start node, in a sibling tree whose nodes have level `lvl ≤ d`: the depth-limited walk meets
    exactly the entries all of whose path cells carry no webentity and whose own level
    `lvl + q.length - 1` is at most `d` -/
theorem wePreD_below_mem_iff {s : State} (start d : Nat) : ∀ (u : T) (lo hi : Option Stem) (pre : LRU)
    (lru0 : Bytes) (lvl : Nat) (b : Nat) (lru : Bytes),
    OrdT s u lo hi → u.addrs.Nodup → start ∉ u.addrs → lvl ≤ d →
    ((b, lru) ∈ u.wePreD s start d lru0 lvl ↔
      ∃ q, (pre ++ q, b) ∈ u.entries s pre ∧ lru = lru0 ++ q.flatten ∧
        (∀ x ∈ u.pathCells s q, (s.cell x.1).we = 0) ∧ lvl + q.length ≤ d + 1) := by
  intro u
  induction u with
  | nil => intro _ _ _ _ _ _ _ _ _ _ _; simp [T.wePreD, T.entries]
  | node a l c r ihl ihc ihr =>
    intro lo hi pre lru0 lvl b lru hord hnd hst hlvl
    have hn := T.nodup_node hnd
    obtain ⟨_, _, ol, or_, oc⟩ := id hord
    simp only [T.addrs, List.mem_cons, List.mem_append, not_or] at hst
    obtain ⟨hsa, ⟨hsl, hsc⟩, hsr⟩ := hst
    have hne : a ≠ start := fun e => hsa e.symm
    have il := ihl _ _ pre lru0 lvl b lru ol hn.2.2.2.1 hsl hlvl
    have ic := fun (hl : lvl + 1 ≤ d) =>
      ihc _ _ (pre ++ [s.stemAt a]) (lru0 ++ s.stemAt a) (lvl + 1) b lru oc hn.2.2.2.2.1 hsc hl
    have ir := ihr _ _ pre lru0 lvl b lru or_ hn.2.2.2.2.2.1 hsr hlvl
    rw [T.mem_wePreD_node hne]
    simp only [T.entries, List.mem_cons, List.mem_append, Prod.mk.injEq]
    constructor
    · rintro (⟨hw, (⟨rfl, rfl⟩ | ⟨hlt, h⟩)⟩ | h | h)
      · refine ⟨[s.stemAt b], Or.inr (Or.inl ⟨rfl, rfl⟩), by simp, ?_, by simp; omega⟩
        rw [T.pathCells_node_self]
        intro x hx
        simp only [T.pathCells, List.mem_singleton] at hx
        subst hx; exact hw
      · obtain ⟨q, hq, hl, hz, hd⟩ := (ic hlt).mp h
        refine ⟨s.stemAt a :: q, Or.inr (Or.inr (Or.inl ?_)), ?_, ?_, ?_⟩
        · simpa using hq
        · rw [hl]; simp
        · rw [T.pathCells_node_self]
          intro x hx
          simp only [List.mem_cons] at hx
          rcases hx with rfl | hx
          · exact hw
          · exact hz x hx
        · simp only [List.length_cons]; omega
      · obtain ⟨q, hq, hl, hz, hd⟩ := il.mp h
        refine ⟨q, Or.inl hq, hl, ?_, hd⟩
        rw [T.pathCells_node_left hord hnd hq]; exact hz
      · obtain ⟨q, hq, hl, hz, hd⟩ := ir.mp h
        refine ⟨q, Or.inr (Or.inr (Or.inr hq)), hl, ?_, hd⟩
        rw [T.pathCells_node_right hord hnd hq]; exact hz
    · rintro ⟨q, (hq | ⟨hq, rfl⟩ | hq | hq), hl, hz, hd⟩
      · refine Or.inr (Or.inl (il.mpr ⟨q, hq, hl, ?_, hd⟩))
        rw [T.pathCells_node_left hord hnd hq] at hz; exact hz
      · have : q = [s.stemAt b] := List.append_cancel_left hq
        subst this
        rw [T.pathCells_node_self] at hz
        refine Or.inl ⟨hz (b, s.stemAt b) (by simp), Or.inl ⟨rfl, ?_⟩⟩
        rw [hl]; simp
      · obtain ⟨x, rest, e⟩ := entries_prefix _ _ _ _ hq
        have e' : q = s.stemAt a :: x :: rest := by
          rw [List.append_assoc] at e
          simpa using List.append_cancel_left e
        subst e'
        rw [T.pathCells_node_self] at hz
        simp only [List.length_cons] at hd
        have hlt : lvl < d := by omega
        refine Or.inl ⟨hz (a, s.stemAt a) (by simp), Or.inr ⟨hlt, (ic hlt).mpr ⟨x :: rest, ?_, ?_, ?_, ?_⟩⟩⟩
        · simpa using hq
        · rw [hl]; simp
        · intro y hy; exact hz y (by simp [hy])
        · simp only [List.length_cons]; omega
      · refine Or.inr (Or.inr (ir.mpr ⟨q, hq, hl, ?_, hd⟩))
        rw [T.pathCells_node_right hord hnd hq] at hz; exact hz

/-- ghost level: the depth-limited walk from the start node `a` meets `a` itself, and below it exactly the
    nodes with no webentity on the way whose relative depth `q.length` is at most `d` -/
theorem wePreD_mem_iff {s : State} {a : Nat} {l c r : T} {lo hi : Option Stem}
    (hord : OrdT s (.node a l c r) lo hi) (hnd : (T.node a l c r).addrs.Nodup)
    (d : Nat) (lru0 : Bytes) (b : Nat) (lru : Bytes) :
    (b, lru) ∈ (T.node a l c r).wePreD s a d lru0 0 ↔
      (b = a ∧ lru = lru0 ++ s.stemAt a) ∨
      ∃ q, q ≠ [] ∧ (q, b) ∈ c.entries s [] ∧ lru = lru0 ++ s.stemAt a ++ q.flatten ∧
        (∀ k, 0 < k → k ≤ q.length → ∀ b', (q.take k, b') ∈ c.entries s [] → (s.cell b').we = 0) ∧
        q.length ≤ d := by
  have hn := T.nodup_node hnd
  rw [T.wePreD_start, List.mem_cons, Prod.mk.injEq]
  have hne : ∀ {q : LRU} {b : Nat}, (q, b) ∈ c.entries s [] → q ≠ [] := fun hq => pa_entry_ne_nil hq
  have hcells : ∀ {q : LRU} {b : Nat}, (q, b) ∈ c.entries s [] →
      ((∀ x ∈ c.pathCells s q, (s.cell x.1).we = 0) ↔
        (∀ k, 0 < k → k ≤ q.length → ∀ b', (q.take k, b') ∈ c.entries s [] → (s.cell b').we = 0)) := by
    intro q b hq
    have := pathCells_all_iff (pre := []) hord.2.2.2.2 hn.2.2.2.2.1 (by simpa using hq)
      (fun b' => (s.cell b').we = 0)
    simpa using this
  by_cases hd : 0 ≥ d
  · rw [if_pos hd]
    have hd0 : d = 0 := by omega
    subst hd0
    simp only [List.not_mem_nil, or_false]
    constructor
    · intro h; exact Or.inl h
    · rintro (h | ⟨q, hq0, hq, _, _, hlen⟩)
      · exact h
      · have : 0 < q.length := List.length_pos_iff.mpr hq0
        omega
  · rw [if_neg hd,
      wePreD_below_mem_iff a d c none none [] (lru0 ++ s.stemAt a) 1 b lru hord.2.2.2.2 hn.2.2.2.2.1 hn.2.1
        (by omega)]
    simp only [List.nil_append]
    constructor
    · rintro (h | ⟨q, hq, hl, hz, hlen⟩)
      · exact Or.inl h
      · exact Or.inr ⟨q, hne hq, hq, hl, (hcells hq).mp hz, by omega⟩
    · rintro (h | ⟨q, _, hq, hl, hz, hlen⟩)
      · exact Or.inl h
      · exact Or.inr ⟨q, hq, hl, (hcells hq).mpr hz, by omega⟩

/-- the same through the heap entry point `webentity_dfs_iter(node, lru, max_depth = d)` -/
theorem weDfs_depth_mem_iff {s : State} {a : Nat} {l c r : T} {lo hi : Option Stem}
    (hr : Rep s (.node a l c r)) (hsz : (T.node a l c r).size ≤ s.trie.size)
    (hord : OrdT s (.node a l c r) lo hi) (hnd : (T.node a l c r).addrs.Nodup)
    (startLru : Bytes) (d : Nat) (b : Nat) (lru : Bytes) :
    (b, lru) ∈ s.weDfs a startLru (some d) ↔
      (b = a ∧ lru = lruDirname startLru ++ s.stemAt a) ∨
      ∃ q, q ≠ [] ∧ (q, b) ∈ c.entries s [] ∧ lru = lruDirname startLru ++ s.stemAt a ++ q.flatten ∧
        (∀ k, 0 < k → k ≤ q.length → ∀ b', (q.take k, b') ∈ c.entries s [] → (s.cell b').we = 0) ∧
        q.length ≤ d := by
  rw [weDfs_depth_eq hr hsz]
  exact wePreD_mem_iff hord hnd d _ b lru

/-- the depth condition of a walk: none, or at most `d` stems below the prefix -/
def WithinDepth (depth : Option Nat) (P X : LRU) : Prop :=
  match depth with
  | none => True
  | some d => X.length ≤ P.length + d

instance (depth : Option Nat) (P X : LRU) : Decidable (WithinDepth depth P X) := by
  unfold WithinDepth; split <;> infer_instance

/-- DEPTH-LIMITED WALK, finite-map phrasing: the walk of `webentity_dfs_iter` with `max_depth = d` started
    at the node of the stored prefix `p` meets exactly the stored paths extending the prefix by at most `d`
    stems such that no stem-prefix strictly longer than the prefix (the path itself included) carries a
    webentity; it reports the flattened path -/
theorem weDfs_depth_walk_iff {s : State} {t : T} (h : Shape s t) {p : Bytes} {n : Nat}
    (hP : (lruIter p, n) ∈ t.entries s []) (d : Nat) (b : Nat) (lru : Bytes) :
    (b, lru) ∈ s.weDfs n p (some d) ↔
      ∃ X, (X, b) ∈ t.entries s [] ∧ lruIter p <+: X ∧ lru = X.flatten ∧
        (∀ j, (lruIter p).length < j → j ≤ X.length → ∀ b', (X.take j, b') ∈ t.entries s [] →
          (s.cell b').we = 0) ∧
        X.length ≤ (lruIter p).length + d := by
  generalize hPe : lruIter p = P at hP
  have hdir : lruDirname p ++ s.stemAt n = P.flatten := by rw [← hPe]; exact pa_dirname_stem h (hPe ▸ hP)
  obtain ⟨l, c, r, lo', hi', h1, h2, h3, h4, hiff⟩ :=
    subtree_at_ord P t none none [] n h.rep h.ord h.nodup (by simpa using hP)
  simp only [List.nil_append] at hiff
  have hsz : (T.node n l c r).size ≤ s.trie.size := Nat.le_trans h4 h.size_le
  have hc : ∀ q b, (q, b) ∈ c.entries s [] ↔ ((P ++ q, b) ∈ t.entries s [] ∧ q ≠ []) := by
    intro q b
    rw [← pa_entries_shift_mem c P q b, hiff]
    constructor
    · rintro ⟨hm, x, rest, e⟩
      have : q = x :: rest := List.append_cancel_left e
      exact ⟨hm, by rw [this]; simp⟩
    · rintro ⟨hm, hq⟩
      cases q with
      | nil => exact absurd rfl hq
      | cons x rest => exact ⟨hm, x, rest, rfl⟩
  rw [weDfs_depth_mem_iff h1 hsz h2 h3 p d b lru, hdir]
  constructor
  · rintro (⟨rfl, rfl⟩ | ⟨q, hne, hq, rfl, hz, hlen⟩)
    · exact ⟨P, hP, List.prefix_refl _, rfl, fun j hj1 hj2 => by omega, by omega⟩
    · refine ⟨P ++ q, ((hc q b).mp hq).1, List.prefix_append _ _, by simp, fun j hj1 hj2 b' hb' => ?_,
        by rw [List.length_append]; omega⟩
      rw [List.length_append] at hj2
      have ej : j = P.length + (j - P.length) := by omega
      rw [ej, pa_take_append_add] at hb'
      refine hz (j - P.length) (by omega) (by omega) b' ((hc _ _).mpr ⟨hb', ?_⟩)
      intro e
      have := congrArg List.length e
      rw [List.length_take] at this
      have hql : 0 < q.length := List.length_pos_iff.mpr hne
      simp only [List.length_nil] at this
      omega
  · rintro ⟨X, hX, ⟨q, rfl⟩, rfl, hz, hlen⟩
    by_cases hq : q = []
    · subst hq
      rw [List.append_nil] at hX
      have := entries_path_injective h.ord h.nodup hX hP
      subst this
      exact Or.inl ⟨rfl, by simp⟩
    · refine Or.inr ⟨q, hq, (hc q b).mpr ⟨hX, hq⟩, by simp, fun k hk1 hk2 b' hb' => ?_,
        by rw [List.length_append] at hlen; omega⟩
      have hb := ((hc _ _).mp hb').1
      refine hz (P.length + k) (by omega) (by rw [List.length_append]; omega) b' ?_
      rw [pa_take_append_add]; exact hb

/-- both cases of the `max_depth` argument in one statement -/
theorem weDfs_opt_walk_iff {s : State} {t : T} (h : Shape s t) {p : Bytes} {n : Nat}
    (hP : (lruIter p, n) ∈ t.entries s []) (depth : Option Nat) (b : Nat) (lru : Bytes) :
    (b, lru) ∈ s.weDfs n p depth ↔
      ∃ X, (X, b) ∈ t.entries s [] ∧ lruIter p <+: X ∧ lru = X.flatten ∧
        (∀ j, (lruIter p).length < j → j ≤ X.length → ∀ b', (X.take j, b') ∈ t.entries s [] →
          (s.cell b').we = 0) ∧
        WithinDepth depth (lruIter p) X := by
  cases depth with
  | none =>
    rw [weDfs_walk_iff h hP]
    simp [WithinDepth]
  | some d =>
    rw [weDfs_depth_walk_iff h hP]
    simp [WithinDepth]

/-- the depth-limited walk is a sub-walk of the unlimited one -/
theorem wePreD_sublist_wePre {s : State} (start d : Nat) : ∀ (u : T) (lru : Bytes) (lvl : Nat),
    (u.wePreD s start d lru lvl).Sublist (u.wePre s start lru)
  | .nil, _, _ => by simp [T.wePreD, T.wePre]
  | .node a l c r, lru, lvl => by
    have ic := wePreD_sublist_wePre (s := s) start d c (lru ++ s.stemAt a) (lvl + 1)
    have il := wePreD_sublist_wePre (s := s) start d l lru lvl
    have ir := wePreD_sublist_wePre (s := s) start d r lru lvl
    simp only [T.wePreD, T.wePre]
    refine List.Sublist.append ?_ ?_
    · split
      · refine List.Sublist.cons_cons _ ?_
        split
        · exact List.nil_sublist _
        · exact ic
      · exact List.Sublist.refl _
    · split
      · exact List.Sublist.refl _
      · exact il.append ir

/-- whatever the depth limit, the walk from a stored node meets no block twice -/
theorem weDfs_opt_addrs_nodup {s : State} {t : T} (h : Shape s t) {P : LRU} {n : Nat}
    (hP : (P, n) ∈ t.entries s []) (p : Bytes) (depth : Option Nat) :
    ((s.weDfs n p depth).map (·.1)).Nodup := by
  cases depth with
  | none => exact pa_weDfs_addrs_nodup h hP p
  | some d =>
    obtain ⟨l, c, r, lo', hi', h1, _, h3, h4, _⟩ :=
      subtree_at_ord P t none none [] n h.rep h.ord h.nodup (by simpa using hP)
    have hsz : (T.node n l c r).size ≤ s.trie.size := Nat.le_trans h4 h.size_le
    have e := pa_weDfs_addrs_nodup h hP p
    rw [weDfs_eq' h1 hsz p, ← T.wePre_start s n l c r] at e
    rw [weDfs_depth_eq h1 hsz p d]
    exact List.Nodup.sublist ((wePreD_sublist_wePre n d _ _ 0).map (·.1)) e

#print axioms weDfs_depth_mem_iff
#print axioms weDfs_depth_walk_iff
#print axioms weDfs_opt_walk_iff
#print axioms weDfs_opt_addrs_nodup

end Traph

import Proofs.MarksWalk
import Proofs.InsertAttrs
import Proofs.DescendSpec
/-! C13, part 3 (a), (b), (e): which writes keep the mark invariant `MarkOk`.
    (a) writes that keep "no webentity" of every tree block and only clear `noChild`;
    (b) grafting a leaf without webentity;
    (e) setting the webentity id of a node all of whose proper ancestors are unmarked; clearing an id. -/
namespace Traph
open State

/-! ### (a) monotonicity -/

/-- the invariant survives any change of the heap that keeps `we = 0` of the tree blocks and never sets a
    `noChild` flag -/
theorem MarkOk.mono {s s' : State} : ∀ {t : T}, MarkOk s t →
    (∀ b ∈ t.addrs, (s.cell b).we = 0 → (s'.cell b).we = 0) →
    (∀ b ∈ t.addrs, (s'.cell b).flags.noChild = true → (s.cell b).flags.noChild = true) →
    MarkOk s' t := by
  intro t
  induction t with
  | nil => intro _ _ _; trivial
  | node a l c r ihl ihc ihr =>
    intro hm hwe hnc
    obtain ⟨ml, mr, mc, hmark⟩ := hm
    refine ⟨ihl ml ?_ ?_, ihr mr ?_ ?_, ihc mc ?_ ?_, ?_⟩
    · intro x hx; exact hwe x (by simp [T.addrs, hx])
    · intro x hx; exact hnc x (by simp [T.addrs, hx])
    · intro x hx; exact hwe x (by simp [T.addrs, hx])
    · intro x hx; exact hnc x (by simp [T.addrs, hx])
    · intro x hx; exact hwe x (by simp [T.addrs, hx])
    · intro x hx; exact hnc x (by simp [T.addrs, hx])
    · intro h x hx
      exact hwe x (by simp [T.addrs, hx]) (hmark (hnc a (by simp [T.addrs]) h) x hx)

/-- pointwise form -/
theorem MarkOk.of_cells {s s' : State} {t : T} (hm : MarkOk s t)
    (hwe : ∀ b, (s.cell b).we = 0 → (s'.cell b).we = 0)
    (hnc : ∀ b, (s'.cell b).flags.noChild = true → (s.cell b).flags.noChild = true) : MarkOk s' t :=
  hm.mono (fun b _ => hwe b) (fun b _ => hnc b)

theorem cell_modCell_ne (s : State) {i j : Nat} (f : Cell → Cell) (h : i ≠ j) :
    (s.modCell i f).cell j = s.cell j := by
  rw [cell_modCell, if_neg (fun hh => h hh.1)]

/-- a block rewrite that keeps "no webentity" and never sets `noChild` -/
theorem MarkOk.modCell {s : State} {t : T} (hm : MarkOk s t) (i : Nat) (f : Cell → Cell)
    (hwe : ∀ c, c.we = 0 → (f c).we = 0)
    (hnc : ∀ c, (f c).flags.noChild = true → c.flags.noChild = true) : MarkOk (s.modCell i f) t := by
  refine hm.of_cells ?_ ?_
  · intro b hb; rw [cell_modCell]; split
    · exact hwe _ hb
    · exact hb
  · intro b hb; rw [cell_modCell] at hb; split at hb
    · exact hnc _ hb
    · exact hb

theorem MarkOk.markCanHave {s : State} {t : T} (hm : MarkOk s t) (n : Nat) (b : Bool) :
    MarkOk (s.markCanHave n b) t := by
  unfold State.markCanHave; split
  · exact hm.modCell n _ (fun _ h => h) (fun _ h => by simp at h)
  · exact hm

/-- rewrites of the page / crawled / rule flags and of the link-list heads -/
theorem MarkOk.modCell_attrs {s : State} {t : T} (hm : MarkOk s t) (i : Nat) (f : Cell → Cell)
    (hwe : ∀ c, (f c).we = c.we) (hnc : ∀ c, (f c).flags.noChild = c.flags.noChild) :
    MarkOk (s.modCell i f) t :=
  hm.modCell i f (fun c h => by rw [hwe]; exact h) (fun c h => by rw [hnc] at h; exact h)

/-- clearing a webentity id -/
theorem clearWe_markOk {s : State} {t : T} (hm : MarkOk s t) (b : Nat) :
    MarkOk (s.modCell b (fun c => { c with we := 0 })) t :=
  hm.modCell b _ (fun _ _ => rfl) (fun _ h => h)

/-- the relation between two states used along an insertion: old blocks keep `we` and may lose `noChild`,
    fresh blocks carry no webentity -/
structure MStep (s s' : State) : Prop where
  we  : ∀ a, a < s.trie.size → (s'.cell a).we = (s.cell a).we
  nc  : ∀ a, a < s.trie.size → (s'.cell a).flags.noChild = true → (s.cell a).flags.noChild = true
  new : ∀ b, s.trie.size ≤ b → (s'.cell b).we = 0

theorem Le.cell_noChild {s s' : State} (h : s ⊑ s') {a : Nat} (ha : a < s.trie.size)
    (hn : (s'.cell a).flags.noChild = true) : (s.cell a).flags.noChild = true := by
  have hget : s.trie[a]? = some s.trie[a] := Array.getElem?_eq_getElem ha
  obtain ⟨c', hc', hle⟩ := h.cells a _ hget
  unfold State.cell at hn ⊢
  rw [hc'] at hn
  rw [hget]
  exact hle.noChild hn

theorem MStep.of_attr_le {s s' : State} (ha : AttrStep s s') (hl : s ⊑ s') : MStep s s' :=
  ⟨fun a h => (ha.old a h).we, fun _ h hn => hl.cell_noChild h hn, fun b h => (ha.new b h).we⟩

theorem MarkOk.step {s s' : State} {t : T} (hm : MarkOk s t) (hr : Rep s t) (ms : MStep s s') :
    MarkOk s' t :=
  hm.mono (fun b hb h => by rw [ms.we b (hr.lt_size b hb)]; exact h)
    (fun b hb h => ms.nc b (hr.lt_size b hb) h)

/-! ### (b) grafting a leaf without webentity -/

theorem T.graft_addrs_sub (q : Nat) (sl : Slot) (b : Nat) :
    ∀ (t : T) (x : Nat), x ∈ (t.graft q sl b).addrs → x = b ∨ x ∈ t.addrs := by
  intro t
  induction t with
  | nil => intro x hx; simp [T.graft, T.addrs] at hx
  | node a l c r ihl ihc ihr =>
    intro x hx
    simp only [T.graft, T.addrs, List.mem_cons, List.mem_append] at hx ⊢
    rcases hx with rfl | (hx | hx) | hx
    · exact Or.inr (Or.inl rfl)
    · split at hx
      · simp [T.addrs] at hx; exact Or.inl hx
      · rcases ihl x hx with h | h
        · exact Or.inl h
        · exact Or.inr (Or.inr (Or.inl (Or.inl h)))
    · split at hx
      · simp [T.addrs] at hx; exact Or.inl hx
      · rcases ihc x hx with h | h
        · exact Or.inl h
        · exact Or.inr (Or.inr (Or.inl (Or.inr h)))
    · split at hx
      · simp [T.addrs] at hx; exact Or.inl hx
      · rcases ihr x hx with h | h
        · exact Or.inl h
        · exact Or.inr (Or.inr (Or.inr h))

theorem MarkOk.leaf {s : State} (b : Nat) : MarkOk s (.node b .nil .nil .nil) :=
  ⟨trivial, trivial, trivial, fun _ x hx => by simp [T.addrs] at hx⟩

/-- grafting a leaf that carries no webentity keeps the invariant (the new node adds no obligation above
    it; its own child tree is empty); old blocks may change as in (a) -/
theorem MarkOk.graft {s s' : State} {q b : Nat} {sl : Slot} : ∀ {t : T}, MarkOk s t →
    (∀ x ∈ t.addrs, (s.cell x).we = 0 → (s'.cell x).we = 0) →
    (∀ x ∈ t.addrs, (s'.cell x).flags.noChild = true → (s.cell x).flags.noChild = true) →
    (s'.cell b).we = 0 → MarkOk s' (t.graft q sl b) := by
  intro t
  induction t with
  | nil => intro _ _ _ _; trivial
  | node a l c r ihl ihc ihr =>
    intro hm hwe hnc hb
    obtain ⟨ml, mr, mc, hmark⟩ := hm
    have hwel : ∀ x ∈ l.addrs, (s.cell x).we = 0 → (s'.cell x).we = 0 :=
      fun x hx => hwe x (by simp [T.addrs, hx])
    have hwec : ∀ x ∈ c.addrs, (s.cell x).we = 0 → (s'.cell x).we = 0 :=
      fun x hx => hwe x (by simp [T.addrs, hx])
    have hwer : ∀ x ∈ r.addrs, (s.cell x).we = 0 → (s'.cell x).we = 0 :=
      fun x hx => hwe x (by simp [T.addrs, hx])
    have hncl : ∀ x ∈ l.addrs, (s'.cell x).flags.noChild = true → (s.cell x).flags.noChild = true :=
      fun x hx => hnc x (by simp [T.addrs, hx])
    have hncc : ∀ x ∈ c.addrs, (s'.cell x).flags.noChild = true → (s.cell x).flags.noChild = true :=
      fun x hx => hnc x (by simp [T.addrs, hx])
    have hncr : ∀ x ∈ r.addrs, (s'.cell x).flags.noChild = true → (s.cell x).flags.noChild = true :=
      fun x hx => hnc x (by simp [T.addrs, hx])
    simp only [T.graft]
    refine ⟨?_, ?_, ?_, ?_⟩
    · split
      · exact MarkOk.leaf b
      · exact ihl ml hwel hncl hb
    · split
      · exact MarkOk.leaf b
      · exact ihr mr hwer hncr hb
    · split
      · exact MarkOk.leaf b
      · exact ihc mc hwec hncc hb
    · intro hn x hx
      have hna := hnc a (by simp [T.addrs]) hn
      split at hx
      · simp [T.addrs] at hx; subst hx; exact hb
      · rcases T.graft_addrs_sub q sl b c x hx with rfl | hx'
        · exact hb
        · exact hwec x hx' (hmark hna x hx')

/-- the form used along an insertion -/
theorem MarkOk.graft_step {s s' : State} {t : T} (hm : MarkOk s t) (hr : Rep s t) (ms : MStep s s')
    (q : Nat) (sl : Slot) {b : Nat} (hb : s.trie.size ≤ b) : MarkOk s' (t.graft q sl b) :=
  hm.graft (fun x hx h => by rw [ms.we x (hr.lt_size x hx)]; exact h)
    (fun x hx h => ms.nc x (hr.lt_size x hx) h) (ms.new b hb)

/-! ### (e) setting a webentity id below unmarked ancestors -/

theorem flags_setWe (s : State) (b w j : Nat) :
    ((s.modCell b (fun c => { c with we := w })).cell j).flags = (s.cell j).flags := by
  rw [cell_modCell]; split <;> rfl

theorem we_setWe_ne (s : State) {b j : Nat} (w : Nat) (h : j ≠ b) :
    ((s.modCell b (fun c => { c with we := w })).cell j).we = (s.cell j).we := by
  rw [cell_modCell_ne s _ (Ne.symm h)]

/-- general form over a sibling tree below the path `pre`: either the block is not in the tree, or it is
    the node stored under `p` and every node stored under a proper prefix of `p` is unmarked -/
theorem setWe_gen {s : State} {b w : Nat} {p : LRU} : ∀ (t : T) (pre : LRU), t.addrs.Nodup → MarkOk s t →
    (b ∉ t.addrs ∨ ((p, b) ∈ t.entries s pre ∧
        ∀ q a, (q, a) ∈ t.entries s pre → (∃ x rest, p = q ++ x :: rest) →
          (s.cell a).flags.noChild = false)) →
    MarkOk (s.modCell b (fun c => { c with we := w })) t := by
  intro t
  induction t with
  | nil => intro _ _ _ _; trivial
  | node a l c r ihl ihc ihr =>
    intro pre hnd hm H
    obtain ⟨ml, mr, mc, hmark⟩ := hm
    obtain ⟨hal, hac, har, ndl, ndc, ndr, dlc, dlr, dcr⟩ := T.nodup_node hnd
    have own_of : b ∉ c.addrs →
        (((s.modCell b (fun c => { c with we := w })).cell a).flags.noChild = true →
          ∀ x ∈ c.addrs, ((s.modCell b (fun c => { c with we := w })).cell x).we = 0) := by
      intro hbc hn x hx
      rw [flags_setWe] at hn
      rw [we_setWe_ne s w (fun (e : x = b) => hbc (e ▸ hx))]
      exact hmark hn x hx
    rcases H with hb | ⟨hm, hanc⟩
    · obtain ⟨_, hbl, hbc, hbr⟩ := T.not_mem_node hb
      exact ⟨ihl pre ndl ml (Or.inl hbl), ihr pre ndr mr (Or.inl hbr), ihc (pre ++ [s.stemAt a]) ndc mc (Or.inl hbc),
        own_of hbc⟩
    · have hmem : ∀ {q a'}, ((q, a') ∈ l.entries s pre ∨ (q = pre ++ [s.stemAt a] ∧ a' = a) ∨
          (q, a') ∈ c.entries s (pre ++ [s.stemAt a]) ∨ (q, a') ∈ r.entries s pre) →
          (q, a') ∈ (T.node a l c r).entries s pre := by
        intro q a' h
        simp only [T.entries, List.mem_append, List.mem_cons, Prod.mk.injEq]
        exact h
      simp only [T.entries, List.mem_append, List.mem_cons, Prod.mk.injEq] at hm
      rcases hm with hm | ⟨hp, hba⟩ | hm | hm
      · have hb := entries_addr_mem _ _ _ _ hm
        have hbc : b ∉ c.addrs := dlc b hb
        have hbr : b ∉ r.addrs := dlr b hb
        exact ⟨ihl pre ndl ml (Or.inr ⟨hm, fun q a' hq => hanc q a' (hmem (Or.inl hq))⟩),
          ihr pre ndr mr (Or.inl hbr), ihc (pre ++ [s.stemAt a]) ndc mc (Or.inl hbc), own_of hbc⟩
      · subst hba
        exact ⟨ihl pre ndl ml (Or.inl hal), ihr pre ndr mr (Or.inl har), ihc (pre ++ [s.stemAt b]) ndc mc (Or.inl hac),
          own_of hac⟩
      · have hb := entries_addr_mem _ _ _ _ hm
        have hbl : b ∉ l.addrs := fun hx => dlc b hx hb
        have hbr : b ∉ r.addrs := dcr b hb
        obtain ⟨x, rest, hp⟩ := entries_prefix _ _ _ _ hm
        have hna : (s.cell a).flags.noChild = false :=
          hanc _ a (hmem (Or.inr (Or.inl ⟨rfl, rfl⟩))) ⟨x, rest, hp⟩
        refine ⟨ihl pre ndl ml (Or.inl hbl), ihr pre ndr mr (Or.inl hbr),
          ihc (pre ++ [s.stemAt a]) ndc mc (Or.inr ⟨hm, fun q a' hq => hanc q a' (hmem (Or.inr (Or.inr (Or.inl hq))))⟩), ?_⟩
        intro hn
        rw [flags_setWe, hna] at hn
        exact absurd hn (by simp)
      · have hb := entries_addr_mem _ _ _ _ hm
        have hbl : b ∉ l.addrs := fun hx => dlr b hx hb
        have hbc : b ∉ c.addrs := fun hx => dcr b hx hb
        exact ⟨ihl pre ndl ml (Or.inl hbl),
          ihr pre ndr mr (Or.inr ⟨hm, fun q a' hq => hanc q a' (hmem (Or.inr (Or.inr (Or.inr hq))))⟩),
          ihc (pre ++ [s.stemAt a]) ndc mc (Or.inl hbc), own_of hbc⟩

/-- (e): setting the id of the node stored under `p` keeps the invariant when every node stored under a
    proper prefix of `p` is unmarked -/
theorem setWe_markOk {s : State} {t : T} (hnd : t.addrs.Nodup) (hm : MarkOk s t) {p : LRU} {b : Nat}
    (hent : (p, b) ∈ t.entries s [])
    (hanc : ∀ k, 0 < k → k < p.length → ∀ a, (p.take k, a) ∈ t.entries s [] →
      (s.cell a).flags.noChild = false) (w : Nat) :
    MarkOk (s.modCell b (fun c => { c with we := w })) t := by
  refine setWe_gen t [] hnd hm (Or.inr ⟨hent, ?_⟩)
  rintro q a hq ⟨x, rest, rfl⟩
  obtain ⟨y, tl, hy⟩ := entries_prefix _ _ _ _ hq
  have hk0 : 0 < q.length := by rw [hy]; simp
  refine hanc q.length hk0 (by simp) a ?_
  rw [List.take_left']
  · exact hq
  · rfl

/-- a block that is not a node of the tree can be rewritten at will -/
theorem setWe_markOk_of_not_mem {s : State} {t : T} (hm : MarkOk s t) {b : Nat} (hb : b ∉ t.addrs)
    (w : Nat) : MarkOk (s.modCell b (fun c => { c with we := w })) t :=
  hm.mono (fun x hx h => by rw [we_setWe_ne s w (fun (e : x = b) => hb (e ▸ hx))]; exact h)
    (fun x _ h => by rw [flags_setWe] at h; exact h)

/-! ### the shape invariant under attribute rewrites -/

theorem noStruct_modCell (s : State) (i : Nat) (f : Cell → Cell)
    (hf : ∀ c, (f c).left = c.left ∧ (f c).right = c.right ∧ (f c).child = c.child ∧
      (f c).chunk = c.chunk ∧ (f c).flags.hasTail = c.flags.hasTail) : NoStruct s (s.modCell i f) := by
  refine ⟨trie_modCell_size _ _ _, fun j c hc => ?_⟩
  rw [getElem?_modCell]
  by_cases e : i = j
  · rw [if_pos e, hc]
    obtain ⟨h1, h2, h3, h4, h5⟩ := hf c
    exact ⟨_, rfl, h1, h2, h3, h4, h5⟩
  · rw [if_neg e]; exact ⟨c, hc, rfl, rfl, rfl, rfl, rfl⟩

theorem noStruct_setWe (s : State) (b w : Nat) : NoStruct s (s.modCell b (fun c => { c with we := w })) :=
  noStruct_modCell s b _ (fun _ => ⟨rfl, rfl, rfl, rfl, rfl⟩)

theorem entries_setWe (s : State) (t : T) (b w : Nat) (pre : LRU) :
    t.entries (s.modCell b (fun c => { c with we := w })) pre = t.entries s pre :=
  T.entries_frame t pre (fun a _ => (noStruct_setWe s b w).stemAt a)

#print axioms MarkOk.mono
#print axioms MarkOk.graft
#print axioms setWe_markOk

end Traph

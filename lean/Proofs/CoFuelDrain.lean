import Proofs.CoFuelNet
import Proofs.CoDrainShape
import Proofs.Network
import Proofs.CoDict
/-! C16 — the two generators of `CoSt` with recomputed fuel, drained on a FIXED index, give the atomic answers. -/
namespace Traph
open State Layout

/-- `run_iterator` on a fixed index for any generator of `CoSt` (the index a read-only generator returns is
    the one it was given) -/
def cf_drain : Nat → State → CoSt → Ans
  | 0, _, _ => .err (.other "fuel")
  | n + 1, s, c =>
    match c.resume s with
    | (_, c1, .yielded) => cf_drain n s c1
    | (_, _, .done a) => a
    | (_, _, .failed e) => .err e

theorem cf_weDfsPushD_none (st b : Nat) (lru cur : Bytes) (lvl : Nat) (c : Cell) (stk : List (Nat × Bytes × Nat)) :
    weDfsPushD none st b lru cur lvl c stk = weDfsPush st b lru cur lvl c stk := rfl

/-- the items of the answer among the blocks of a walk -/
def cf_pageItems (s : State) (l : List (Nat × Bytes)) : List (Bytes × Bool) :=
  (l.filter (fun bl => (s.cell bl.1).flags.page)).map (fun bl => (bl.2, (s.cell bl.1).flags.crawled))

/-- what the atomic request still has to answer from a state of the generator -/
def cf_pagesSpec (s : State) (prefixes : List Bytes) (start : Nat) (stack : List (Nat × Bytes × Nat))
    (pages : List (Bytes × Bool)) (f : Nat) : Ans :=
  Ans.ofExcept .pages (prefixes.foldl (s.forPrefixesStep (fun n p => cf_pageItems s (s.weDfs n p none)))
    (.ok (pages ++ cf_pageItems s (s.weDfsGo start none f stack))))

theorem cf_pagesSpec_init (s : State) (ps : List Bytes) :
    cf_pagesSpec s ps 0 [] [] 0 = s.ask (.pages ps) := by
  simp [cf_pagesSpec, State.ask, webentityPages, forPrefixes, cf_pageItems, weDfsGo]

theorem cf_pageItems_append (s : State) (a b : List (Nat × Bytes)) :
    cf_pageItems s (a ++ b) = cf_pageItems s a ++ cf_pageItems s b := by
  simp [cf_pageItems]

theorem cf_weDfsGo_nil (s : State) (st : Nat) (d : Option Nat) (f : Nat) : s.weDfsGo st d f [] = [] := by
  cases f <;> rfl

/-- iterations still to go: pops of the walk in progress, then one opening and one walk per prefix -/
def cf_pB (s : State) (prefixes : List Bytes) (f : Nat) : Nat := f + prefixes.length * (s.trie.size + 2)

theorem cf_foldl_error (s : State) {α} (g : Nat → Bytes → List α) (e : Err) : ∀ ps : List Bytes,
    ps.foldl (s.forPrefixesStep g) (.error e) = .error e
  | [] => rfl
  | p :: ps => by rw [List.foldl_cons]; exact cf_foldl_error s g e ps

/-- **one section of the page query on a fixed index, any fuel**: it runs out of fuel, or yields in a state
    from which the atomic answer still to give is the same (and fewer iterations remain), or returns the
    atomic answer, or fails as the atomic request does -/
theorem cf_pages_section : ∀ (F : Nat) (s : State) (prefixes : List Bytes) (start : Nat)
    (stack : List (Nat × Bytes × Nat)) (pages : List (Bytes × Bool)) (f : Nat),
    weDfsFin s start none f stack → WeFin s none prefixes →
    (pagesResume F s ⟨prefixes, start, stack, none, pages⟩).2 = .failed (.other "fuel") ∨
    ((pagesResume F s ⟨prefixes, start, stack, none, pages⟩).2 = .yielded ∧
      ∃ f', weDfsFin s (pagesResume F s ⟨prefixes, start, stack, none, pages⟩).1.start none f'
              (pagesResume F s ⟨prefixes, start, stack, none, pages⟩).1.pending ∧
        WeFin s none (pagesResume F s ⟨prefixes, start, stack, none, pages⟩).1.prefixes ∧
        cf_pagesSpec s (pagesResume F s ⟨prefixes, start, stack, none, pages⟩).1.prefixes
          (pagesResume F s ⟨prefixes, start, stack, none, pages⟩).1.start
          (pagesResume F s ⟨prefixes, start, stack, none, pages⟩).1.pending
          (pagesResume F s ⟨prefixes, start, stack, none, pages⟩).1.pages f' = cf_pagesSpec s prefixes start stack pages f ∧
        cf_pB s (pagesResume F s ⟨prefixes, start, stack, none, pages⟩).1.prefixes f' < cf_pB s prefixes f) ∨
    (pagesResume F s ⟨prefixes, start, stack, none, pages⟩).2 = .done (cf_pagesSpec s prefixes start stack pages f) ∨
    ((pagesResume F s ⟨prefixes, start, stack, none, pages⟩).2 = .failed .traph ∧
      cf_pagesSpec s prefixes start stack pages f = .err .traph)
  | 0, s, prefixes, start, stack, pages, f, _, _ => Or.inl rfl
  | F + 1, s, prefixes, start, stack, pages, f, hfin, hwe => by
    rw [pagesResume]
    simp only
    cases stack with
    | nil =>
      simp only
      cases prefixes with
      | nil =>
        simp only
        refine Or.inr (Or.inr (Or.inl ?_))
        simp [cf_pagesSpec, cf_weDfsGo_nil, cf_pageItems, Ans.ofExcept]
      | cons pf more =>
        simp only
        cases hn : s.lruNode (lruIter pf) with
        | none =>
          simp only
          refine Or.inr (Or.inr (Or.inr ⟨trivial, ?_⟩))
          simp only [cf_pagesSpec, List.foldl_cons, forPrefixesStep, hn, cf_foldl_error]
          rfl
        | some n =>
          simp only
          have hfin' : weDfsFin s n none (s.trie.size + 1) [(n, lruDirname pf, 0)] := hwe pf (by simp) n hn
          have hwe' : WeFin s none more := fun p hp => hwe p (List.mem_cons_of_mem _ hp)
          have hspec : cf_pagesSpec s more n [(n, lruDirname pf, 0)] pages (s.trie.size + 1) =
              cf_pagesSpec s (pf :: more) start [] pages f := by
            simp only [cf_pagesSpec, List.foldl_cons, forPrefixesStep, hn, cf_weDfsGo_nil, cf_pageItems, weDfs,
              List.filter_nil, List.map_nil, List.append_nil]
          have hB : cf_pB s more (s.trie.size + 1) < cf_pB s (pf :: more) f := by
            simp only [cf_pB, List.length_cons, Nat.add_mul]; omega
          rcases cf_pages_section F s more n [(n, lruDirname pf, 0)] pages (s.trie.size + 1) hfin' hwe' with
            h | ⟨h1, f', h2, h3, h4, h5⟩ | h | ⟨h1, h2⟩
          · exact Or.inl h
          · exact Or.inr (Or.inl ⟨h1, f', h2, h3, h4.trans hspec, Nat.lt_trans h5 hB⟩)
          · exact Or.inr (Or.inr (Or.inl (hspec ▸ h)))
          · exact Or.inr (Or.inr (Or.inr ⟨h1, hspec ▸ h2⟩))
    | cons top rest =>
      obtain ⟨b, lru, lvl⟩ := top
      simp only
      cases f with
      | zero => exact absurd hfin (by simp [weDfsFin])
      | succ f' =>
        have hfin' : weDfsFin s start none f' (weDfsPush start b lru (lru ++ s.stemAt b) lvl (s.cell b) rest) := hfin
        have hstep := weDfsGo_step s start none f' b lru lvl rest
        rw [cf_weDfsPushD_none] at hstep
        split
        · rename_i hc
          simp only [Bool.and_eq_true] at hc
          refine Or.inr (Or.inl ⟨rfl, f', hfin', hwe, ?_, ?_⟩)
          · show cf_pagesSpec s prefixes start (weDfsPush start b lru (lru ++ s.stemAt b) lvl (s.cell b) rest)
              (pages ++ [(lru ++ s.stemAt b, (s.cell b).flags.crawled)]) f' = _
            simp only [cf_pagesSpec]
            rw [hstep, if_pos hc.1, cf_pageItems_append]
            simp [cf_pageItems, hc.2]
          · simp only [cf_pB]; omega
        · rename_i hc
          have hspec : cf_pagesSpec s prefixes start (weDfsPush start b lru (lru ++ s.stemAt b) lvl (s.cell b) rest) pages f' =
              cf_pagesSpec s prefixes start ((b, lru, lvl) :: rest) pages (f' + 1) := by
            simp only [cf_pagesSpec]
            rw [hstep, cf_pageItems_append]
            have : cf_pageItems s (if (b = start || (s.cell b).we = 0) = true then [(b, lru ++ s.stemAt b)] else []) = [] := by
              split
              · rename_i hrel
                have hp : (s.cell b).flags.page = false := by
                  cases hpg : (s.cell b).flags.page with
                  | false => rfl
                  | true => exact absurd (by simp only [Bool.and_eq_true]; exact ⟨hrel, hpg⟩) hc
                simp [cf_pageItems, hp]
              · rfl
            rw [this, List.nil_append]
          have hB : cf_pB s prefixes f' < cf_pB s prefixes (f' + 1) := by simp only [cf_pB]; omega
          rcases cf_pages_section F s prefixes start _ pages f' hfin' hwe with
            h | ⟨h1, f'', h2, h3, h4, h5⟩ | h | ⟨h1, h2⟩
          · exact Or.inl h
          · exact Or.inr (Or.inl ⟨h1, f'', h2, h3, h4.trans hspec, Nat.lt_trans h5 hB⟩)
          · exact Or.inr (Or.inr (Or.inl (hspec ▸ h)))
          · exact Or.inr (Or.inr (Or.inr ⟨h1, hspec ▸ h2⟩))

theorem cf_pages_drain_aux : ∀ (N : Nat) (s : State) (t : T) (p : PagesSt) (f : Nat), Shape s t → cf_PagesInv s t p →
    weDfsFin s p.start none f p.pending → WeFin s none p.prefixes → cf_pB s p.prefixes f < N →
    cf_drain N s (.pages p) = cf_pagesSpec s p.prefixes p.start p.pending p.pages f
  | 0, _, _, _, _, _, _, _, _, hN => by omega
  | N + 1, s, t, p, f, h, hp, hfin, hwe, hN => by
    have hfu := cf_pagesResume_fuel h hp
    have hsec := cf_pages_section ((s.trie.size + 1) * (p.prefixes.length + 1)) s p.prefixes p.start p.pending p.pages f hfin hwe
    have hnorm : pagesResume ((s.trie.size + 1) * (p.prefixes.length + 1)) s ⟨p.prefixes, p.start, p.pending, none, p.pages⟩ =
        pagesResume ((s.trie.size + 1) * (p.prefixes.length + 1)) s p := (pagesResume_norm _ s p).symm
    rw [hnorm] at hsec
    rcases hr : pagesResume ((s.trie.size + 1) * (p.prefixes.length + 1)) s p with ⟨p1, o⟩
    rw [hr] at hsec hfu
    simp only at hsec hfu
    have hd : cf_drain (N + 1) s (.pages p) =
        (match o with | .yielded => cf_drain N s (.pages p1) | .done a => a | .failed e => .err e) := by
      simp only [cf_drain, CoSt.resume, hr]; cases o <;> rfl
    rw [hd]
    rcases hsec with h1 | ⟨h1, f', h2, h3, h4, h5⟩ | h1 | ⟨h1, h2⟩
    · exact absurd h1 hfu.1
    · subst h1
      simp only
      rw [← h4]
      exact cf_pages_drain_aux N s t p1 f' h (hfu.2 rfl) h2 h3 (by omega)
    · subst h1; rfl
    · subst h1; exact h2.symm

/-- **(2) the page query drained on a fixed index = the atomic request**, for EVERY well-formed prefix list
    (equal prefixes, prefixes below one another, … included: with the old constant of `CoSt.resume` a section of
    the model could run out of fuel there, `cf_old_pages_fuel_insufficient_*`, and the drained machine answered
    `.err (.other "fuel")` where the atomic request answers `.pages []`; see `cf_pages_drain_dup`) -/
theorem cf_pages_drain {s : State} {t : T} (h : Shape s t) (ps : List Bytes) (hwf : ∀ pf ∈ ps, lruIter pf ≠ [])
    (N : Nat) (hN : ps.length * (s.trie.size + 2) < N) :
    cf_drain N s (.pages { prefixes := ps }) = s.ask (.pages ps) := by
  rw [← cf_pagesSpec_init]
  exact cf_pages_drain_aux N s t { prefixes := ps } 0 h (cf_PagesInv.init s t ps hwf) trivial
    (weFin_of_shape h none ps hwf) (by simpa [cf_pB] using hN)

/-! ## the network query drained on a fixed index -/

/-- one Counter entry of a page of webentity `src`, with the page → webentity dictionary `D` -/
def cf_netInner (auto : Bool) (D : List (Nat × Nat)) (src : Nat) (g : List NetRow) (tw : Nat × Nat) : List NetRow :=
  match dictGet? D tw.1 with
  | none => g
  | some tWe =>
    if !auto && src = tWe then g
    else netTouch g src (fun r => { r with targets := counterAdd r.targets tWe tw.2 })

/-- one pointer of the second pass -/
def cf_netOuter (s : State) (auto : Bool) (D : List (Nat × Nat)) (g : List NetRow) (sh : Nat × Nat) : List NetRow :=
  (s.weighted sh.2).foldl (cf_netInner auto D sh.1) g

/-- what the second pass still has to compute from a state of the generator -/
def cf_netSpecP2 (s : State) (n : NetSt) (ptrs : List (Nat × Nat)) : List NetRow :=
  ptrs.foldl (cf_netOuter s n.auto n.pageWe) (n.curList.foldl (cf_netInner n.auto n.pageWe n.curSrc) n.graph)

def cf_netMu2 (s : State) (n : NetSt) (ptrs : List (Nat × Nat)) : Nat :=
  n.curList.length + ptrs.length * (s.links.size + 2)

theorem cf_net_section2 : ∀ (F : Nat) (s : State) (n : NetSt) (ptrs : List (Nat × Nat)), n.phase2 = some ptrs →
    (netResume F s n).2 = .failed (.other "fuel") ∨
    ((netResume F s n).2 = .yielded ∧ ∃ ptrs', (netResume F s n).1.phase2 = some ptrs' ∧
      cf_netSpecP2 s (netResume F s n).1 ptrs' = cf_netSpecP2 s n ptrs ∧
      cf_netMu2 s (netResume F s n).1 ptrs' < cf_netMu2 s n ptrs) ∨
    (netResume F s n).2 = .done (.net (cf_netSpecP2 s n ptrs))
  | 0, _, _, _, _ => Or.inl rfl
  | F + 1, s, n, ptrs, hph => by
    obtain ⟨out, auto, started, stack, pend, pageWe, pointers, phase2, curSrc, curList, graph⟩ := n
    simp only at hph
    subst hph
    rw [netResume]
    simp only
    cases curList with
    | cons tw more =>
      obtain ⟨tt, w⟩ := tw
      simp only
      have hskip : ∀ g', cf_netInner auto pageWe curSrc graph (tt, w) = g' →
          cf_netSpecP2 s ⟨out, auto, started, stack, pend, pageWe, pointers, some ptrs, curSrc, more, g'⟩ ptrs =
          cf_netSpecP2 s ⟨out, auto, started, stack, pend, pageWe, pointers, some ptrs, curSrc, (tt, w) :: more, graph⟩ ptrs := by
        intro g' e
        simp only [cf_netSpecP2, List.foldl_cons, e]
      have hmu : ∀ g', cf_netMu2 s ⟨out, auto, started, stack, pend, pageWe, pointers, some ptrs, curSrc, more, g'⟩ ptrs <
          cf_netMu2 s ⟨out, auto, started, stack, pend, pageWe, pointers, some ptrs, curSrc, (tt, w) :: more, graph⟩ ptrs := by
        intro g'; simp only [cf_netMu2, List.length_cons]; omega
      have hrec : ∀ (hg : cf_netInner auto pageWe curSrc graph (tt, w) = graph),
          (netResume F s ⟨out, auto, started, stack, pend, pageWe, pointers, some ptrs, curSrc, more, graph⟩).2 = .failed (.other "fuel") ∨
          ((netResume F s ⟨out, auto, started, stack, pend, pageWe, pointers, some ptrs, curSrc, more, graph⟩).2 = .yielded ∧
            ∃ ptrs', (netResume F s ⟨out, auto, started, stack, pend, pageWe, pointers, some ptrs, curSrc, more, graph⟩).1.phase2 = some ptrs' ∧
            cf_netSpecP2 s (netResume F s ⟨out, auto, started, stack, pend, pageWe, pointers, some ptrs, curSrc, more, graph⟩).1 ptrs' =
              cf_netSpecP2 s ⟨out, auto, started, stack, pend, pageWe, pointers, some ptrs, curSrc, (tt, w) :: more, graph⟩ ptrs ∧
            cf_netMu2 s (netResume F s ⟨out, auto, started, stack, pend, pageWe, pointers, some ptrs, curSrc, more, graph⟩).1 ptrs' <
              cf_netMu2 s ⟨out, auto, started, stack, pend, pageWe, pointers, some ptrs, curSrc, (tt, w) :: more, graph⟩ ptrs) ∨
          (netResume F s ⟨out, auto, started, stack, pend, pageWe, pointers, some ptrs, curSrc, more, graph⟩).2 =
            .done (.net (cf_netSpecP2 s ⟨out, auto, started, stack, pend, pageWe, pointers, some ptrs, curSrc, (tt, w) :: more, graph⟩ ptrs)) := by
        intro hg
        rcases cf_net_section2 F s ⟨out, auto, started, stack, pend, pageWe, pointers, some ptrs, curSrc, more, graph⟩ ptrs rfl with
          h | ⟨h1, p', h2, h3, h4⟩ | h
        · exact Or.inl h
        · exact Or.inr (Or.inl ⟨h1, p', h2, h3.trans (hskip graph hg), Nat.lt_trans h4 (hmu graph)⟩)
        · exact Or.inr (Or.inr (by rw [h, hskip graph hg]))
      cases hd : dictGet? pageWe tt with
      | none =>
        simp only
        exact hrec (by simp [cf_netInner, hd])
      | some tWe =>
        simp only
        split
        · rename_i hc
          exact hrec (by simp only [cf_netInner, hd]; rw [if_pos hc])
        · rename_i hc
          refine Or.inr (Or.inl ⟨rfl, ptrs, rfl, ?_, hmu _⟩)
          exact hskip _ (by simp only [cf_netInner, hd]; rw [if_neg hc])
    | nil =>
      simp only
      cases ptrs with
      | nil => exact Or.inr (Or.inr rfl)
      | cons sh rest =>
        obtain ⟨src, head⟩ := sh
        simp only
        have hspec : cf_netSpecP2 s ⟨out, auto, started, stack, pend, pageWe, pointers, some rest, src, s.weighted head, graph⟩ rest =
            cf_netSpecP2 s ⟨out, auto, started, stack, pend, pageWe, pointers, some ((src, head) :: rest), curSrc, [], graph⟩ ((src, head) :: rest) := by
          simp only [cf_netSpecP2, List.foldl_cons, List.foldl_nil, cf_netOuter]
        have hmu : cf_netMu2 s ⟨out, auto, started, stack, pend, pageWe, pointers, some rest, src, s.weighted head, graph⟩ rest <
            cf_netMu2 s ⟨out, auto, started, stack, pend, pageWe, pointers, some ((src, head) :: rest), curSrc, [], graph⟩ ((src, head) :: rest) := by
          have := cd_weighted_length_le s head
          simp only [cf_netMu2, List.length_cons, List.length_nil, Nat.add_mul]
          omega
        rcases cf_net_section2 F s ⟨out, auto, started, stack, pend, pageWe, pointers, some rest, src, s.weighted head, graph⟩ rest rfl with
          h | ⟨h1, p', h2, h3, h4⟩ | h
        · exact Or.inl h
        · exact Or.inr (Or.inl ⟨h1, p', h2, h3.trans hspec, Nat.lt_trans h4 hmu⟩)
        · exact Or.inr (Or.inr (by rw [h, hspec]))

/-- a block of the walk that is a page inside a webentity -/
def cf_isPW (s : State) (bw : Nat × Nat) : Bool := (s.cell bw.1).flags.page && bw.2 ≠ 0

def cf_touch1 (s : State) (g : List NetRow) (bw : Nat × Nat) : List NetRow :=
  netTouch g bw.2 (fun r => if (s.cell bw.1).flags.crawled then { r with crawled := r.crawled + 1 }
                            else { r with uncrawled := r.uncrawled + 1 })

def cf_ptrOf (s : State) (out : Bool) (bw : Nat × Nat) : Option (Nat × Nat) :=
  if (if out then (s.cell bw.1).out else (s.cell bw.1).inn) ≠ 0
  then some (bw.2, if out then (s.cell bw.1).out else (s.cell bw.1).inn) else none

/-- what the atomic request computes from the blocks `rest` of the walk still to come, the dictionary, the
    pointers and the graph built so far -/
def cf_netSpecP1 (s : State) (out auto : Bool) (rest : List (Nat × Nat)) (pageWe pointers : List (Nat × Nat))
    (graph : List NetRow) : List NetRow :=
  (pointers ++ (rest.filter (cf_isPW s)).filterMap (cf_ptrOf s out)).foldl
    (cf_netOuter s auto ((rest.filter (cf_isPW s)).foldl (fun d bw => dictSet d bw.1 bw.2) pageWe))
    ((rest.filter (cf_isPW s)).foldl (cf_touch1 s) graph)

/-- the stack the next section of the first pass starts from -/
def cf_netNormStack (s : State) (n : NetSt) : List (Nat × Nat) :=
  match n.pend with
  | some (b, we, cur, c) => dfsWePush b we cur c (if n.started then n.stack else if s.trie.size ≤ 1 then [] else [(1, 0)])
  | none => if n.started then n.stack else if s.trie.size ≤ 1 then [] else [(1, 0)]

theorem cf_dfsWeGo_nil (s : State) (f : Nat) : s.dfsWeGo f [] = [] := by cases f <;> rfl

theorem cf_net_section1 : ∀ (F : Nat) (s : State) (out auto : Bool) (stack : List (Nat × Nat))
    (pageWe pointers : List (Nat × Nat)) (curSrc : Nat) (graph : List NetRow) (f : Nat), dfsWeFin s f stack →
    (netResume F s ⟨out, auto, true, stack, none, pageWe, pointers, none, curSrc, [], graph⟩).2 = .failed (.other "fuel") ∨
    ((netResume F s ⟨out, auto, true, stack, none, pageWe, pointers, none, curSrc, [], graph⟩).2 = .yielded ∧
      ((∃ f', (netResume F s ⟨out, auto, true, stack, none, pageWe, pointers, none, curSrc, [], graph⟩).1.phase2 = none ∧
          (netResume F s ⟨out, auto, true, stack, none, pageWe, pointers, none, curSrc, [], graph⟩).1.out = out ∧
          (netResume F s ⟨out, auto, true, stack, none, pageWe, pointers, none, curSrc, [], graph⟩).1.auto = auto ∧
          dfsWeFin s f' (cf_netNormStack s (netResume F s ⟨out, auto, true, stack, none, pageWe, pointers, none, curSrc, [], graph⟩).1) ∧
          cf_netSpecP1 s out auto (s.dfsWeGo f' (cf_netNormStack s (netResume F s ⟨out, auto, true, stack, none, pageWe, pointers, none, curSrc, [], graph⟩).1))
            (netResume F s ⟨out, auto, true, stack, none, pageWe, pointers, none, curSrc, [], graph⟩).1.pageWe
            (netResume F s ⟨out, auto, true, stack, none, pageWe, pointers, none, curSrc, [], graph⟩).1.pointers
            (netResume F s ⟨out, auto, true, stack, none, pageWe, pointers, none, curSrc, [], graph⟩).1.graph =
            cf_netSpecP1 s out auto (s.dfsWeGo f stack) pageWe pointers graph ∧ f' < f) ∨
       (∃ ptrs', (netResume F s ⟨out, auto, true, stack, none, pageWe, pointers, none, curSrc, [], graph⟩).1.phase2 = some ptrs' ∧
          cf_netSpecP2 s (netResume F s ⟨out, auto, true, stack, none, pageWe, pointers, none, curSrc, [], graph⟩).1 ptrs' =
            cf_netSpecP1 s out auto (s.dfsWeGo f stack) pageWe pointers graph ∧
          cf_netMu2 s (netResume F s ⟨out, auto, true, stack, none, pageWe, pointers, none, curSrc, [], graph⟩).1 ptrs' <
            pointers.length * (s.links.size + 2)))) ∨
    (netResume F s ⟨out, auto, true, stack, none, pageWe, pointers, none, curSrc, [], graph⟩).2 =
      .done (.net (cf_netSpecP1 s out auto (s.dfsWeGo f stack) pageWe pointers graph))
  | 0, _, _, _, _, _, _, _, _, _, _ => Or.inl rfl
  | F + 1, s, out, auto, stack, pageWe, pointers, curSrc, graph, f, hfin => by
    rw [netResume]
    simp only [if_true]
    cases stack with
    | nil =>
      simp only
      have hspec : cf_netSpecP2 s ⟨out, auto, true, [], none, pageWe, pointers, some pointers, curSrc, [], graph⟩ pointers =
          cf_netSpecP1 s out auto (s.dfsWeGo f []) pageWe pointers graph := by
        simp [cf_netSpecP2, cf_netSpecP1, cf_dfsWeGo_nil]
      rcases cf_net_section2 F s ⟨out, auto, true, [], none, pageWe, pointers, some pointers, curSrc, [], graph⟩ pointers rfl with
        h | ⟨h1, p', h2, h3, h4⟩ | h
      · exact Or.inl h
      · refine Or.inr (Or.inl ⟨h1, Or.inr ⟨p', h2, h3.trans hspec, ?_⟩⟩)
        simpa [cf_netMu2] using h4
      · exact Or.inr (Or.inr (by rw [h, hspec]))
    | cons top rest =>
      obtain ⟨b, we⟩ := top
      simp only
      cases f with
      | zero => exact absurd hfin (by simp [dfsWeFin])
      | succ f' =>
        have hstep := dfsWeGo_step s f' b we rest
        generalize hcur : (if (s.cell b).we ≠ 0 then (s.cell b).we else we) = cur at hstep
        have hfin' : dfsWeFin s f' (dfsWePush b we cur (s.cell b) rest) := by
          have := hfin; simp only [dfsWeFin, hcur] at this; exact this
        split
        · rename_i hc
          have hpw : cf_isPW s (b, cur) = true := hc
          refine Or.inr (Or.inl ⟨rfl, Or.inl ⟨f', rfl, rfl, rfl, hfin', ?_, Nat.lt_succ_self _⟩⟩)
          show cf_netSpecP1 s out auto (s.dfsWeGo f' (dfsWePush b we cur (s.cell b) rest)) (dictSet pageWe b cur)
            (if (if out = true then (s.cell b).out else (s.cell b).inn) ≠ 0 then
              pointers ++ [(cur, if out = true then (s.cell b).out else (s.cell b).inn)] else pointers) _ = _
          rw [hstep]
          simp only [cf_netSpecP1, List.filter_cons, hpw, if_true, List.foldl_cons, List.filterMap_cons]
          by_cases hne : (if out = true then (s.cell b).out else (s.cell b).inn) ≠ 0
          · simp only [cf_ptrOf, hne, if_true, ne_eq, not_false_eq_true, List.append_assoc, List.singleton_append]
            rfl
          · simp only [cf_ptrOf, hne, if_false]
            rfl
        · rename_i hc
          have hpw : cf_isPW s (b, cur) = false := by
            cases h : cf_isPW s (b, cur) with
            | false => rfl
            | true => exact absurd h hc
          have hspec : cf_netSpecP1 s out auto (s.dfsWeGo f' (dfsWePush b we cur (s.cell b) rest)) pageWe pointers graph =
              cf_netSpecP1 s out auto (s.dfsWeGo (f' + 1) ((b, we) :: rest)) pageWe pointers graph := by
            rw [hstep]
            simp only [cf_netSpecP1, List.filter_cons, hpw, Bool.false_eq_true, if_false]
          rcases cf_net_section1 F s out auto (dfsWePush b we cur (s.cell b) rest) pageWe pointers curSrc graph f' hfin' with
            h | ⟨h1, ⟨f'', g1, g2, g3, g4, g5, g6⟩ | ⟨p', g1, g2, g3⟩⟩ | h
          · exact Or.inl h
          · exact Or.inr (Or.inl ⟨h1, Or.inl ⟨f'', g1, g2, g3, g4, g5.trans hspec, Nat.lt_trans g6 (Nat.lt_succ_self _)⟩⟩)
          · exact Or.inr (Or.inl ⟨h1, Or.inr ⟨p', g1, g2.trans hspec, g3⟩⟩)
          · exact Or.inr (Or.inr (by rw [h, hspec]))

theorem cf_netResume_norm (F : Nat) (s : State) (n : NetSt) (hph : n.phase2 = none) (hcl : n.curList = []) :
    netResume (F + 1) s n =
      netResume (F + 1) s ⟨n.out, n.auto, true, cf_netNormStack s n, none, n.pageWe, n.pointers, none, n.curSrc, [], n.graph⟩ := by
  obtain ⟨out, auto, started, stack, pend, pageWe, pointers, phase2, curSrc, curList, graph⟩ := n
  simp only at hph hcl
  subst hph hcl
  cases started <;> cases pend <;> rfl

theorem cf_NInv.ptrs_le {s : State} {t : T} {n : NetSt} {V : List Nat} {cur rem : List cf_Ptr}
    (hinv : cf_NInv s t n V cur rem) (hph : n.phase2 = none) : n.pointers.length ≤ s.trie.size := by
  obtain ⟨e1, e2, _⟩ := hinv.ph1 hph
  subst e2
  have hnd := hinv.ownd
  simp only [List.nil_append] at hnd
  have := nodup_length_le s.trie.size _ hnd (fun a ha => by
    obtain ⟨x, hx, rfl⟩ := List.mem_map.mp ha
    exact (hinv.owns x (by simpa using hx)).lt)
  rw [← e1]
  simpa using this

/-- what the atomic request still has to compute from a state of the generator -/
def cf_netSpec (s : State) (n : NetSt) (f : Nat) : List NetRow :=
  match n.phase2 with
  | some ptrs => cf_netSpecP2 s n ptrs
  | none => cf_netSpecP1 s n.out n.auto (s.dfsWeGo f (cf_netNormStack s n)) n.pageWe n.pointers n.graph

def cf_netMu (s : State) (n : NetSt) (f : Nat) : Nat :=
  match n.phase2 with
  | some ptrs => cf_netMu2 s n ptrs
  | none => f + 1 + s.trie.size * (s.links.size + 2)

theorem cf_net_drain_aux : ∀ (N : Nat) (s : State) (t : T) (n : NetSt) (f : Nat), Shape s t → cf_SumOk s →
    cf_NetInv s t n → (n.phase2 = none → dfsWeFin s f (cf_netNormStack s n)) → cf_netMu s n f < N →
    cf_drain N s (.net n) = .net (cf_netSpec s n f)
  | 0, _, _, _, _, _, _, _, _, hN => by omega
  | N + 1, s, t, n, f, h, hg, hn, hfin, hN => by
    have hfu := cf_netResume_fuel h hg hn
    obtain ⟨V, cur, rem, hinv⟩ := hn
    rcases hr : netResume (s.trie.size + s.links.size + n.pointers.length + 3) s n with ⟨n1, o⟩
    rw [hr] at hfu
    simp only at hfu
    have hd : cf_drain (N + 1) s (.net n) =
        (match o with | .yielded => cf_drain N s (.net n1) | .done a => a | .failed e => .err e) := by
      simp only [cf_drain, CoSt.resume, hr]; cases o <;> rfl
    rw [hd]
    cases hph : n.phase2 with
    | some ptrs =>
      have hsec := cf_net_section2 (s.trie.size + s.links.size + n.pointers.length + 3) s n ptrs hph
      rw [hr] at hsec
      simp only at hsec
      have hspec : cf_netSpec s n f = cf_netSpecP2 s n ptrs := by simp only [cf_netSpec, hph]
      have hmu : cf_netMu s n f = cf_netMu2 s n ptrs := by simp only [cf_netMu, hph]
      rcases hsec with h1 | ⟨h1, p', h2, h3, h4⟩ | h1
      · exact absurd h1 hfu.1
      · subst h1
        simp only
        rw [cf_net_drain_aux N s t n1 0 h hg (hfu.2 rfl) (fun e => by rw [h2] at e; cases e)
          (by simp only [cf_netMu, h2]; omega), hspec]
        simp only [cf_netSpec, h2, h3]
      · subst h1
        simp only [hspec]
    | none =>
      have hcl := (hinv.ph1 hph).2.2
      have hpl := hinv.ptrs_le hph
      have hsec := cf_net_section1 (s.trie.size + s.links.size + n.pointers.length + 3) s n.out n.auto (cf_netNormStack s n)
        n.pageWe n.pointers n.curSrc n.graph f (hfin hph)
      rw [← cf_netResume_norm (s.trie.size + s.links.size + n.pointers.length + 2) s n hph hcl, hr] at hsec
      simp only at hsec
      have hspec : cf_netSpec s n f = cf_netSpecP1 s n.out n.auto (s.dfsWeGo f (cf_netNormStack s n)) n.pageWe n.pointers n.graph := by
        simp only [cf_netSpec, hph]
      have hmu : cf_netMu s n f = f + 1 + s.trie.size * (s.links.size + 2) := by simp only [cf_netMu, hph]
      rcases hsec with h1 | ⟨h1, ⟨f', g1, g2, g3, g4, g5, g6⟩ | ⟨p', g1, g2, g3⟩⟩ | h1
      · exact absurd h1 hfu.1
      · subst h1
        simp only
        rw [cf_net_drain_aux N s t n1 f' h hg (hfu.2 rfl) (fun _ => g4) (by simp only [cf_netMu, g1]; omega), hspec]
        simp only [cf_netSpec, g1, g2, g3, g5]
      · subst h1
        simp only
        have hle : n.pointers.length * (s.links.size + 2) ≤ s.trie.size * (s.links.size + 2) := Nat.mul_le_mul_right _ hpl
        rw [cf_net_drain_aux N s t n1 0 h hg (hfu.2 rfl) (fun e => by rw [g1] at e; cases e)
          (by simp only [cf_netMu, g1]; omega), hspec]
        simp only [cf_netSpec, g1, g2]
      · subst h1
        simp only [hspec]

theorem cf_dict_fold : ∀ (l : List (Nat × Nat)) (d : List (Nat × Nat)), (l.map (·.1)).Nodup → ∀ k,
    dictGet? (l.foldl (fun d bw => dictSet d bw.1 bw.2) d) k =
      (match dictGet? l k with | some v => some v | none => dictGet? d k)
  | [], d, _, k => by simp [dictGet?]
  | (a, v) :: l, d, hnd, k => by
    rw [List.map_cons, List.nodup_cons] at hnd
    rw [List.foldl_cons, cf_dict_fold l _ hnd.2 k, Co.dictGet?_cons]
    by_cases e : a = k
    · subst e
      have : dictGet? l a = none := by
        cases hg : dictGet? l a with
        | none => rfl
        | some w =>
          exfalso
          apply hnd.1
          unfold dictGet? at hg
          cases hf : l.find? (fun p => p.1 = a) with
          | none => simp [hf] at hg
          | some p =>
            have h1 := List.find?_some hf
            have h2 := List.mem_of_find?_eq_some hf
            simp only [decide_eq_true_eq] at h1
            exact List.mem_map.mpr ⟨p, h2, h1⟩
      rw [this, if_pos rfl]
      simp only
      exact Co.dictGet?_dictSet_self d a v
    · rw [if_neg e]
      cases dictGet? l k with
      | some w => rfl
      | none =>
        simp only
        exact Co.dictGet?_dictSet_ne d a v k (fun e' => e e'.symm)

theorem cf_netSpecP1_network {s : State} {t : T} (h : Shape s t) (out auto : Bool) :
    cf_netSpecP1 s out auto s.dfsWe [] [] [] = s.network out auto := by
  have hnd : ((s.dfsWe.filter (cf_isPW s)).map (·.1)).Nodup :=
    (dfsWe_keys_nodup h).sublist (List.filter_sublist.map _)
  have hD : ∀ k, dictGet? ((s.dfsWe.filter (cf_isPW s)).foldl (fun d bw => dictSet d bw.1 bw.2) []) k =
      dictGet? (s.dfsWe.filter (cf_isPW s)) k := by
    intro k
    rw [cf_dict_fold _ _ hnd k]
    cases dictGet? (s.dfsWe.filter (cf_isPW s)) k <;> rfl
  have hO : cf_netOuter s auto ((s.dfsWe.filter (cf_isPW s)).foldl (fun d bw => dictSet d bw.1 bw.2) []) =
      cf_netOuter s auto (s.dfsWe.filter (cf_isPW s)) := by
    funext g sh
    unfold cf_netOuter
    congr 1
    funext g' tw
    unfold cf_netInner
    rw [hD]
  unfold cf_netSpecP1
  rw [hO]
  rfl

/-- **(2) the network query drained on a fixed index = the atomic request**, on an index with the shape
    invariant whose link store satisfies `cf_SumOk` (true of every reachable index) -/
theorem cf_net_drain {s : State} {t : T} (h : Shape s t) (hg : cf_SumOk s) (out auto : Bool) (N : Nat)
    (hN : s.trie.size + 2 + s.trie.size * (s.links.size + 2) < N) :
    cf_drain N s (.net { out := out, auto := auto }) = s.ask (.network out auto false) := by
  have hstack : cf_netNormStack s { out := out, auto := auto } = if s.trie.size ≤ 1 then [] else [(1, 0)] := rfl
  have hfin : dfsWeFin s (s.trie.size + 1) (cf_netNormStack s { out := out, auto := auto }) := by
    rw [hstack]
    have hroot := h.root
    by_cases hsz : s.trie.size ≤ 1
    · rw [if_pos hsz]; trivial
    · rw [if_neg hsz] at hroot ⊢
      cases t with
      | nil => simp at hroot
      | node a l c r =>
        simp only [T.root_node] at hroot
        subst hroot
        have hle := h.size_le
        have := dfsWeFin_of_stackRep (s := s) (s.trie.size + 1) [(T.node 1 l c r, 0)]
          (by intro p hp; simp only [List.mem_singleton] at hp; subst hp; exact ⟨h.rep, by simp⟩)
          (by simp only [stackSize_cons, stackSize_nil]; omega)
        simpa using this
  rw [cf_net_drain_aux N s t { out := out, auto := auto } (s.trie.size + 1) h hg (cf_NetInv.init s t out auto)
    (fun _ => hfin) (by simp only [cf_netMu]; omega)]
  have hwe : s.dfsWeGo (s.trie.size + 1) (cf_netNormStack s { out := out, auto := auto }) = s.dfsWe := by
    rw [hstack]
    unfold dfsWe
    by_cases hsz : s.trie.size ≤ 1
    · rw [if_pos hsz, if_pos hsz, cf_dfsWeGo_nil]
    · rw [if_neg hsz, if_neg hsz]
  show Ans.net (cf_netSpecP1 s out auto (s.dfsWeGo (s.trie.size + 1) (cf_netNormStack s { out := out, auto := auto })) [] [] []) = _
  rw [hwe, cf_netSpecP1_network h]
  simp [State.ask]

/-- **(2) both generators with recomputed fuel: drained = atomic** for all sufficiently many `next()` -/
theorem cf_drain_atomic {s : State} {t : T} (h : Shape s t) (hg : cf_SumOk s) (ps : List Bytes)
    (hwf : ∀ pf ∈ ps, lruIter pf ≠ []) (out auto : Bool) :
    ∃ N0, ∀ N, N0 ≤ N →
      cf_drain N s (.pages { prefixes := ps }) = s.ask (.pages ps) ∧
      cf_drain N s (.net { out := out, auto := auto }) = s.ask (.network out auto false) :=
  ⟨ps.length * (s.trie.size + 2) + (s.trie.size + 2 + s.trie.size * (s.links.size + 2)) + 1, fun N hN =>
    ⟨cf_pages_drain h ps hwf N (by omega), cf_net_drain h hg out auto N (by omega)⟩⟩

/-- the same in every state reached from a fresh index by write requests (without `clear`, for the shape theorem used) -/
theorem cf_drain_atomic_run (cfg : Config) (dflt : Rule) (rules : List (Bytes × Rule)) (ops : List Op)
    (hop : ∀ op ∈ ops, ∀ d rs, op ≠ .clear d rs) (ps : List Bytes)
    (hwf : ∀ pf ∈ ps, lruIter pf ≠ []) (out auto : Bool) :
    ∃ N0, ∀ N, N0 ≤ N →
      cf_drain N ((State.fresh cfg dflt rules []).1.run ops) (.pages { prefixes := ps }) =
        ((State.fresh cfg dflt rules []).1.run ops).ask (.pages ps) ∧
      cf_drain N ((State.fresh cfg dflt rules []).1.run ops) (.net { out := out, auto := auto }) =
        ((State.fresh cfg dflt rules []).1.run ops).ask (.network out auto false) := by
  obtain ⟨t, h⟩ := shape_run cfg dflt rules ops hop
  exact cf_drain_atomic h (cf_sumOk_reachable cfg dflt rules ops) ps hwf out auto

set_option maxRecDepth 1000000 in
/-- the index and the request (the same prefix twice) on which the drained page query answered "fuel" with the old
    constant (`cf_old_pages_fuel_insufficient_dup`): the drained machine now answers what the atomic request answers,
    `[]` (kernel-checked instance of `cf_pages_drain`) -/
theorem cf_pages_drain_dup :
    cf_drain 100 (cf_idx "a|b|c|") (.pages { prefixes := [cf_b "a|", cf_b "a|"] }) = .pages [] ∧
    (cf_idx "a|b|c|").ask (.pages [cf_b "a|", cf_b "a|"]) = .pages [] := by decide +kernel

set_option maxRecDepth 1000000 in
/-- the same for the nested prefixes of `cf_old_pages_fuel_insufficient_nested` -/
theorem cf_pages_drain_nested :
    cf_drain 100 (cf_idx "a|b|c|d|") (.pages { prefixes := [cf_b "a|", cf_b "a|b|"] }) = .pages [] ∧
    (cf_idx "a|b|c|d|").ask (.pages [cf_b "a|", cf_b "a|b|"]) = .pages [] := by decide +kernel

#print axioms cf_pages_drain
#print axioms cf_net_drain
#print axioms cf_drain_atomic_run
#print axioms cf_pages_drain_dup
#print axioms cf_pages_drain_nested

end Traph

import Proofs.CoSchedules
import Proofs.LinkBagC03
/-! C16 — the link multigraph under interleaving, one section at a time.

    `index_batch_crawl_iter` writes the out-list of a source when the source's targets are exhausted and all
    in-lists in a second pass, one target per section. Between the moment a pair (source, target) is
    *submitted* (its target block is recorded in `target_blocks`) and the moment the two stubs are written the
    pair is *pending*: on the out side it sits in `cur.target_blocks` (`cl_pendOut`), on the in side in the
    `inlinks` multimap, or — for a target created in the section that has just yielded — in the local variable
    the generator appends after the `yield` (`cl_pendIn`).

    `cl_batchResume_sec`: every section of the crawl-batch generator, whatever the index has become since the
    last one, adds to the bags exactly what leaves the pending sets, and what enters the pending sets is a
    prefix of the links the generator has still to submit (`BatchSt.linksTodo`). -/
namespace Traph
open State Layout

/-! ### the page cache of the generator as a block map -/

/-- the generator has the LRU in its page cache -/
def cl_cached (pages : List (Bytes × Nat × Bool)) (l : Bytes) : Prop := (pagesGet pages l).isSome

theorem cl_pageBlock_set_self (pages : List (Bytes × Nat × Bool)) (k : Bytes) (v : Nat × Bool) :
    pageBlock (pagesSet pages k v) k = v.1 := by
  unfold pageBlock pagesGet pagesSet
  rw [Co.dictGet?_dictSet_self]; rfl

theorem cl_pageBlock_set_ne (pages : List (Bytes × Nat × Bool)) (k : Bytes) (v : Nat × Bool) (l : Bytes)
    (h : l ≠ k) : pageBlock (pagesSet pages k v) l = pageBlock pages l := by
  unfold pageBlock pagesGet pagesSet
  rw [Co.dictGet?_dictSet_ne _ _ _ _ h]

/-- re-caching a key with its own block changes no block -/
theorem cl_pageBlock_set_same (pages : List (Bytes × Nat × Bool)) (k : Bytes) (c : Bool) (l : Bytes) :
    pageBlock (pagesSet pages k (pageBlock pages k, c)) l = pageBlock pages l := by
  by_cases e : l = k
  · subst e; rw [cl_pageBlock_set_self]
  · exact cl_pageBlock_set_ne pages k _ l e

theorem cl_cached_set (pages : List (Bytes × Nat × Bool)) (k : Bytes) (v : Nat × Bool) (l : Bytes)
    (h : cl_cached pages l) : cl_cached (pagesSet pages k v) l :=
  Co.dictGet?_dictSet_isSome pages k v l h

theorem cl_cached_set_self (pages : List (Bytes × Nat × Bool)) (k : Bytes) (v : Nat × Bool) :
    cl_cached (pagesSet pages k v) k := by
  unfold cl_cached pagesGet pagesSet
  rw [Co.dictGet?_dictSet_self]; rfl

theorem cl_not_cached_ne {pages : List (Bytes × Nat × Bool)} {k l : Bytes} (hk : pagesGet pages k = none)
    (hl : cl_cached pages l) : l ≠ k := by
  intro e
  subst e
  unfold cl_cached at hl
  rw [hk] at hl
  cases hl

/-- what the cache knows about a cached LRU, in an index the cache is sound for -/
theorem cl_cache_node {s : State} {t : T} {pages : List (Bytes × Nat × Bool)} (h : Shape s t)
    (hc : PCacheOk s t pages) {l : Bytes} {n : Nat} {c : Bool} (hg : pagesGet pages l = some (n, c)) :
    s.lruNode (lruIter l) = some n ∧ IsPage s t (lruIter l) ∧ n < s.trie.size ∧ pageBlock pages l = n := by
  obtain ⟨h1, h2, _⟩ := hc l n c (co_pagesGet_mem hg)
  have hne : lruIter l ≠ [] := by
    obtain ⟨x, rest, e⟩ := entries_prefix t [] _ n h1
    rw [e]; simp
  exact ⟨(lruNode_iff_entries h _ hne n).mpr h1, ⟨n, h1, h2⟩, entry_lt h h1, co_pageBlock_of_get hg⟩

theorem cl_cache_node' {s : State} {t : T} {pages : List (Bytes × Nat × Bool)} (h : Shape s t)
    (hc : PCacheOk s t pages) {l : Bytes} (hg : cl_cached pages l) :
    s.lruNode (lruIter l) = some (pageBlock pages l) ∧ IsPage s t (lruIter l) ∧
      pageBlock pages l < s.trie.size := by
  obtain ⟨⟨n, c⟩, hg'⟩ := Option.isSome_iff_exists.mp hg
  obtain ⟨a1, a2, a3, a4⟩ := cl_cache_node h hc hg'
  rw [a4]
  exact ⟨a1, a2, a3⟩

/-! ### multimaps all of whose keys and values satisfy a predicate -/

def cl_AllIn (P : Bytes → Prop) (d : List (Bytes × List Bytes)) : Prop :=
  ∀ kv ∈ d, P kv.1 ∧ ∀ v ∈ kv.2, P v

theorem cl_allIn_nil (P : Bytes → Prop) : cl_AllIn P [] := fun _ h => by simp at h

theorem cl_AllIn.imp {P Q : Bytes → Prop} (hpq : ∀ l, P l → Q l) {d : List (Bytes × List Bytes)}
    (h : cl_AllIn P d) : cl_AllIn Q d :=
  fun kv hkv => ⟨hpq _ (h kv hkv).1, fun v hv => hpq _ ((h kv hkv).2 v hv)⟩

theorem cl_AllIn.tail {P : Bytes → Prop} {kv : Bytes × List Bytes} {d : List (Bytes × List Bytes)}
    (h : cl_AllIn P (kv :: d)) : cl_AllIn P d := fun x hx => h x (List.mem_cons_of_mem _ hx)

theorem cl_allIn_multiAdd (P : Bytes → Prop) : ∀ (d : List (Bytes × List Bytes)) (k v : Bytes),
    cl_AllIn P d → P k → P v → cl_AllIn P (multiAdd d k v)
  | [], k, v, _, hk, hv => by
    intro kv hm
    simp only [multiAdd, List.mem_singleton] at hm
    subst hm
    exact ⟨hk, fun x hx => by simp only [List.mem_singleton] at hx; subst hx; exact hv⟩
  | (k', vs) :: rest, k, v, hd, hk, hv => by
    intro kv hm
    unfold multiAdd at hm
    split at hm
    · rcases List.mem_cons.mp hm with rfl | hm
      · refine ⟨(hd (k', vs) (by simp)).1, fun x hx => ?_⟩
        rcases List.mem_append.mp hx with hx | hx
        · exact (hd (k', vs) (by simp)).2 x hx
        · simp only [List.mem_singleton] at hx; subst hx; exact hv
      · exact hd kv (by simp [hm])
    · rcases List.mem_cons.mp hm with rfl | hm
      · exact hd (k', vs) (by simp)
      · exact cl_allIn_multiAdd P rest k v (fun x hx => hd x (by simp [hx])) hk hv kv hm

/-- the multiplicities a multimap files depend on the block map only through its keys and values -/
theorem cl_mcount_congr (blk blk' : Bytes → Nat) : ∀ (d : List (Bytes × List Bytes)),
    cl_AllIn (fun l => blk' l = blk l) d → ∀ b x, mcount blk' d b x = mcount blk d b x
  | [], _, _, _ => rfl
  | (p, os) :: rest, h, b, x => by
    simp only [mcount]
    obtain ⟨e1, e2⟩ := h (p, os) (by simp)
    rw [cl_mcount_congr blk blk' rest h.tail b x, e1, List.map_congr_left e2]

/-! ### what a crawl-batch generator has submitted but not yet written -/

/-- the pairs the generator has still to submit, in the order in which it will submit them -/
def BatchSt.linksTodo (b : BatchSt) : List (Bytes × Bytes) :=
  (match b.cur with
   | some (src, tgts, _) => tgts.map (fun x => (src, x))
   | none => []) ++ batchLinks b.data

/-- out-links (source block `a`, target block `x`) submitted and not yet in the out-list of `a`:
    the `target_blocks` of the source in progress -/
def cl_pendOut (b : BatchSt) (a x : Nat) : Nat :=
  match b.cur with
  | some (src, _, tb) => if pageBlock b.pages src = a then count x tb else 0
  | none => 0

/-- the in-link the generator records right after the `yield` that follows the creation of a target -/
def cl_pendTerm (b : BatchSt) (a x : Nat) : Nat :=
  match b.pendIn, b.cur with
  | some t, some (src, _, _) => if pageBlock b.pages src = a ∧ pageBlock b.pages t = x then 1 else 0
  | _, _ => 0

/-- in-links (source block `a`, target block `x`) submitted and not yet in the in-list of `x`: the
    `inlinks` multimap (first pass), what is left of it (second pass) -/
def cl_pendIn (b : BatchSt) (a x : Nat) : Nat :=
  match b.flush with
  | some l => mcount (pageBlock b.pages) l x a
  | none => mcount (pageBlock b.pages) b.inl x a + cl_pendTerm b a x

/-- number of stubs submitted and not yet written -/
def cl_pendN (b : BatchSt) : Nat :=
  (match b.cur with | some (_, _, tb) => tb.length | none => 0) +
  (match b.flush with
   | some l => multiTotal l
   | none => multiTotal b.inl + (match b.pendIn, b.cur with | some _, some _ => 1 | _, _ => 0))

/-- local invariant (links): everything in the multimaps is cached; the deferred in-link belongs to a source
    in progress -/
structure cl_BatchLk (b : BatchSt) : Prop where
  inl  : cl_AllIn (cl_cached b.pages) b.inl
  fl   : ∀ l, b.flush = some l → cl_AllIn (cl_cached b.pages) l
  pend : ∀ t, b.pendIn = some t → cl_cached b.pages t ∧ b.cur ≠ none

theorem cl_batchLk_init (data : List (Bytes × List Bytes)) : cl_BatchLk (BatchSt.init data) :=
  ⟨cl_allIn_nil _, fun _ h => by simp [BatchSt.init] at h, fun _ h => by simp [BatchSt.init] at h⟩

/-- the hypotheses a section starts from -/
structure cl_BHyp (s : State) (t : T) (b : BatchSt) : Prop where
  inv : Inv s t
  bok : BatchOk s t b
  lok : LinksOk s
  lk  : cl_BatchLk b

/-- what a section (or one loop iteration) does to bags and pending sets; `A` are the pairs it submits -/
structure cl_BLinks (s : State) (b : BatchSt) (s' : State) (b' : BatchSt) (t' : T) (A : List (Bytes × Bytes)) :
    Prop where
  todo : b.linksTodo = A ++ b'.linksTodo
  pgs  : ∀ st ∈ A, IsPage s' t' (lruIter st.1) ∧ IsPage s' t' (lruIter st.2)
  out  : ∀ a x, count x (s'.bag true a) + cl_pendOut b' a x =
           count x (s.bag true a) + cl_pendOut b a x + ncount s' A a x
  inn  : ∀ a x, count a (s'.bag false x) + cl_pendIn b' a x =
           count a (s.bag false x) + cl_pendIn b a x + ncount s' A a x
  size : s'.links.size + cl_pendN b' = s.links.size + cl_pendN b + 2 * A.length
  /-- the in side never runs ahead of the out side -/
  le   : (∀ a x, cl_pendOut b a x ≤ cl_pendIn b a x) → ∀ a x, cl_pendOut b' a x ≤ cl_pendIn b' a x

theorem cl_ncount_nil (s : State) (a x : Nat) : ncount s [] a x = 0 := rfl

theorem cl_ncount_single (s : State) (p q : Bytes) {bp bq : Nat} (hp : s.lruNode (lruIter p) = some bp)
    (hq : s.lruNode (lruIter q) = some bq) (a x : Nat) :
    ncount s [(p, q)] a x = if bp = a ∧ bq = x then 1 else 0 := by
  unfold ncount
  simp only [List.filter_cons, List.filter_nil, hp, hq, Option.some.injEq]
  by_cases h : bp = a ∧ bq = x
  · simp [h]
  · simp [h]

/-- a step that writes no list and submits nothing -/
theorem cl_BLinks.of_ptrEq {s s1 : State} {b b1 : BatchSt} {t1 : T} (p : PtrEq s s1)
    (todo : b.linksTodo = b1.linksTodo)
    (po : ∀ a x, cl_pendOut b1 a x = cl_pendOut b a x) (pi : ∀ a x, cl_pendIn b1 a x = cl_pendIn b a x)
    (pn : cl_pendN b1 = cl_pendN b) : cl_BLinks s b s1 b1 t1 [] where
  todo := by rw [todo, List.nil_append]
  pgs := fun st h => by simp at h
  out := fun a x => by rw [p.bag, po, cl_ncount_nil]; omega
  inn := fun a x => by rw [p.bag, pi, cl_ncount_nil]; omega
  size := by rw [p.size, pn]; simp
  le := fun hle a x => by rw [po, pi]; exact hle a x

/-- a step that writes no list and submits one pair -/
theorem cl_BLinks.of_ptrEq_one {s s1 : State} {b b1 : BatchSt} {t1 : T} (p : PtrEq s s1) (src tg : Bytes)
    (todo : b.linksTodo = (src, tg) :: b1.linksTodo) {bs bt : Nat}
    (hs : s1.lruNode (lruIter src) = some bs) (ht : s1.lruNode (lruIter tg) = some bt)
    (ps : IsPage s1 t1 (lruIter src)) (pt : IsPage s1 t1 (lruIter tg))
    (po : ∀ a x, cl_pendOut b1 a x = cl_pendOut b a x + (if bs = a ∧ bt = x then 1 else 0))
    (pi : ∀ a x, cl_pendIn b1 a x = cl_pendIn b a x + (if bs = a ∧ bt = x then 1 else 0))
    (pn : cl_pendN b1 = cl_pendN b + 2) : cl_BLinks s b s1 b1 t1 [(src, tg)] where
  todo := by rw [todo]; rfl
  pgs := fun st h => by
    simp only [List.mem_singleton] at h
    subst h
    exact ⟨ps, pt⟩
  out := fun a x => by rw [p.bag, po, cl_ncount_single s1 src tg hs ht]; omega
  inn := fun a x => by rw [p.bag, pi, cl_ncount_single s1 src tg hs ht]; omega
  size := by rw [p.size, pn, List.length_singleton]; omega
  le := fun hle a x => by rw [po, pi]; exact Nat.add_le_add_right (hle a x) _

/-- what one section of the crawl batch does to the links (`r` is the result of `batchResume fuel s b`) -/
structure cl_BSec (s : State) (t : T) (b : BatchSt) (r : State × BatchSt × CoOut) : Prop where
  par  : LinkBag.ParKeeps s r.1
  spec : cl_BHyp s t b → (∀ e, r.2.2 ≠ .failed e) →
    ∃ t' A, Ext s t r.1 t' ∧ s ⊑ r.1 ∧ cl_BHyp r.1 t' r.2.1 ∧ cl_BLinks s b r.1 r.2.1 t' A ∧
      (∀ a, r.2.2 = .done a → r.2.1.linksTodo = [] ∧ (∀ a x, cl_pendOut r.2.1 a x = 0) ∧
        (∀ a x, cl_pendIn r.2.1 a x = 0) ∧ cl_pendN r.2.1 = 0)

/-- the last iteration of a section -/
theorem cl_BSec.stop {s : State} {t t' : T} {b : BatchSt} {r : State × BatchSt × CoOut}
    (x1 : Ext s t r.1 t') (l1 : s ⊑ r.1) (p1 : LinkBag.ParKeeps s r.1)
    (h1 : cl_BHyp s t b → ∃ A, cl_BHyp r.1 t' r.2.1 ∧ cl_BLinks s b r.1 r.2.1 t' A)
    (hd : cl_BHyp s t b → ∀ a, r.2.2 = .done a → r.2.1.linksTodo = [] ∧ (∀ a x, cl_pendOut r.2.1 a x = 0) ∧
        (∀ a x, cl_pendIn r.2.1 a x = 0) ∧ cl_pendN r.2.1 = 0) : cl_BSec s t b r where
  par := p1
  spec := fun hy _ => by
    obtain ⟨A, g1, g2⟩ := h1 hy
    exact ⟨t', A, x1, l1, g1, g2, hd hy⟩

/-- an iteration of the loop that does not yield, followed by the rest of the section -/
theorem cl_BSec.compose {s s1 : State} {t t1 : T} {b b1 : BatchSt} {r : State × BatchSt × CoOut}
    (x1 : Ext s t s1 t1) (l1 : s ⊑ s1) (p1 : LinkBag.ParKeeps s s1)
    (h1 : cl_BHyp s t b → ∃ A1, cl_BHyp s1 t1 b1 ∧ cl_BLinks s b s1 b1 t1 A1)
    (h2 : cl_BSec s1 t1 b1 r) : cl_BSec s t b r where
  par := p1.trans h2.par
  spec := fun hy hnf => by
    obtain ⟨A1, y1, k1⟩ := h1 hy
    obtain ⟨t', A2, x2, l2, y2, k2, hd⟩ := h2.spec y1 hnf
    have hnc : ∀ a x, ncount r.1 (A1 ++ A2) a x = ncount s1 A1 a x + ncount r.1 A2 a x := fun a x => by
      rw [ncount_append, ncount_ext x1.shape x2 k1.pgs]
    refine ⟨t', A1 ++ A2, x1.trans x2, l1.trans l2, y2, ⟨?_, ?_, ?_, ?_, ?_, fun hle => k2.le (k1.le hle)⟩, hd⟩
    · rw [k1.todo, k2.todo, List.append_assoc]
    · intro st hst
      rcases List.mem_append.mp hst with hst | hst
      · exact ⟨(k1.pgs st hst).1.co_mono x1.shape x2 l2, (k1.pgs st hst).2.co_mono x1.shape x2 l2⟩
      · exact k2.pgs st hst
    · intro a x
      have e1 := k1.out a x
      have e2 := k2.out a x
      rw [hnc]; omega
    · intro a x
      have e1 := k1.inn a x
      have e2 := k2.inn a x
      rw [hnc]; omega
    · have e1 := k1.size
      have e2 := k2.size
      rw [List.length_append]; omega

/-! ### the second pass: one in-list per section -/

theorem cl_iter_flush (fuel : Nat) {s : State} {t : T} (h : Shape s t) (data : List (Bytes × List Bytes))
    (cur : Option (Bytes × List Bytes × List Nat)) (pendIn : Option Bytes) (pages : List (Bytes × Nat × Bool))
    (inl fl : List (Bytes × List Bytes)) (rep : Report) :
    cl_BSec s t ⟨data, cur, pendIn, pages, inl, some fl, rep⟩
      (batchResume (fuel + 1) s ⟨data, cur, pendIn, pages, inl, some fl, rep⟩) := by
  rw [batchResume]
  cases fl with
  | nil =>
    refine cl_BSec.stop (Ext.refl h) (Le.refl s) (LinkBag.ParKeeps.refl s)
      (fun hy => ⟨[], hy, cl_BLinks.of_ptrEq (PtrEq.refl s) rfl (fun _ _ => rfl) (fun _ _ => rfl) rfl⟩)
      (fun hy a _ => ?_)
    obtain ⟨e1, e2⟩ := hy.bok.phase [] rfl
    simp only at e1 e2
    subst e1 e2
    exact ⟨rfl, fun _ _ => rfl, fun _ _ => rfl, rfl⟩
  | cons ts rest =>
    obtain ⟨tg, srcs⟩ := ts
    simp only
    have k := keeps_addStubs h (pageBlock pages tg) (srcs.map (pageBlock pages)) false
    have l := le_addStubs s (pageBlock pages tg) (srcs.map (pageBlock pages)) false
    refine cl_BSec.stop k.ext l (LinkBag.parKeeps_addStubs s _ _ false) (fun hy => ?_)
      (fun _ a ho => by simp at ho)
    have hcached : cl_cached pages tg := (hy.lk.fl _ rfl (tg, srcs) (by simp)).1
    obtain ⟨_, _, hlt⟩ := cl_cache_node' h hy.bok.cache hcached
    obtain ⟨lok1, _⟩ := addStubs_bag hy.lok _ hlt (srcs.map (pageBlock pages)) false
    have cnt := addStubs_count hy.lok _ hlt (srcs.map (pageBlock pages)) false
    have hb := hy.bok
    refine ⟨[], ⟨(k.adds hy.inv).inv, ⟨hb.cache.mono h k.ext l, hb.wfData, hb.wfCur, fun l' _ => hb.phase _ rfl⟩,
      lok1, ⟨hy.lk.inl, fun l' e => ?_, hy.lk.pend⟩⟩, ⟨rfl, fun st hst => by simp at hst, fun a x => ?_, fun a x => ?_, ?_,
        fun _ a x => ?_⟩⟩
    · simp only [Option.some.injEq] at e
      subst e
      exact (hy.lk.fl _ rfl).tail
    · rw [cnt true a x, cl_ncount_nil]
      simp only [Bool.true_eq_false, false_and, if_false, Nat.add_zero]
      rfl
    · rw [cnt false x a, cl_ncount_nil]
      simp only [cl_pendIn, mcount, true_and]
      by_cases e : x = pageBlock pages tg
      · rw [if_pos e, if_pos e.symm]; omega
      · rw [if_neg e, if_neg (fun e' => e e'.symm)]; omega
    · rw [addStubs_size]
      simp only [cl_pendN, multiTotal_cons, List.length_map, List.length_nil]
      omega
    · obtain ⟨_, e2⟩ := hb.phase _ rfl
      simp only at e2
      subst e2
      exact Nat.zero_le _

/-! ### the deferred in-link: absorbing it first does not change what the section does -/

theorem cl_BSec.of_norm {s : State} {t : T} {r : State × BatchSt × CoOut} (data : List (Bytes × List Bytes))
    (src : Bytes) (tgts : List Bytes) (tb : List Nat) (t0 : Bytes) (pages : List (Bytes × Nat × Bool))
    (inl : List (Bytes × List Bytes)) (rep : Report)
    (h : cl_BSec s t ⟨data, some (src, tgts, tb), none, pages, multiAdd inl t0 src, none, rep⟩ r) :
    cl_BSec s t ⟨data, some (src, tgts, tb), some t0, pages, inl, none, rep⟩ r where
  par := h.par
  spec := fun hy hnf => by
    have hb := hy.bok
    obtain ⟨hsome, _⟩ := hb.wfCur src tgts tb rfl
    obtain ⟨ht0, _⟩ := hy.lk.pend t0 rfl
    have hy' : cl_BHyp s t ⟨data, some (src, tgts, tb), none, pages, multiAdd inl t0 src, none, rep⟩ :=
      ⟨hy.inv, ⟨hb.cache, hb.wfData, hb.wfCur, hb.phase⟩, hy.lok,
        ⟨cl_allIn_multiAdd _ _ _ _ hy.lk.inl ht0 hsome, fun _ e => by simp at e, fun _ e => by simp at e⟩⟩
    obtain ⟨t', A, x, l, y, k, hd⟩ := h.spec hy' hnf
    have e2 : ∀ a x', cl_pendIn ⟨data, some (src, tgts, tb), none, pages, multiAdd inl t0 src, none, rep⟩ a x' =
        cl_pendIn ⟨data, some (src, tgts, tb), some t0, pages, inl, none, rep⟩ a x' := by
      intro a x'
      simp only [cl_pendIn, cl_pendTerm, mcount_multiAdd, Nat.add_zero]
      by_cases e1 : pageBlock pages src = a <;> by_cases e2 : pageBlock pages t0 = x' <;> simp [e1, e2]
    refine ⟨t', A, x, l, y, ⟨k.todo, k.pgs, k.out, fun a x' => ?_, ?_,
      fun hle => k.le (fun a x' => by rw [e2]; exact hle a x')⟩, hd⟩
    · have e := k.inn a x'
      have e2 : cl_pendIn ⟨data, some (src, tgts, tb), none, pages, multiAdd inl t0 src, none, rep⟩ a x' =
          cl_pendIn ⟨data, some (src, tgts, tb), some t0, pages, inl, none, rep⟩ a x' := by
        simp only [cl_pendIn, cl_pendTerm, mcount_multiAdd, Nat.add_zero]
        by_cases e1 : pageBlock pages src = a <;> by_cases e2 : pageBlock pages t0 = x' <;> simp [e1, e2]
      rw [← e2]; exact e
    · have e := k.size
      have e2 : cl_pendN ⟨data, some (src, tgts, tb), none, pages, multiAdd inl t0 src, none, rep⟩ =
          cl_pendN ⟨data, some (src, tgts, tb), some t0, pages, inl, none, rep⟩ := by
        simp only [cl_pendN, multiAdd_total, Nat.add_zero]
      rw [← e2]; exact e

/-! ### the first pass, between two sources -/

theorem cl_mcount_set_new {pages : List (Bytes × Nat × Bool)} {k : Bytes} (hk : pagesGet pages k = none)
    (v : Nat × Bool) {d : List (Bytes × List Bytes)} (hd : cl_AllIn (cl_cached pages) d) (b x : Nat) :
    mcount (pageBlock (pagesSet pages k v)) d b x = mcount (pageBlock pages) d b x :=
  cl_mcount_congr _ _ d (hd.imp (fun l hl => cl_pageBlock_set_ne pages k v l (cl_not_cached_ne hk hl))) b x

theorem cl_pageBlock_set_same_fun (pages : List (Bytes × Nat × Bool)) (k : Bytes) (c : Bool) :
    pageBlock (pagesSet pages k (pageBlock pages k, c)) = pageBlock pages :=
  funext (cl_pageBlock_set_same pages k c)

theorem cl_iter_data (fuel : Nat) {s : State} {t : T} (h : Shape s t) (data : List (Bytes × List Bytes))
    (pendIn : Option Bytes) (pages : List (Bytes × Nat × Bool)) (inl : List (Bytes × List Bytes)) (rep : Report)
    (ih : ∀ (s1 : State) (t1 : T) (b1 : BatchSt), Shape s1 t1 → cl_BSec s1 t1 b1 (batchResume fuel s1 b1)) :
    cl_BSec s t ⟨data, none, pendIn, pages, inl, none, rep⟩
      (batchResume (fuel + 1) s ⟨data, none, pendIn, pages, inl, none, rep⟩) := by
  have h0 : 0 < s.trie.size := h.live
  rw [batchResume]
  cases data with
  | nil =>
    simp only
    refine cl_BSec.compose (Ext.refl h) (Le.refl s) (LinkBag.ParKeeps.refl s) (fun hy => ?_) (ih s t _ h)
    have hb := hy.bok
    refine ⟨[], ⟨hy.inv, ⟨hb.cache, hb.wfData, hb.wfCur, fun _ _ => ⟨rfl, rfl⟩⟩, hy.lok,
      ⟨hy.lk.inl, fun l e => ?_, hy.lk.pend⟩⟩,
      cl_BLinks.of_ptrEq (PtrEq.refl s) rfl (fun _ _ => rfl) (fun a x => ?_) ?_⟩
    · simp only [Option.some.injEq] at e
      subst e
      exact hy.lk.inl
    · cases pendIn <;> simp [cl_pendIn, cl_pendTerm]
    · cases pendIn <;> simp [cl_pendN]
  | cons d more =>
    obtain ⟨src, tgts⟩ := d
    simp only
    cases hg : pagesGet pages src with
    | none =>
      simp only
      obtain ⟨t1, x1, f1⟩ := addPageCore_step h src true
      have l1 := le_addPageCore s src true h0
      have p1 := ptrEq_addPageCore s src true
      have q1 := LinkBag.parKeeps_addPageCore s src true
      rcases ha : s.addPageCore src true with ⟨s1, n, res⟩
      rw [ha] at x1 f1 l1 p1 q1
      simp only at x1 f1 l1 p1 q1
      cases res with
      | error e =>
        simp only
        exact ⟨q1, fun _ hnf => absurd rfl (hnf e)⟩
      | ok r =>
        simp only
        refine cl_BSec.compose x1 l1 q1 (fun hy => ?_) (ih s1 t1 _ x1.shape)
        have hb := hy.bok
        obtain ⟨hne, hnt⟩ := hb.wfData (src, tgts) (by simp)
        obtain ⟨g1, g2, g3⟩ := f1 hne
        have hpn : pendIn = none := by
          cases pendIn with
          | none => rfl
          | some t0 => exact absurd rfl (hy.lk.pend t0 rfl).2
        subst hpn
        refine ⟨[], ⟨(g3 hy.inv).1.inv, ⟨?_, ?_, ?_, ?_⟩, p1.linksOk hy.lok,
          ⟨hy.lk.inl.imp (fun l hl => cl_cached_set pages src _ l hl), fun _ e => by simp at e, fun _ e => by simp at e⟩⟩,
          cl_BLinks.of_ptrEq p1 ?_ (fun a x => ?_) (fun a x => ?_) ?_⟩
        · exact (hb.cache.mono h x1 l1).set g1 g2 (fun hc => hc)
        · intro d hd; exact hb.wfData d (List.mem_cons_of_mem _ hd)
        · intro src' tgts' tb' e
          simp only [Option.some.injEq, Prod.mk.injEq] at e
          obtain ⟨rfl, rfl, rfl⟩ := e
          exact ⟨cl_cached_set_self pages src _, hnt⟩
        · intro l' hl; simp at hl
        · simp only [BatchSt.linksTodo, batchLinks_cons, List.nil_append]
        · simp [cl_pendOut]
        · simp only [cl_pendIn, cl_pendTerm, Nat.add_zero]
          exact cl_mcount_set_new hg _ hy.lk.inl x a
        · simp [cl_pendN]
    | some v =>
      obtain ⟨n, cc⟩ := v
      simp only
      have hpb : pageBlock pages src = n := co_pageBlock_of_get hg
      cases cc with
      | false =>
        simp only [Bool.not_false, if_true]
        have x1 := ext_markCrawled h n
        have l1 : s ⊑ s.modCell n (fun c => { c with flags := { c.flags with crawled := true } }) :=
          le_modCell _ _ _ (fun c _ => cellLe_flags_crawled c)
        have p1 : PtrEq s (s.modCell n (fun c => { c with flags := { c.flags with crawled := true } })) :=
          ptrEq_modCell s n _ (fun _ => ⟨rfl, rfl⟩)
        refine cl_BSec.compose x1 l1 (LinkBag.parKeeps_setCrawled s n) (fun hy => ?_) (ih _ t _ x1.shape)
        have hb := hy.bok
        obtain ⟨hne, hnt⟩ := hb.wfData (src, tgts) (by simp)
        obtain ⟨c1, c2, _⟩ := hb.cache src n false (co_pagesGet_mem hg)
        have hlt := entry_lt h c1
        have hpn : pendIn = none := by
          cases pendIn with
          | none => rfl
          | some t0 => exact absurd rfl (hy.lk.pend t0 rfl).2
        subst hpn
        subst hpb
        refine ⟨[], ⟨(adds_markCrawled h hy.inv c1 c2).inv, ⟨?_, ?_, ?_, ?_⟩, p1.linksOk hy.lok,
          ⟨hy.lk.inl.imp (fun l hl => cl_cached_set pages src _ l hl), fun _ e => by simp at e, fun _ e => by simp at e⟩⟩,
          cl_BLinks.of_ptrEq p1 ?_ (fun a x => ?_) (fun a x => ?_) ?_⟩
        · refine (hb.cache.mono h x1 l1).set (x1.keep _ _ c1) ((l1.cell_le _ hlt).page c2) (fun _ => ?_)
          rw [cell_modCell, if_pos ⟨rfl, hlt⟩]
        · intro d hd; exact hb.wfData d (List.mem_cons_of_mem _ hd)
        · intro src' tgts' tb' e
          simp only [Option.some.injEq, Prod.mk.injEq] at e
          obtain ⟨rfl, rfl, rfl⟩ := e
          exact ⟨cl_cached_set_self pages src _, hnt⟩
        · intro l' hl; simp at hl
        · simp only [BatchSt.linksTodo, batchLinks_cons, List.nil_append]
        · simp [cl_pendOut]
        · simp only [cl_pendIn, cl_pendTerm, Nat.add_zero, cl_pageBlock_set_same_fun]
        · simp [cl_pendN]
      | true =>
        simp only [Bool.not_true, Bool.false_eq_true, if_false]
        refine cl_BSec.compose (Ext.refl h) (Le.refl s) (LinkBag.ParKeeps.refl s) (fun hy => ?_) (ih s t _ h)
        have hb := hy.bok
        obtain ⟨hne, hnt⟩ := hb.wfData (src, tgts) (by simp)
        have hpn : pendIn = none := by
          cases pendIn with
          | none => rfl
          | some t0 => exact absurd rfl (hy.lk.pend t0 rfl).2
        subst hpn
        refine ⟨[], ⟨hy.inv, ⟨hb.cache, ?_, ?_, ?_⟩, hy.lok,
          ⟨hy.lk.inl, fun _ e => by simp at e, fun _ e => by simp at e⟩⟩,
          cl_BLinks.of_ptrEq (PtrEq.refl s) ?_ (fun a x => ?_) (fun a x => ?_) ?_⟩
        · intro d hd; exact hb.wfData d (List.mem_cons_of_mem _ hd)
        · intro src' tgts' tb' e
          simp only [Option.some.injEq, Prod.mk.injEq] at e
          obtain ⟨rfl, rfl, rfl⟩ := e
          exact ⟨by rw [hg]; rfl, hnt⟩
        · intro l' hl; simp at hl
        · simp only [BatchSt.linksTodo, batchLinks_cons, List.nil_append]
        · simp [cl_pendOut]
        · simp only [cl_pendIn, cl_pendTerm, Nat.add_zero]
        · simp [cl_pendN]

/-! ### the first pass, inside a source (the deferred in-link already absorbed) -/

theorem cl_iter_cur (fuel : Nat) {s : State} {t : T} (h : Shape s t) (data : List (Bytes × List Bytes))
    (src : Bytes) (tgts : List Bytes) (tb : List Nat) (pages : List (Bytes × Nat × Bool))
    (inl : List (Bytes × List Bytes)) (rep : Report)
    (ih : ∀ (s1 : State) (t1 : T) (b1 : BatchSt), Shape s1 t1 → cl_BSec s1 t1 b1 (batchResume fuel s1 b1)) :
    cl_BSec s t ⟨data, some (src, tgts, tb), none, pages, inl, none, rep⟩
      (batchResume (fuel + 1) s ⟨data, some (src, tgts, tb), none, pages, inl, none, rep⟩) := by
  have h0 : 0 < s.trie.size := h.live
  rw [batchResume]
  simp only
  cases tgts with
  | nil =>
    simp only
    have k := keeps_addStubs h (pageBlock pages src) tb true
    have l := le_addStubs s (pageBlock pages src) tb true
    refine cl_BSec.compose k.ext l (LinkBag.parKeeps_addStubs s _ _ true) (fun hy => ?_) (ih _ t _ k.shape)
    have hb := hy.bok
    obtain ⟨hsome, _⟩ := hb.wfCur src [] tb rfl
    simp only at hsome
    obtain ⟨⟨n, cc⟩, hg⟩ := Option.isSome_iff_exists.mp hsome
    obtain ⟨c1, c2, c3⟩ := hb.cache src n cc (co_pagesGet_mem hg)
    have hlt := entry_lt h c1
    have hpb := co_pageBlock_of_get hg
    subst hpb
    obtain ⟨lok1, _⟩ := addStubs_bag hy.lok _ hlt tb true
    have cnt := addStubs_count hy.lok _ hlt tb true
    refine ⟨[], ⟨(k.adds hy.inv).inv, ⟨?_, hb.wfData, ?_, ?_⟩, lok1,
      ⟨hy.lk.inl.imp (fun l hl => cl_cached_set pages src _ l hl), fun _ e => by simp at e, fun _ e => by simp at e⟩⟩,
      ⟨?_, fun st hst => by simp at hst, fun a x => ?_, fun a x => ?_, ?_, fun _ a x => Nat.zero_le _⟩⟩
    · exact (hb.cache.mono h k.ext l).set (k.ext.keep _ _ c1) ((l.cell_le _ hlt).page c2)
        (fun hc => (l.cell_le _ hlt).crawled hc)
    · intro src' tgts' tb' e; simp at e
    · intro l' hl; simp at hl
    · simp [BatchSt.linksTodo]
    · rw [cnt true a x, cl_ncount_nil]
      simp only [cl_pendOut, true_and, Nat.add_zero]
      by_cases e : a = pageBlock pages src
      · rw [if_pos e, if_pos e.symm]
      · rw [if_neg e, if_neg (fun e' => e e'.symm)]
    · rw [cnt false x a, cl_ncount_nil]
      simp only [cl_pendIn, cl_pendTerm, Nat.add_zero, cl_pageBlock_set_same_fun, Bool.false_eq_true, false_and,
        if_false]
    · rw [addStubs_size]
      simp only [cl_pendN, List.length_nil]
      omega
  | cons tg ts =>
    simp only
    cases hg : pagesGet pages tg with
    | none =>
      simp only
      obtain ⟨t1, x1, f1⟩ := addPageCore_step h tg false
      have l1 := le_addPageCore s tg false h0
      have p1 := ptrEq_addPageCore s tg false
      have q1 := LinkBag.parKeeps_addPageCore s tg false
      rcases ha : s.addPageCore tg false with ⟨s1, n, res⟩
      rw [ha] at x1 f1 l1 p1 q1
      simp only at x1 f1 l1 p1 q1
      cases res with
      | error e =>
        simp only
        exact ⟨q1, fun _ hnf => absurd rfl (hnf e)⟩
      | ok r =>
        simp only
        refine cl_BSec.stop x1 l1 q1 (fun hy => ?_) (fun _ a ho => by simp at ho)
        have hb := hy.bok
        obtain ⟨hsome, hnt⟩ := hb.wfCur src (tg :: ts) tb rfl
        obtain ⟨g1, g2, g3⟩ := f1 (hnt tg (by simp))
        have hc1 : PCacheOk s1 t1 pages := hb.cache.mono h x1 l1
        obtain ⟨ns, nps, _⟩ := cl_cache_node' x1.shape hc1 hsome
        have hsrc : src ≠ tg := cl_not_cached_ne hg hsome
        have htn : s1.lruNode (lruIter tg) = some n := (lruNode_iff_entries x1.shape _ (hnt tg (by simp)) n).mpr g1
        refine ⟨[(src, tg)], ⟨(g3 hy.inv).1.inv, ⟨?_, hb.wfData, ?_, ?_⟩, p1.linksOk hy.lok,
          ⟨hy.lk.inl.imp (fun l hl => cl_cached_set pages tg _ l hl), fun _ e => by simp at e, fun t0 e => ?_⟩⟩,
          cl_BLinks.of_ptrEq_one p1 src tg ?_ ns htn nps ⟨n, g1, g2⟩ (fun a x => ?_) (fun a x => ?_) ?_⟩
        · exact hc1.set g1 g2 (fun hc => hc)
        · intro src' tgts' tb' e
          simp only [Option.some.injEq, Prod.mk.injEq] at e
          obtain ⟨rfl, rfl, rfl⟩ := e
          exact ⟨Co.dictGet?_dictSet_isSome pages tg _ src hsome, fun x hx => hnt x (List.mem_cons_of_mem _ hx)⟩
        · intro l' hl; simp at hl
        · simp only [Option.some.injEq] at e
          subst e
          exact ⟨cl_cached_set_self pages tg _, by simp⟩
        · simp [BatchSt.linksTodo]
        · simp only [cl_pendOut, cl_pageBlock_set_ne pages tg _ src hsrc, lbCount_append, count_cons, count_nil]
          by_cases e1 : pageBlock pages src = a <;> by_cases e2 : n = x <;> simp [e1, e2]
        · simp only [cl_pendIn, cl_pendTerm, cl_pageBlock_set_ne pages tg _ src hsrc, cl_pageBlock_set_self,
            Nat.add_zero]
          rw [cl_mcount_set_new hg _ hy.lk.inl x a]
        · simp only [cl_pendN, List.length_append, List.length_singleton]
          omega
    | some v =>
      obtain ⟨n, cc⟩ := v
      simp only
      refine cl_BSec.compose (Ext.refl h) (Le.refl s) (LinkBag.ParKeeps.refl s) (fun hy => ?_) (ih s t _ h)
      have hb := hy.bok
      obtain ⟨hsome, hnt⟩ := hb.wfCur src (tg :: ts) tb rfl
      obtain ⟨ns, nps, _⟩ := cl_cache_node' h hb.cache hsome
      obtain ⟨nt, npt, _, hpb⟩ := cl_cache_node h hb.cache hg
      have htc : cl_cached pages tg := by unfold cl_cached; rw [hg]; rfl
      refine ⟨[(src, tg)], ⟨hy.inv, ⟨hb.cache, hb.wfData, ?_, ?_⟩, hy.lok,
        ⟨cl_allIn_multiAdd _ _ _ _ hy.lk.inl htc hsome, fun _ e => by simp at e, fun _ e => by simp at e⟩⟩,
        cl_BLinks.of_ptrEq_one (PtrEq.refl s) src tg ?_ ns nt nps npt (fun a x => ?_) (fun a x => ?_) ?_⟩
      · intro src' tgts' tb' e
        simp only [Option.some.injEq, Prod.mk.injEq] at e
        obtain ⟨rfl, rfl, rfl⟩ := e
        exact ⟨hsome, fun x hx => hnt x (List.mem_cons_of_mem _ hx)⟩
      · intro l' hl; simp at hl
      · simp [BatchSt.linksTodo]
      · simp only [cl_pendOut, lbCount_append, count_cons, count_nil]
        by_cases e1 : pageBlock pages src = a <;> by_cases e2 : n = x <;> simp [e1, e2]
      · simp only [cl_pendIn, cl_pendTerm, mcount_multiAdd, Nat.add_zero, hpb]
        by_cases e1 : pageBlock pages src = a <;> by_cases e2 : n = x <;> simp [e1, e2]
      · simp only [cl_pendN, List.length_append, List.length_singleton, multiAdd_total]
        omega

/-- **every section of the crawl-batch generator, on whatever the index has become**: the links it submits are
    the next items of `linksTodo`; the bags grow by exactly what leaves the pending sets -/
theorem cl_batchResume_sec : ∀ (fuel : Nat) (s : State) (t : T) (b : BatchSt), Shape s t →
    cl_BSec s t b (batchResume fuel s b)
  | 0, s, t, b, _ => ⟨LinkBag.ParKeeps.refl s, fun _ hnf => absurd rfl (hnf (.other "fuel"))⟩
  | fuel + 1, s, t, ⟨data, cur, pendIn, pages, inl, flush, rep⟩, h => by
    have ih := fun s1 t1 b1 h1 => cl_batchResume_sec fuel s1 t1 b1 h1
    cases flush with
    | some fl => exact cl_iter_flush fuel h data cur pendIn pages inl fl rep
    | none =>
      cases cur with
      | none => exact cl_iter_data fuel h data pendIn pages inl rep ih
      | some cu =>
        obtain ⟨src, tgts, tb⟩ := cu
        cases pendIn with
        | none => exact cl_iter_cur fuel h data src tgts tb pages inl rep ih
        | some t0 =>
          have e : batchResume (fuel + 1) s ⟨data, some (src, tgts, tb), some t0, pages, inl, none, rep⟩ =
              batchResume (fuel + 1) s ⟨data, some (src, tgts, tb), none, pages, multiAdd inl t0 src, none, rep⟩ := by
            rw [batchResume, batchResume]
          rw [e]
          exact (cl_iter_cur fuel h data src tgts tb pages (multiAdd inl t0 src) rep ih).of_norm

#print axioms cl_batchResume_sec

/-! ## all generators, uniformly -/

/-- the rule installation never touches a list head or a stub -/
theorem cl_ptrEq_ruleResume (s : State) (r : RuleSt) : PtrEq s (ruleResume s r).1 := by
  rw [ruleResume_eq]
  have h1 : PtrEq s (ruleStart s r).1 := by
    unfold ruleStart
    by_cases hs : r.started = true
    · rw [if_pos hs]; exact PtrEq.refl s
    · rw [if_neg hs]
      exact ((PtrEq.of_eq rfl rfl : PtrEq s { s with rules := dictSet s.rules r.anchor r.rule }).trans
        (ptrEq_addLru _ _ _)).trans (ptrEq_modCell _ _ _ (fun _ => ⟨rfl, rfl⟩))
  refine h1.trans ?_
  generalize (ruleStart s r).1 = s1
  generalize (ruleStart s r).2 = r1
  unfold ruleBody
  split
  · exact PtrEq.refl s1
  · rename_i b lru rest _
    split
    · have p := ptrEq_addPageCore s1 (lru ++ s1.stemAt b) false
      rcases ha : s1.addPageCore (lru ++ s1.stemAt b) false with ⟨s2, n, res⟩
      rw [ha] at p
      cases res <;> exact p
    · exact PtrEq.refl s1

theorem cl_parKeeps_ruleResume (s : State) (r : RuleSt) : LinkBag.ParKeeps s (ruleResume s r).1 := by
  rw [ruleResume_eq]
  have h1 : LinkBag.ParKeeps s (ruleStart s r).1 := by
    unfold ruleStart
    by_cases hs : r.started = true
    · rw [if_pos hs]; exact LinkBag.ParKeeps.refl s
    · rw [if_neg hs]
      exact ((LinkBag.parKeeps_of_trie_eq rfl : LinkBag.ParKeeps s { s with rules := dictSet s.rules r.anchor r.rule }).trans
        (LinkBag.parKeeps_addLru _ _ _)).trans (LinkBag.parKeeps_setRule _ _ true)
  refine h1.trans ?_
  generalize (ruleStart s r).1 = s1
  generalize (ruleStart s r).2 = r1
  unfold ruleBody
  split
  · exact LinkBag.ParKeeps.refl s1
  · rename_i b lru rest _
    split
    · have p := LinkBag.parKeeps_addPageCore s1 (lru ++ s1.stemAt b) false
      rcases ha : s1.addPageCore (lru ++ s1.stemAt b) false with ⟨s2, n, res⟩
      rw [ha] at p
      cases res <;> exact p
    · exact LinkBag.ParKeeps.refl s1

/-- the pairs a generator has still to submit -/
def CoSt.linksTodo : CoSt → List (Bytes × Bytes)
  | .batch b => b.linksTodo
  | _ => []

/-- out-links (source block, target block) a generator has submitted and not yet written to the out-list -/
def CoSt.pendOut : CoSt → Nat → Nat → Nat
  | .batch b => cl_pendOut b
  | _ => fun _ _ => 0

/-- in-links (source block, target block) a generator has submitted and not yet written to the in-list -/
def CoSt.pendIn : CoSt → Nat → Nat → Nat
  | .batch b => cl_pendIn b
  | _ => fun _ _ => 0

/-- stubs submitted and not yet written -/
def CoSt.pendN : CoSt → Nat
  | .batch b => cl_pendN b
  | _ => 0

def cl_CoLk : CoSt → Prop
  | .batch b => cl_BatchLk b
  | _ => True

/-- what a section does to bags and pending sets; `A` are the pairs it submits -/
structure cl_CoLinks (s : State) (c : CoSt) (s' : State) (c' : CoSt) (t' : T) (A : List (Bytes × Bytes)) : Prop where
  todo : c.linksTodo = A ++ c'.linksTodo
  pgs  : ∀ st ∈ A, IsPage s' t' (lruIter st.1) ∧ IsPage s' t' (lruIter st.2)
  out  : ∀ a x, count x (s'.bag true a) + c'.pendOut a x = count x (s.bag true a) + c.pendOut a x + ncount s' A a x
  inn  : ∀ a x, count a (s'.bag false x) + c'.pendIn a x = count a (s.bag false x) + c.pendIn a x + ncount s' A a x
  size : s'.links.size + c'.pendN = s.links.size + c.pendN + 2 * A.length
  le   : (∀ a x, c.pendOut a x ≤ c.pendIn a x) → ∀ a x, c'.pendOut a x ≤ c'.pendIn a x

/-- a section that writes no list: nothing submitted, nothing pending before or after -/
theorem cl_CoLinks.of_ptrEq {s s' : State} {c c' : CoSt} {t' : T} (p : PtrEq s s')
    (h1 : c.linksTodo = [] ∧ c.pendOut = (fun _ _ => 0) ∧ c.pendIn = (fun _ _ => 0) ∧ c.pendN = 0)
    (h2 : c'.linksTodo = [] ∧ c'.pendOut = (fun _ _ => 0) ∧ c'.pendIn = (fun _ _ => 0) ∧ c'.pendN = 0) :
    cl_CoLinks s c s' c' t' [] where
  todo := by rw [h1.1, h2.1]; rfl
  pgs := fun st h => by simp at h
  out := fun a x => by rw [p.bag, h1.2.1, h2.2.1, cl_ncount_nil]; rfl
  inn := fun a x => by rw [p.bag, h1.2.2.1, h2.2.2.1, cl_ncount_nil]; rfl
  size := by rw [p.size, h1.2.2.2, h2.2.2.2]; simp
  le := fun _ a x => by rw [h2.2.1]; exact Nat.zero_le _

theorem cl_quiet_of_not_batch (c : CoSt) (h : ∀ b, c ≠ .batch b) :
    c.linksTodo = [] ∧ c.pendOut = (fun _ _ => 0) ∧ c.pendIn = (fun _ _ => 0) ∧ c.pendN = 0 := by
  cases c with
  | batch b => exact absurd rfl (h b)
  | _ => exact ⟨rfl, rfl, rfl, rfl⟩

/-- what one section of any generator does to the links -/
structure cl_CoSec (s : State) (t : T) (c : CoSt) (res : State × CoSt × CoOut) : Prop where
  par  : LinkBag.ParKeeps s res.1
  spec : Inv s t → CoOk s t c → LinksOk s → cl_CoLk c → (∀ b, c = .batch b → ∀ e, res.2.2 ≠ .failed e) →
    ∃ t' A, Ext s t res.1 t' ∧ s ⊑ res.1 ∧ LinksOk res.1 ∧ cl_CoLk res.2.1 ∧ cl_CoLinks s c res.1 res.2.1 t' A

theorem cl_resume_sec {s : State} {t : T} (h : Shape s t) (c : CoSt) : cl_CoSec s t c (c.resume s) := by
  cases c with
  | batch b =>
    have sec := cl_batchResume_sec 1000000 s t b h
    refine ⟨by rw [resume_batch_fst]; exact sec.par, fun hi hc hl hk hnf => ?_⟩
    have hnf' : ∀ e, (batchResume 1000000 s b).2.2 ≠ .failed e := fun e he =>
      hnf b rfl e (by rw [resume_batch_out]; exact he)
    obtain ⟨t', A, x, l, y, k, hd⟩ := sec.spec ⟨hi, hc.1, hl, hk⟩ hnf'
    rw [resume_batch_fst]
    refine ⟨t', A, x, l, y.lok, ?_, ?_⟩
    · by_cases ho : (batchResume 1000000 s b).2.2 = .yielded
      · rw [resume_batch_yielded s b ho]; exact y.lk
      · rw [resume_batch_stopped s b ho]; trivial
    · by_cases ho : (batchResume 1000000 s b).2.2 = .yielded
      · rw [resume_batch_yielded s b ho]
        exact ⟨k.todo, k.pgs, k.out, k.inn, k.size, k.le⟩
      · rw [resume_batch_stopped s b ho]
        have hdone : ∃ a, (batchResume 1000000 s b).2.2 = .done a := by
          cases ho' : (batchResume 1000000 s b).2.2 with
          | yielded => exact absurd ho' ho
          | done a => exact ⟨a, rfl⟩
          | failed e => exact absurd ho' (hnf' e)
        obtain ⟨a, ha⟩ := hdone
        obtain ⟨d1, d2, d3, d4⟩ := hd a ha
        refine ⟨?_, k.pgs, fun a x => ?_, fun a x => ?_, ?_, fun _ a x => Nat.zero_le _⟩
        · have := k.todo
          rw [d1] at this
          exact this
        · have := k.out a x
          rw [d2] at this
          exact this
        · have := k.inn a x
          rw [d3] at this
          exact this
        · have := k.size
          rw [d4] at this
          exact this
  | rule r =>
    refine ⟨by rw [resume_rule_fst]; exact cl_parKeeps_ruleResume s r, fun hi hc hl _ _ => ?_⟩
    obtain ⟨t', sec⟩ := ruleResume_sec h r
    have p := cl_ptrEq_ruleResume s r
    rw [resume_rule_fst]
    refine ⟨t', [], sec.ext, sec.le, p.linksOk hl, ?_, cl_CoLinks.of_ptrEq p ⟨rfl, rfl, rfl, rfl⟩ ?_⟩
    · by_cases ho : (ruleResume s r).2.2 = .yielded
      · rw [resume_rule_yielded s r ho]; trivial
      · rw [resume_rule_stopped s r ho]; trivial
    · by_cases ho : (ruleResume s r).2.2 = .yielded
      · rw [resume_rule_yielded s r ho]; exact ⟨rfl, rfl, rfl, rfl⟩
      · rw [resume_rule_stopped s r ho]; exact ⟨rfl, rfl, rfl, rfl⟩
  | pages p =>
    refine ⟨LinkBag.ParKeeps.refl s, fun hi hc hl _ _ => ⟨t, [], Ext.refl h, Le.refl s, hl, ?_,
      cl_CoLinks.of_ptrEq (PtrEq.refl s) ⟨rfl, rfl, rfl, rfl⟩ ?_⟩⟩
    · by_cases ho : (pagesResume ((s.trie.size + 1) * (p.prefixes.length + 1)) s p).2 = .yielded
      · rw [resume_pages_yielded s p ho]; trivial
      · rw [resume_pages_stopped s p ho]; trivial
    · by_cases ho : (pagesResume ((s.trie.size + 1) * (p.prefixes.length + 1)) s p).2 = .yielded
      · rw [resume_pages_yielded s p ho]; exact ⟨rfl, rfl, rfl, rfl⟩
      · rw [resume_pages_stopped s p ho]; exact ⟨rfl, rfl, rfl, rfl⟩
  | net n =>
    refine ⟨LinkBag.ParKeeps.refl s, fun hi hc hl _ _ => ⟨t, [], Ext.refl h, Le.refl s, hl, ?_,
      cl_CoLinks.of_ptrEq (PtrEq.refl s) ⟨rfl, rfl, rfl, rfl⟩ ?_⟩⟩
    · by_cases ho : (netResume (s.trie.size + s.links.size + n.pointers.length + 3) s n).2 = .yielded
      · rw [resume_net_yielded s n ho]; trivial
      · rw [resume_net_stopped s n ho]; trivial
    · by_cases ho : (netResume (s.trie.size + s.links.size + n.pointers.length + 3) s n).2 = .yielded
      · rw [resume_net_yielded s n ho]; exact ⟨rfl, rfl, rfl, rfl⟩
      · rw [resume_net_stopped s n ho]; exact ⟨rfl, rfl, rfl, rfl⟩
  | query q =>
    refine ⟨LinkBag.ParKeeps.refl s, fun hi hc hl _ _ => ⟨t, [], Ext.refl h, Le.refl s, hl, ?_,
      cl_CoLinks.of_ptrEq (PtrEq.refl s) ⟨rfl, rfl, rfl, rfl⟩ ?_⟩⟩
    · by_cases ho : (q.resume s).2 = .yielded
      · rw [resume_query_yielded s q ho]; trivial
      · rw [resume_query_stopped s q ho]; trivial
    · by_cases ho : (q.resume s).2 = .yielded
      · rw [resume_query_yielded s q ho]; exact ⟨rfl, rfl, rfl, rfl⟩
      · rw [resume_query_stopped s q ho]; exact ⟨rfl, rfl, rfl, rfl⟩
  | finished =>
    exact ⟨LinkBag.ParKeeps.refl s, fun hi hc hl _ _ => ⟨t, [], Ext.refl h, Le.refl s, hl, trivial,
      cl_CoLinks.of_ptrEq (PtrEq.refl s) ⟨rfl, rfl, rfl, rfl⟩ ⟨rfl, rfl, rfl, rfl⟩⟩⟩

#print axioms cl_resume_sec

/-! ## the system: sums over the family of generators -/

/-- generator `i` of the family (`finished` outside the family) -/
def cl_mach (cos : List CoSt) (i : Nat) : CoSt := (cos[i]?).getD .finished

theorem cl_mach_of_get {cos : List CoSt} {i : Nat} {c : CoSt} (h : cos[i]? = some c) : cl_mach cos i = c := by
  unfold cl_mach; rw [h]; rfl

theorem cl_mach_set_self {cos : List CoSt} {j : Nat} (hj : j < cos.length) (c' : CoSt) :
    cl_mach (cos.set j c') j = c' := by
  unfold cl_mach; rw [List.getElem?_set_self hj]; rfl

theorem cl_mach_set_ne (cos : List CoSt) {i j : Nat} (h : i ≠ j) (c' : CoSt) :
    cl_mach (cos.set j c') i = cl_mach cos i := by
  unfold cl_mach; rw [List.getElem?_set_ne (fun e => h e.symm)]

theorem cl_mach_mem {cos : List CoSt} {i : Nat} (hi : i < cos.length) : cl_mach cos i ∈ cos := by
  unfold cl_mach
  rw [List.getElem?_eq_getElem hi]
  exact List.getElem_mem hi

def cl_sum (f : Nat → Nat) : Nat → Nat
  | 0 => 0
  | n + 1 => cl_sum f n + f n

theorem cl_sum_congr {f g : Nat → Nat} : ∀ {n : Nat}, (∀ i, i < n → f i = g i) → cl_sum f n = cl_sum g n
  | 0, _ => rfl
  | n + 1, h => by
    simp only [cl_sum]
    rw [cl_sum_congr (fun i hi => h i (by omega)), h n (by omega)]

theorem cl_sum_zero {f : Nat → Nat} {n : Nat} (h : ∀ i, i < n → f i = 0) : cl_sum f n = 0 := by
  induction n with
  | zero => rfl
  | succ n ih =>
    simp only [cl_sum]
    rw [ih (fun i hi => h i (by omega)), h n (by omega)]

/-- changing one summand -/
theorem cl_sum_update {f g : Nat → Nat} {j : Nat} (h : ∀ i, i ≠ j → g i = f i) :
    ∀ {n : Nat}, j < n → cl_sum g n + f j = cl_sum f n + g j
  | 0, hj => by omega
  | n + 1, hj => by
    simp only [cl_sum]
    by_cases e : j = n
    · subst e
      rw [cl_sum_congr (fun i hi => h i (by omega))]
      omega
    · have := cl_sum_update h (n := n) (by omega)
      rw [h n (fun e' => e e'.symm)]
      omega

/-- the links of generators `0 … n-1`, generator by generator -/
def cl_cat (G : Nat → List (Bytes × Bytes)) : Nat → List (Bytes × Bytes)
  | 0 => []
  | n + 1 => cl_cat G n ++ G n

theorem cl_mem_cat {G : Nat → List (Bytes × Bytes)} {st : Bytes × Bytes} :
    ∀ {n : Nat}, st ∈ cl_cat G n ↔ ∃ i, i < n ∧ st ∈ G i
  | 0 => by simp [cl_cat]
  | n + 1 => by
    simp only [cl_cat, List.mem_append, cl_mem_cat (n := n)]
    constructor
    · rintro (⟨i, hi, hm⟩ | hm)
      · exact ⟨i, by omega, hm⟩
      · exact ⟨n, by omega, hm⟩
    · rintro ⟨i, hi, hm⟩
      by_cases e : i = n
      · subst e; exact Or.inr hm
      · exact Or.inl ⟨i, by omega, hm⟩

theorem cl_ncount_cat (s : State) (G : Nat → List (Bytes × Bytes)) (a x : Nat) :
    ∀ n, ncount s (cl_cat G n) a x = cl_sum (fun i => ncount s (G i) a x) n
  | 0 => rfl
  | n + 1 => by simp only [cl_cat, cl_sum, ncount_append, cl_ncount_cat s G a x n]

theorem cl_length_cat (G : Nat → List (Bytes × Bytes)) :
    ∀ n, (cl_cat G n).length = cl_sum (fun i => (G i).length) n
  | 0 => rfl
  | n + 1 => by simp only [cl_cat, cl_sum, List.length_append, cl_length_cat G n]

theorem cl_cat_congr {G G' : Nat → List (Bytes × Bytes)} :
    ∀ {n : Nat}, (∀ i, i < n → G i = G' i) → cl_cat G n = cl_cat G' n
  | 0, _ => rfl
  | n + 1, h => by
    simp only [cl_cat]
    rw [cl_cat_congr (fun i hi => h i (by omega)), h n (by omega)]

def cl_upd (G : Nat → List (Bytes × Bytes)) (j : Nat) (v : List (Bytes × Bytes)) : Nat → List (Bytes × Bytes) :=
  fun i => if i = j then v else G i

theorem cl_upd_self (G : Nat → List (Bytes × Bytes)) (j : Nat) (v : List (Bytes × Bytes)) : cl_upd G j v j = v := by
  unfold cl_upd; rw [if_pos rfl]

theorem cl_upd_ne (G : Nat → List (Bytes × Bytes)) {i j : Nat} (h : i ≠ j) (v : List (Bytes × Bytes)) :
    cl_upd G j v i = G i := by
  unfold cl_upd; rw [if_neg h]

/-- **the link invariant of a system of generators** (relative to: `L0` the links of the index the generators were
    started on, `R i` all the links request `i` submits, `B i` "request `i` is a crawl batch", `G i` the links
    generator `i` has submitted so far): bag by bag, what is written plus what is pending is what has been
    submitted -/
structure CoGraph (σ : Sys) (t : T) (L0 : List (Bytes × Bytes)) (R : Nat → List (Bytes × Bytes)) (B : Nat → Prop)
    (G : Nat → List (Bytes × Bytes)) : Prop where
  ok   : LinksOk σ.1
  lk   : ∀ c ∈ σ.2, cl_CoLk c
  kind : ∀ i, ¬ B i → ∀ b, cl_mach σ.2 i ≠ .batch b
  tot  : ∀ i, G i ++ (cl_mach σ.2 i).linksTodo = R i
  pgs  : ∀ st ∈ L0 ++ cl_cat G σ.2.length, IsPage σ.1 t (lruIter st.1) ∧ IsPage σ.1 t (lruIter st.2)
  out  : ∀ a x, count x (σ.1.bag true a) + cl_sum (fun i => (cl_mach σ.2 i).pendOut a x) σ.2.length =
           ncount σ.1 (L0 ++ cl_cat G σ.2.length) a x
  inn  : ∀ a x, count a (σ.1.bag false x) + cl_sum (fun i => (cl_mach σ.2 i).pendIn a x) σ.2.length =
           ncount σ.1 (L0 ++ cl_cat G σ.2.length) a x
  size : σ.1.links.size + cl_sum (fun i => (cl_mach σ.2 i).pendN) σ.2.length =
           1 + 2 * (L0 ++ cl_cat G σ.2.length).length
  lag  : ∀ i a x, (cl_mach σ.2 i).pendOut a x ≤ (cl_mach σ.2 i).pendIn a x

theorem cl_resume_not_batch (s : State) (c : CoSt) (h : ∀ b, c ≠ .batch b) : ∀ b, (c.resume s).2.1 ≠ .batch b := by
  intro b
  by_cases ho : (c.resume s).2.2 = .yielded
  · cases c with
    | batch b' => exact absurd rfl (h b')
    | rule r => rw [resume_rule_out] at ho; rw [resume_rule_yielded s r ho]; intro e; cases e
    | pages p => rw [resume_pages_out] at ho; rw [resume_pages_yielded s p ho]; intro e; cases e
    | net n => rw [resume_net_out] at ho; rw [resume_net_yielded s n ho]; intro e; cases e
    | query q => rw [resume_query_out] at ho; rw [resume_query_yielded s q ho]; intro e; cases e
    | finished => intro e; cases e
  · rw [resume_not_yielded s c ho]; intro e; cases e

/-- what the schedule theorems carry: the invariants of `Proofs/CoSchedules.lean`, the parent pointers, and the
    link invariant -/
def CoLinkInv (L0 : List (Bytes × Bytes)) (R : Nat → List (Bytes × Bytes)) (B : Nat → Prop) (σ : Sys) : Prop :=
  ∃ t G, SysOk σ t ∧ RulesOk σ.1 ∧ (∀ c ∈ σ.2, c.canon) ∧ ParOk σ.1 t 0 ∧ CoGraph σ t L0 R B G

/-- **one section of any generator keeps the link invariant** -/
theorem cl_step (L0 : List (Bytes × Bytes)) (R : Nat → List (Bytes × Bytes)) (B : Nat → Prop)
    (σ : Sys) (j : Nat) (c : CoSt) (hP : CoLinkInv L0 R B σ) (hc : σ.2[j]? = some c) :
    CoLinkInv L0 R B ((c.resume σ.1).1, σ.2.set j (c.resume σ.1).2.1) := by
  obtain ⟨t, G, h, ok, hcan, hpar, g⟩ := hP
  have hjlt : j < σ.2.length := (List.getElem?_eq_some_iff.mp hc).1
  have hcm : c ∈ σ.2 := co_mem_of_getElem? hc
  have hmj : cl_mach σ.2 j = c := cl_mach_of_get hc
  obtain ⟨t0, sec⟩ := resume_sec h.shape c
  obtain ⟨ok1, hcan1, hnk⟩ := sec.rules ok (hcan c hcm)
  obtain ⟨_, _, _, _, _, _, _, hf1, _⟩ := sec.spec h.inv (h.ok c hcm)
  obtain ⟨t1, h1, x1, l1⟩ := sysOk_step h hc
  have lsec := cl_resume_sec h.shape c
  have hnf : ∀ b, c = .batch b → ∀ e, (c.resume σ.1).2.2 ≠ .failed e := by
    intro b hb e he
    subst hb
    rcases hf1 e he trivial with hk | ⟨hfin, _⟩
    · exact hnk e he trivial hk
    · cases hfin
  obtain ⟨t', A, x', l', lok', lk', k⟩ := lsec.spec h.inv (h.ok c hcm) g.ok (g.lk c hcm) hnf
  have et : t' = t1 := LinkBag.shape_unique x'.shape h1.shape
  subst et
  obtain ⟨t'', hs'', hpar''⟩ := lsec.par t h.shape hpar
  have et' : t'' = t' := LinkBag.shape_unique hs'' h1.shape
  subst et'
  have hcan' : ∀ c' ∈ σ.2.set j (c.resume σ.1).2.1, c'.canon := by
    intro c' hm
    rcases List.mem_or_eq_of_mem_set hm with hm | rfl
    · exact hcan c' hm
    · exact hcan1
  have hlen : (σ.2.set j (c.resume σ.1).2.1).length = σ.2.length := List.length_set
  have hpgs0 : ∀ st ∈ L0 ++ cl_cat G σ.2.length,
      IsPage (c.resume σ.1).1 t'' (lruIter st.1) ∧ IsPage (c.resume σ.1).1 t'' (lruIter st.2) := fun st hst =>
    ⟨(g.pgs st hst).1.co_mono h.shape x' l', (g.pgs st hst).2.co_mono h.shape x' l'⟩
  -- the measures of the updated family
  have hsumO : ∀ a x, cl_sum (fun i => (cl_mach (σ.2.set j (c.resume σ.1).2.1) i).pendOut a x) σ.2.length + c.pendOut a x =
      cl_sum (fun i => (cl_mach σ.2 i).pendOut a x) σ.2.length + (c.resume σ.1).2.1.pendOut a x := by
    intro a x
    have := cl_sum_update (f := fun i => (cl_mach σ.2 i).pendOut a x)
      (g := fun i => (cl_mach (σ.2.set j (c.resume σ.1).2.1) i).pendOut a x) (j := j)
      (fun i hi => by simp only [cl_mach_set_ne σ.2 hi]) hjlt
    simp only [cl_mach_set_self hjlt, hmj] at this
    exact this
  have hsumI : ∀ a x, cl_sum (fun i => (cl_mach (σ.2.set j (c.resume σ.1).2.1) i).pendIn a x) σ.2.length + c.pendIn a x =
      cl_sum (fun i => (cl_mach σ.2 i).pendIn a x) σ.2.length + (c.resume σ.1).2.1.pendIn a x := by
    intro a x
    have := cl_sum_update (f := fun i => (cl_mach σ.2 i).pendIn a x)
      (g := fun i => (cl_mach (σ.2.set j (c.resume σ.1).2.1) i).pendIn a x) (j := j)
      (fun i hi => by simp only [cl_mach_set_ne σ.2 hi]) hjlt
    simp only [cl_mach_set_self hjlt, hmj] at this
    exact this
  have hsumN : cl_sum (fun i => (cl_mach (σ.2.set j (c.resume σ.1).2.1) i).pendN) σ.2.length + c.pendN =
      cl_sum (fun i => (cl_mach σ.2 i).pendN) σ.2.length + (c.resume σ.1).2.1.pendN := by
    have := cl_sum_update (f := fun i => (cl_mach σ.2 i).pendN)
      (g := fun i => (cl_mach (σ.2.set j (c.resume σ.1).2.1) i).pendN) (j := j)
      (fun i hi => by simp only [cl_mach_set_ne σ.2 hi]) hjlt
    simp only [cl_mach_set_self hjlt, hmj] at this
    exact this
  have hnc : ∀ a x, ncount (c.resume σ.1).1 (L0 ++ cl_cat (cl_upd G j (G j ++ A)) σ.2.length) a x =
      ncount σ.1 (L0 ++ cl_cat G σ.2.length) a x + ncount (c.resume σ.1).1 A a x := by
    intro a x
    rw [← ncount_ext h.shape x' g.pgs, ncount_append, ncount_append, cl_ncount_cat, cl_ncount_cat]
    have := cl_sum_update (f := fun i => ncount (c.resume σ.1).1 (G i) a x)
      (g := fun i => ncount (c.resume σ.1).1 (cl_upd G j (G j ++ A) i) a x) (j := j)
      (fun i hi => by simp only [cl_upd_ne G hi]) hjlt
    simp only [cl_upd_self, ncount_append] at this
    omega
  have hlenG : (L0 ++ cl_cat (cl_upd G j (G j ++ A)) σ.2.length).length =
      (L0 ++ cl_cat G σ.2.length).length + A.length := by
    rw [List.length_append, List.length_append, cl_length_cat, cl_length_cat]
    have := cl_sum_update (f := fun i => (G i).length)
      (g := fun i => (cl_upd G j (G j ++ A) i).length) (j := j)
      (fun i hi => by simp only [cl_upd_ne G hi]) hjlt
    simp only [cl_upd_self, List.length_append] at this
    omega
  refine ⟨t'', cl_upd G j (G j ++ A), h1, ok1, hcan', hpar'', ?_⟩
  refine ⟨lok', ?_, ?_, ?_, ?_, ?_, ?_, ?_, ?_⟩
  · intro c' hm
    rcases List.mem_or_eq_of_mem_set hm with hm | rfl
    · exact g.lk c' hm
    · exact lk'
  · intro i hB b
    by_cases e : i = j
    · subst e
      rw [cl_mach_set_self hjlt]
      exact cl_resume_not_batch σ.1 c (fun b' hb' => g.kind i hB b' (hmj.trans hb')) b
    · rw [cl_mach_set_ne σ.2 e]; exact g.kind i hB b
  · intro i
    by_cases e : i = j
    · subst e
      rw [cl_mach_set_self hjlt, cl_upd_self, List.append_assoc, ← k.todo, ← hmj]
      exact g.tot i
    · rw [cl_mach_set_ne σ.2 e, cl_upd_ne G e]; exact g.tot i
  · intro st hst
    rw [hlen] at hst
    rcases List.mem_append.mp hst with hst | hst
    · exact hpgs0 st (List.mem_append_left _ hst)
    · obtain ⟨i, hi, hm⟩ := cl_mem_cat.mp hst
      by_cases e : i = j
      · subst e
        rw [cl_upd_self] at hm
        rcases List.mem_append.mp hm with hm | hm
        · exact hpgs0 st (List.mem_append_right _ (cl_mem_cat.mpr ⟨i, hi, hm⟩))
        · exact k.pgs st hm
      · rw [cl_upd_ne G e] at hm
        exact hpgs0 st (List.mem_append_right _ (cl_mem_cat.mpr ⟨i, hi, hm⟩))
  · intro a x
    dsimp only
    rw [hlen, hnc]
    have e1 := k.out a x
    have e2 := g.out a x
    have e3 := hsumO a x
    omega
  · intro a x
    dsimp only
    rw [hlen, hnc]
    have e1 := k.inn a x
    have e2 := g.inn a x
    have e3 := hsumI a x
    omega
  · dsimp only
    rw [hlen, hlenG]
    have e1 := k.size
    have e2 := g.size
    have e3 := hsumN
    omega
  · intro i a x
    by_cases e : i = j
    · subst e
      rw [cl_mach_set_self hjlt]
      exact k.le (fun a x => by have := g.lag i a x; rw [hmj] at this; exact this) a x
    · rw [cl_mach_set_ne σ.2 e]; exact g.lag i a x

/-- **the link invariant holds after every schedule** -/
theorem cl_sched (L0 : List (Bytes × Bytes)) (R : Nat → List (Bytes × Bytes)) (B : Nat → Prop)
    (sched : Sched) (σ : Sys) (hP : CoLinkInv L0 R B σ) : CoLinkInv L0 R B (σ.run sched).1 :=
  Sys.run_invariant (CoLinkInv L0 R B) (cl_step L0 R B) sched σ hP

#print axioms cl_sched

/-! ## from fresh generators to the final multigraph -/

/-- the pairs a request submits as links (those of the atomic request, `Op.links`) -/
def CoReq.links : CoReq → List (Bytes × Bytes)
  | .batch data => batchLinks data
  | _ => []

theorem CoReq.links_op (r : CoReq) (o : Op) (h : r.op = some o) : o.links = r.links := by
  cases r <;> simp only [CoReq.op, Option.some.injEq] at h <;> first | (subst h; rfl) | cases h

theorem CoReq.links_of_op_none (r : CoReq) (h : r.op = none) : r.links = [] := by
  cases r <;> first | rfl | cases h

/-- all the links request `i` submits -/
def cl_R (reqs : List CoReq) (i : Nat) : List (Bytes × Bytes) := ((reqs[i]?).map CoReq.links).getD []

/-- request `i` is a crawl batch -/
def cl_B (reqs : List CoReq) (i : Nat) : Prop := ∃ data, reqs[i]? = some (.batch data)

theorem cl_cat_R (reqs : List CoReq) : ∀ k, k ≤ reqs.length → cl_cat (cl_R reqs) k = (reqs.take k).flatMap CoReq.links
  | 0, _ => by simp [cl_cat]
  | k + 1, hk => by
    have hlt : k < reqs.length := by omega
    simp only [cl_cat]
    rw [cl_cat_R reqs k (by omega), List.take_add_one, List.flatMap_append]
    congr 1
    unfold cl_R
    rw [List.getElem?_eq_getElem hlt]
    simp

theorem cl_cat_R_all (reqs : List CoReq) : cl_cat (cl_R reqs) reqs.length = reqs.flatMap CoReq.links := by
  rw [cl_cat_R reqs reqs.length (Nat.le_refl _), List.take_length]

theorem cl_cat_nil : ∀ n, cl_cat (fun _ => []) n = []
  | 0 => rfl
  | n + 1 => by simp only [cl_cat, cl_cat_nil n, List.append_nil]

theorem cl_init_quiet (r : CoReq) :
    r.init.pendOut = (fun _ _ => 0) ∧ r.init.pendIn = (fun _ _ => 0) ∧ r.init.pendN = 0 ∧
      r.init.linksTodo = r.links ∧ cl_CoLk r.init := by
  cases r with
  | batch data => exact ⟨rfl, rfl, rfl, rfl, cl_batchLk_init data⟩
  | rule a r => exact ⟨rfl, rfl, rfl, rfl, trivial⟩
  | queryPages ps => exact ⟨rfl, rfl, rfl, rfl, trivial⟩
  | queryNet o a => exact ⟨rfl, rfl, rfl, rfl, trivial⟩
  | queryOther q => exact ⟨rfl, rfl, rfl, rfl, trivial⟩

theorem cl_mach_init (reqs : List CoReq) (i : Nat) :
    cl_mach (reqs.map CoReq.init) i = ((reqs[i]?).map CoReq.init).getD .finished := by
  unfold cl_mach; rw [List.getElem?_map]

/-- fresh generators on an index whose bags are the links `L0`: nothing submitted, nothing pending -/
theorem cl_init {s : State} {t : T} {L0 : List (Bytes × Bytes)} (hs : Shape s t) (hi : Inv s t) (hr : RulesOk s)
    (hp : ParOk s t 0) (g : Graph s t L0) (reqs : List CoReq) (hwf : ∀ r ∈ reqs, r.Wf) (hcanon : ∀ r ∈ reqs, r.Canon) :
    CoLinkInv L0 (cl_R reqs) (cl_B reqs) (s, reqs.map CoReq.init) := by
  have hcan : ∀ c ∈ (s, reqs.map CoReq.init).2, c.canon := by
    intro c hc
    obtain ⟨r, hr', rfl⟩ := List.mem_map.mp hc
    cases r with
    | batch data => trivial
    | rule a r => intro _; exact ⟨hwf _ hr', hcanon _ hr'⟩
    | queryPages ps => trivial
    | queryNet o a => trivial
    | queryOther q => trivial
  have hq : ∀ i, (cl_mach (reqs.map CoReq.init) i).pendOut = (fun _ _ => 0) ∧
      (cl_mach (reqs.map CoReq.init) i).pendIn = (fun _ _ => 0) ∧ (cl_mach (reqs.map CoReq.init) i).pendN = 0 ∧
      (cl_mach (reqs.map CoReq.init) i).linksTodo = cl_R reqs i := by
    intro i
    rw [cl_mach_init]
    unfold cl_R
    cases hri : reqs[i]? with
    | none => exact ⟨rfl, rfl, rfl, rfl⟩
    | some r =>
      obtain ⟨q1, q2, q3, q4, _⟩ := cl_init_quiet r
      exact ⟨q1, q2, q3, q4⟩
  refine ⟨t, fun _ => [], sysOk_init hs hi reqs hwf, hr, hcan, hp, ?_⟩
  refine ⟨g.ok, ?_, ?_, ?_, ?_, ?_, ?_, ?_, ?_⟩
  · intro c hc
    obtain ⟨r, _, rfl⟩ := List.mem_map.mp hc
    exact (cl_init_quiet r).2.2.2.2
  · intro i hB b
    dsimp only
    rw [cl_mach_init]
    cases hri : reqs[i]? with
    | none => intro e; cases e
    | some r =>
      cases r with
      | batch data => exact absurd ⟨data, hri⟩ hB
      | rule a r => intro e; cases e
      | queryPages ps => intro e; cases e
      | queryNet o a => intro e; cases e
      | queryOther q => intro e; cases e
  · intro i
    rw [List.nil_append]
    exact (hq i).2.2.2
  · intro st hst
    dsimp only at hst
    rw [cl_cat_nil, List.append_nil] at hst
    exact g.pages st hst
  · intro a x
    dsimp only
    rw [cl_cat_nil, List.append_nil, cl_sum_zero (fun i _ => by rw [(hq i).1]), Nat.add_zero]
    exact g.out a x
  · intro a x
    dsimp only
    rw [cl_cat_nil, List.append_nil, cl_sum_zero (fun i _ => by rw [(hq i).2.1]), Nat.add_zero]
    exact g.inn a x
  · dsimp only
    rw [cl_cat_nil, List.append_nil, cl_sum_zero (fun i _ => (hq i).2.2.1), Nat.add_zero]
    exact g.size
  · intro i a x
    dsimp only
    rw [(hq i).1]
    exact Nat.zero_le _

/-! ### the trace of a generator that has returned -/

theorem cl_finished_stays : ∀ (sched : Sched) (σ : Sys) (i : Nat), σ.2[i]? = some .finished →
    (σ.run sched).1.2[i]? = some .finished
  | [], _, _, h => h
  | j :: rest, σ, i, hf => by
    cases hc : σ.2[j]? with
    | none => rw [Sys.run_cons_none _ hc]; exact cl_finished_stays rest σ i hf
    | some c =>
      rw [Sys.run_cons_some _ hc]
      refine cl_finished_stays rest _ i ?_
      by_cases hij : j = i
      · subst hij
        rw [hf] at hc
        cases hc
        simp only [CoSt.resume]
        rw [List.getElem?_set_self (List.getElem?_eq_some_iff.mp hf).1]
      · simp only
        rw [List.getElem?_set_ne hij]; exact hf

/-- a generator that has returned is exhausted for the rest of the schedule -/
theorem cl_done_finished : ∀ (sched : Sched) (σ : Sys) (i : Nat) (a : Ans), (i, CoOut.done a) ∈ (σ.run sched).2 →
    (σ.run sched).1.2[i]? = some .finished
  | [], σ, i, a, hm => by simp [Sys.run_nil] at hm
  | j :: rest, σ, i, a, hm => by
    cases hc : σ.2[j]? with
    | none =>
      rw [Sys.run_cons_none _ hc] at hm ⊢
      exact cl_done_finished rest σ i a hm
    | some c =>
      rw [Sys.run_cons_some _ hc] at hm ⊢
      rcases List.mem_cons.mp hm with e | hm
      · simp only [Prod.mk.injEq] at e
        obtain ⟨rfl, e2⟩ := e
        refine cl_finished_stays rest _ i ?_
        simp only
        rw [List.getElem?_set_self (List.getElem?_eq_some_iff.mp hc).1,
          resume_not_yielded σ.1 c (by rw [← e2]; intro e'; cases e')]
      · exact cl_done_finished rest _ i a hm

/-- **C16, the link multigraph after any schedule**: started from fresh generators on an index whose bags are the
    links `L0` (every reachable index: `reachable_invariants`), with flagged rule anchors backed by RAM rules, once
    every writer has returned the bags of the index are — block by block, on the out side and on the in side —
    exactly `L0` plus the links of the crawl batches; in particular the stub array holds two stubs per link. -/
theorem C16_final_graph {s : State} {t : T} {L0 : List (Bytes × Bytes)} (hs : Shape s t) (hi : Inv s t)
    (hr : RulesOk s) (hp : ParOk s t 0) (g : Graph s t L0) (reqs : List CoReq) (hwf : ∀ r ∈ reqs, r.Wf)
    (hcanon : ∀ r ∈ reqs, r.Canon) (sched : Sched)
    (hdone : ∀ i r, reqs[i]? = some r → r.op ≠ none →
      ∃ a, (i, CoOut.done a) ∈ (Sys.run (s, reqs.map CoReq.init) sched).2) :
    ∃ t', LinkView (Sys.run (s, reqs.map CoReq.init) sched).1.1 t' (L0 ++ reqs.flatMap CoReq.links) ∧
      RulesOk (Sys.run (s, reqs.map CoReq.init) sched).1.1 := by
  obtain ⟨t', G, h, ok, _, hpar, cg⟩ :=
    cl_sched L0 (cl_R reqs) (cl_B reqs) sched _ (cl_init hs hi hr hp g reqs hwf hcanon)
  have hlen : (Sys.run (s, reqs.map CoReq.init) sched).1.2.length = reqs.length := by
    rw [Sys.run_length]; simp
  -- every generator is quiet
  have hq : ∀ i, i < reqs.length →
      (cl_mach (Sys.run (s, reqs.map CoReq.init) sched).1.2 i).linksTodo = [] ∧
      (cl_mach (Sys.run (s, reqs.map CoReq.init) sched).1.2 i).pendOut = (fun _ _ => 0) ∧
      (cl_mach (Sys.run (s, reqs.map CoReq.init) sched).1.2 i).pendIn = (fun _ _ => 0) ∧
      (cl_mach (Sys.run (s, reqs.map CoReq.init) sched).1.2 i).pendN = 0 := by
    intro i hi'
    by_cases hB : cl_B reqs i
    · obtain ⟨data, hd⟩ := hB
      obtain ⟨a, ha⟩ := hdone i _ hd (by simp [CoReq.op])
      rw [cl_mach_of_get (cl_done_finished sched _ i a ha)]
      exact ⟨rfl, rfl, rfl, rfl⟩
    · exact cl_quiet_of_not_batch _ (cg.kind i hB)
  have hG : cl_cat G reqs.length = reqs.flatMap CoReq.links := by
    rw [← cl_cat_R_all]
    apply cl_cat_congr
    intro i hi'
    have := cg.tot i
    rw [(hq i hi').1, List.append_nil] at this
    exact this
  refine ⟨t', ⟨h.shape, h.inv, hpar, ⟨cg.ok, ?_, fun a x => ?_, fun a x => ?_, ?_⟩⟩, ok⟩
  · have := cg.pgs
    rw [hlen, hG] at this
    exact this
  · have := cg.out a x
    rw [hlen, hG, cl_sum_zero (fun i hi' => by rw [(hq i hi').2.1]), Nat.add_zero] at this
    exact this
  · have := cg.inn a x
    rw [hlen, hG, cl_sum_zero (fun i hi' => by rw [(hq i hi').2.2.1]), Nat.add_zero] at this
    exact this
  · have := cg.size
    rw [hlen, hG, cl_sum_zero (fun i hi' => (hq i hi').2.2.2), Nat.add_zero] at this
    exact this

#print axioms C16_final_graph

end Traph

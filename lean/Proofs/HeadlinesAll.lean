import Proofs.ReachableAll
import Proofs.DisciplinePrune
import Proofs.PagesApi
import Proofs.NetworkRun
import Proofs.WeLinks
import Proofs.PagApi
import Proofs.PagLinksApi
/-! The headline theorems WITHOUT the two blanket hypotheses ("no `clear` in the history", "no request aborted by
    `KeyError`"): for EVERY history of well-formed requests on a fresh index whose constructor anchors are complete
    LRUs, under the API's own discipline (`Disciplined`, Proofs/Discipline.lean). `clear` is a reset: the
    history-level statements speak of the requests since the last `clear` (`sinceClear ops`); the per-state
    statements hold of every `Reachable` state. -/
namespace Traph
open State Pag

/-! ### the reached state, seen through the requests since the last `clear` -/

/-- the reached state with its ghost tree: `LinkView` for the links submitted since the last `clear`; its pages are
    the LRUs submitted as pages since the last `clear` -/
theorem linkView_all (cfg : Config) (dflt : Rule) (rules : List (Bytes × Rule)) (ops : List Op)
    (hr : rulesCanonical rules) (hwf : ∀ op ∈ sinceClear ops, OpWf op)
    (hd : Disciplined (State.fresh cfg dflt rules []).1 ops) :
    ∃ t, LinkView ((State.fresh cfg dflt rules []).1.run ops) t ((sinceClear ops).flatMap Op.links) ∧
      (∀ p, IsPage ((State.fresh cfg dflt rules []).1.run ops) t p ↔ Submitted (sinceClear ops) p) ∧
      (∀ p, (IsCrawled ((State.fresh cfg dflt rules []).1.run ops) t p →
                ∃ op ∈ sinceClear ops, ∃ x ∈ op.pages, x.1 = p ∧ x.2.2 = true) ∧
            ((∃ op ∈ sinceClear ops, ∃ x ∈ op.pages, x.1 = p ∧ x.2.1 = true) →
                IsCrawled ((State.fresh cfg dflt rules []).1.run ops) t p)) := by
  obtain ⟨b, rs, hb, hc, hrun, hdis, _⟩ := history_based cfg dflt rules ops hr hd
  obtain ⟨_, t, v, hp, hcr, _⟩ := based_run hb rs hc (sinceClear ops) (sinceClear_free ops) hwf hdis
  rw [hrun]
  exact ⟨t, v, hp, hcr⟩

/-! ### C01 -/

/-- **C01, pages, every history**: the pages of the index are exactly the LRUs submitted as pages since the last
    `clear` -/
theorem C01_pages_all (cfg : Config) (dflt : Rule) (rules : List (Bytes × Rule)) (ops : List Op)
    (hr : rulesCanonical rules) (hwf : ∀ op ∈ sinceClear ops, OpWf op)
    (hd : Disciplined (State.fresh cfg dflt rules []).1 ops) :
    ∃ t, Shape ((State.fresh cfg dflt rules []).1.run ops) t ∧
      ∀ p, IsPage ((State.fresh cfg dflt rules []).1.run ops) t p ↔
        ∃ op ∈ sinceClear ops, ∃ x ∈ op.pages, x.1 = p := by
  obtain ⟨t, v, hp, _⟩ := linkView_all cfg dflt rules ops hr hwf hd
  exact ⟨t, v.shape, hp⟩

/-- **C01, crawled marks, every history** -/
theorem C01_crawled_all (cfg : Config) (dflt : Rule) (rules : List (Bytes × Rule)) (ops : List Op)
    (hr : rulesCanonical rules) (hwf : ∀ op ∈ sinceClear ops, OpWf op)
    (hd : Disciplined (State.fresh cfg dflt rules []).1 ops) :
    ∃ t, Shape ((State.fresh cfg dflt rules []).1.run ops) t ∧
      ∀ p, (IsCrawled ((State.fresh cfg dflt rules []).1.run ops) t p →
              ∃ op ∈ sinceClear ops, ∃ x ∈ op.pages, x.1 = p ∧ x.2.2 = true) ∧
           ((∃ op ∈ sinceClear ops, ∃ x ∈ op.pages, x.1 = p ∧ x.2.1 = true) →
              IsCrawled ((State.fresh cfg dflt rules []).1.run ops) t p) := by
  obtain ⟨t, v, _, hcr⟩ := linkView_all cfg dflt rules ops hr hwf hd
  exact ⟨t, v.shape, hcr⟩

/-- **C01, enumeration, every history**: `pages_iter` lists exactly the byte strings submitted as pages since the
    last `clear`, each once -/
theorem C01_enumeration_all (cfg : Config) (dflt : Rule) (rules : List (Bytes × Rule)) (ops : List Op)
    (hr : rulesCanonical rules) (hwf : ∀ op ∈ sinceClear ops, OpWf op)
    (hd : Disciplined (State.fresh cfg dflt rules []).1 ops) :
    (∀ lru, (∃ c, (lru, c) ∈ ((State.fresh cfg dflt rules []).1.run ops).pagesIter) ↔
        ∃ op ∈ sinceClear ops, ∃ x ∈ op.pages, lru = x.1.flatten) ∧
    ((((State.fresh cfg dflt rules []).1.run ops).pagesIter).map (·.1)).Nodup := by
  obtain ⟨t, v, hp, _⟩ := linkView_all cfg dflt rules ops hr hwf hd
  refine ⟨fun lru => ?_, pagesIter_nodup v.shape v.inv.wf⟩
  rw [pagesIter_isPage v.shape]
  constructor
  · rintro ⟨p, hpp, rfl⟩
    obtain ⟨op, ho, x, hx, rfl⟩ := (hp p).mp hpp
    exact ⟨op, ho, x, hx, rfl⟩
  · rintro ⟨op, ho, x, hx, rfl⟩
    exact ⟨x.1, (hp _).mpr ⟨op, ho, x, hx, rfl⟩, rfl⟩

open Classical in
/-- **C01, reports, every history**: the report of the next request counts exactly the distinct LRUs it submits
    that were not pages of the index reached so far -/
theorem C01_report_all {s : State} (hs : Reachable s) (op : Op) (hop : ∀ d rs, op ≠ .clear d rs) (hwf : OpWf op)
    (r : Report) (hrep : (s.step op).2 = .report r) :
    ∃ t, Shape s t ∧
      r.pages = ((op.pages.map (·.1)).eraseDups.filter (fun p => decide (¬ IsPage s t p))).length := by
  obtain ⟨t, h, hi, _⟩ := reachable_invariants hs
  exact ⟨t, h, C01_report h hi op hop hwf r hrep⟩

/-! ### C03 -/

/-- **C03, weights, every history**: the link multigraph is the multiset of links submitted since the last `clear` -/
theorem C03_history_all (cfg : Config) (dflt : Rule) (rules : List (Bytes × Rule)) (ops : List Op)
    (hr : rulesCanonical rules) (hwf : ∀ op ∈ sinceClear ops, OpWf op)
    (hd : Disciplined (State.fresh cfg dflt rules []).1 ops) :
    (∀ p q, Submitted (sinceClear ops) p → Submitted (sinceClear ops) q → q ≠ p → ∀ n,
      ((p.flatten, q.flatten, n) ∈ ((State.fresh cfg dflt rules []).1.run ops).pageLinks p.flatten false false true ↔
        (0 < n ∧ n = nsub ((sinceClear ops).flatMap Op.links) p q)) ∧
      ((p.flatten, q.flatten, n) ∈ ((State.fresh cfg dflt rules []).1.run ops).pageLinks q.flatten true false false ↔
        (0 < n ∧ n = nsub ((sinceClear ops).flatMap Op.links) p q))) ∧
    (∀ p, Submitted (sinceClear ops) p → ∀ incIn incOut n,
      ((p.flatten, p.flatten, n) ∈ ((State.fresh cfg dflt rules []).1.run ops).pageLinks p.flatten incIn true incOut ↔
        (0 < n ∧ n = nsub ((sinceClear ops).flatMap Op.links) p p)) ∧
      (p.flatten, p.flatten, n) ∉ ((State.fresh cfg dflt rules []).1.run ops).pageLinks p.flatten incIn false incOut) ∧
    (∀ p, Submitted (sinceClear ops) p → ∀ incIn incInt incOut,
      (((State.fresh cfg dflt rules []).1.run ops).pageLinks p.flatten incIn incInt incOut).Nodup) := by
  obtain ⟨t, v, hpg, _⟩ := linkView_all cfg dflt rules ops hr hwf hd
  refine ⟨fun p q hp hq hne n => ?_, fun p hp incIn incOut n => ?_, fun p hp incIn incInt incOut => ?_⟩
  · exact ⟨v.out_weight ((hpg p).mpr hp) ((hpg q).mpr hq) hne n, v.in_weight ((hpg p).mpr hp) ((hpg q).mpr hq) hne n⟩
  · exact ⟨v.self_weight ((hpg p).mpr hp) incIn incOut n, v.self_hidden ((hpg p).mpr hp) incIn incOut n⟩
  · exact v.pageLinks_nodup ((hpg p).mpr hp) incIn incInt incOut

/-- **C03, the complete answer of `get_page_links`, every history** -/
theorem C03_pageLinks_all (cfg : Config) (dflt : Rule) (rules : List (Bytes × Rule)) (ops : List Op)
    (hr : rulesCanonical rules) (hwf : ∀ op ∈ sinceClear ops, OpWf op)
    (hd : Disciplined (State.fresh cfg dflt rules []).1 ops)
    (p : LRU) (hp : Submitted (sinceClear ops) p) (incIn incInt incOut : Bool) (x : PageLink) :
    x ∈ ((State.fresh cfg dflt rules []).1.run ops).pageLinks p.flatten incIn incInt incOut ↔
      (∃ q, 0 < nsub ((sinceClear ops).flatMap Op.links) p q ∧ ((incOut = true ∧ q ≠ p) ∨ (incInt = true ∧ q = p)) ∧
        x = (p.flatten, q.flatten, nsub ((sinceClear ops).flatMap Op.links) p q)) ∨
      (incIn = true ∧ ∃ q, 0 < nsub ((sinceClear ops).flatMap Op.links) q p ∧ q ≠ p ∧
        x = (q.flatten, p.flatten, nsub ((sinceClear ops).flatMap Op.links) q p)) := by
  obtain ⟨t, v, hpg, _⟩ := linkView_all cfg dflt rules ops hr hwf hd
  exact v.mem_pageLinks ((hpg p).mpr hp) incIn incInt incOut x

/-- **C03, totals, every history** -/
theorem C03_totals_all (cfg : Config) (dflt : Rule) (rules : List (Bytes × Rule)) (ops : List Op)
    (hr : rulesCanonical rules) (hwf : ∀ op ∈ sinceClear ops, OpWf op)
    (hd : Disciplined (State.fresh cfg dflt rules []).1 ops) :
    ((State.fresh cfg dflt rules []).1.run ops).countLinks2 = 2 * ((sinceClear ops).flatMap Op.links).length ∧
    (∀ x y, (x, y) ∈ ((State.fresh cfg dflt rules []).1.run ops).linksIter true ↔
      (y, x) ∈ ((State.fresh cfg dflt rules []).1.run ops).linksIter false) ∧
    (∀ x y, (x, y) ∈ ((State.fresh cfg dflt rules []).1.run ops).linksIter true ↔
      ∃ st ∈ (sinceClear ops).flatMap Op.links, x = (lruIter st.1).flatten ∧ y = (lruIter st.2).flatten) ∧
    (∀ p, Submitted (sinceClear ops) p →
      ((State.fresh cfg dflt rules []).1.run ops).pageDegree p.flatten .outdeg true =
        (((sinceClear ops).flatMap Op.links).filter (fun st => decide (lruIter st.1 = p ∧ lruIter st.2 ≠ p))).length ∧
      ((State.fresh cfg dflt rules []).1.run ops).pageDegree p.flatten .indeg true =
        (((sinceClear ops).flatMap Op.links).filter (fun st => decide (lruIter st.2 = p ∧ lruIter st.1 ≠ p))).length ∧
      ((State.fresh cfg dflt rules []).1.run ops).pageDegree p.flatten .deg true =
        (((sinceClear ops).flatMap Op.links).filter (fun st => decide (lruIter st.1 = p))).length +
        (((sinceClear ops).flatMap Op.links).filter (fun st => decide (lruIter st.2 = p ∧ lruIter st.1 ≠ p))).length) := by
  obtain ⟨t, v, hpg, _⟩ := linkView_all cfg dflt rules ops hr hwf hd
  refine ⟨v.graph.countLinks2, v.linksIter_transpose, v.mem_linksIter_out, fun p hp => ?_⟩
  have hp' := (hpg p).mpr hp
  exact ⟨v.outdegree hp', v.indegree hp', v.degree hp'⟩

/-- **C03, unweighted degrees, every history** -/
theorem C03_degrees_unweighted_all (cfg : Config) (dflt : Rule) (rules : List (Bytes × Rule)) (ops : List Op)
    (hr : rulesCanonical rules) (hwf : ∀ op ∈ sinceClear ops, OpWf op)
    (hd : Disciplined (State.fresh cfg dflt rules []).1 ops) (p : LRU) (hp : Submitted (sinceClear ops) p) :
    ∃ outAll outOther inOther : List LRU, outAll.Nodup ∧ outOther.Nodup ∧ inOther.Nodup ∧
      (∀ q, q ∈ outAll ↔ 0 < nsub ((sinceClear ops).flatMap Op.links) p q) ∧
      (∀ q, q ∈ outOther ↔ (0 < nsub ((sinceClear ops).flatMap Op.links) p q ∧ q ≠ p)) ∧
      (∀ q, q ∈ inOther ↔ (0 < nsub ((sinceClear ops).flatMap Op.links) q p ∧ q ≠ p)) ∧
      ((State.fresh cfg dflt rules []).1.run ops).pageDegree p.flatten .outdeg false = outOther.length ∧
      ((State.fresh cfg dflt rules []).1.run ops).pageDegree p.flatten .indeg false = inOther.length ∧
      ((State.fresh cfg dflt rules []).1.run ops).pageDegree p.flatten .deg false =
        outAll.length + inOther.length := by
  obtain ⟨t, v, hpg, _⟩ := linkView_all cfg dflt rules ops hr hwf hd
  exact v.degree_unweighted ((hpg p).mpr hp)

/-- **C03, symmetry of the stored lists, every history** -/
theorem C03_symmetry_all (cfg : Config) (dflt : Rule) (rules : List (Bytes × Rule)) (ops : List Op)
    (hr : rulesCanonical rules) (hwf : ∀ op ∈ sinceClear ops, OpWf op)
    (hd : Disciplined (State.fresh cfg dflt rules []).1 ops) (a b : Nat) :
    LinksOk ((State.fresh cfg dflt rules []).1.run ops) ∧
    count b (((State.fresh cfg dflt rules []).1.run ops).outBag a) =
      count a (((State.fresh cfg dflt rules []).1.run ops).inBag b) := by
  obtain ⟨t, v, _⟩ := linkView_all cfg dflt rules ops hr hwf hd
  exact ⟨v.graph.ok, v.graph.symm a b⟩


/-! ### C04 -/

/-- **C04, every history**: resolution of any query LRU is longest-stem-prefix match in the map obtained by folding
    the abstract edits over the transcript SINCE THE LAST `clear` (`sinceClearT`), starting from the empty map -/
theorem C04_history_all (cfg : Config) (dflt : Rule) (rules : List (Bytes × Rule)) (ops : List Op)
    (hr : rulesCanonical rules) (hwe : ∀ op ∈ sinceClear ops, OpWfWe op)
    (hd : Disciplined (State.fresh cfg dflt rules []).1 ops) (q : Bytes) :
    let s0 := (State.fresh cfg dflt rules []).1
    let M := specFold (fun _ => 0) (sinceClearT (s0.transcript ops))
    (∀ w, (s0.run ops).retrieveWebentity q = .ok w ↔
      ∃ k, LongestAt M (lruIter q) k ∧ w = M ((lruIter q).take k)) ∧
    (∀ e, (s0.run ops).retrieveWebentity q = .error e ↔ e = .traph ∧ NoneAt M (lruIter q)) ∧
    (∀ p, (s0.run ops).retrievePrefix q = .ok p ↔
      ∃ k, LongestAt M (lruIter q) k ∧ p = ((lruIter q).take k).flatten) ∧
    (∀ e, (s0.run ops).retrievePrefix q = .error e ↔ e = .traph ∧ NoneAt M (lruIter q)) := by
  intro s0 M
  obtain ⟨b, rs, hb, hc, hrun, hdis, htr, _⟩ := history_based cfg dflt rules ops hr hd
  have hM := based_weMap hb rs hc (sinceClear ops) (sinceClear_free ops) hwe hdis
  obtain ⟨t0, g0, _⟩ := based_init hb rs hc
  obtain ⟨t', h', _⟩ := shape_run_from _ t0 g0.shape (sinceClear ops) (sinceClear_free ops)
  have hM' : (s0.run ops).weMap = M := by
    show ((State.fresh cfg dflt rules []).1.run ops).weMap = _
    rw [hrun, hM]
    show _ = specFold (fun _ => 0) (sinceClearT ((State.fresh cfg dflt rules []).1.transcript ops))
    rw [htr]
  have h'' : Shape (s0.run ops) t' := by
    show Shape ((State.fresh cfg dflt rules []).1.run ops) t'
    rw [hrun]; exact h'
  exact resolve_of_weMap h'' hM' q

/-! ### C02 / C19 -/

/-- **C02, known LRUs, every history**: stored = prefix closure of what was named since the last `clear` -/
theorem C02_known_all (cfg : Config) (dflt : Rule) (rules : List (Bytes × Rule)) (ops : List Op)
    (hr : rulesCanonical rules) (hd : Disciplined (State.fresh cfg dflt rules []).1 ops) :
    ∃ t, Good ((State.fresh cfg dflt rules []).1.run ops) t ∧
      ∀ p, Known ((State.fresh cfg dflt rules []).1.run ops) t p ↔
        Covered ((State.fresh cfg dflt rules []).1.namedSince (anchors rules) ops) p :=
  C02_known_since cfg dflt rules ops (reachable_noKeyErr cfg dflt rules ops hr hd)

/-- **C19, both stores, every history**: the trie store holds one header block plus the blocks of the last stem of
    every LRU of the prefix closure of what was named since the last `clear`; the link store holds one header stub
    plus two stubs per link submitted since the last `clear` -/
theorem C19_all (cfg : Config) (dflt : Rule) (rules : List (Bytes × Rule)) (ops : List Op)
    (hr : rulesCanonical rules) (hd : Disciplined (State.fresh cfg dflt rules []).1 ops) :
    ((State.fresh cfg dflt rules []).1.run ops).trie.size =
      1 + ((prefixClosure ((State.fresh cfg dflt rules []).1.namedSince (anchors rules) ops)).map lruBlocks).sum ∧
    ((State.fresh cfg dflt rules []).1.run ops).links.size = 1 + 2 * linksSince 0 ops :=
  ⟨C19_trie_history_since cfg dflt rules ops (reachable_noKeyErr cfg dflt rules ops hr hd),
   C19_links_history_since cfg dflt rules ops (reachable_noKeyErr cfg dflt rules ops hr hd)⟩

/-- `linksSince` counts the links of the requests since the last `clear` -/
theorem linksSince_eq (ops : List Op) : linksSince 0 ops = linksSubmitted (sinceClear ops) := by
  have key : ∀ (l : List Op) (acc : Nat), (∀ op ∈ l, ∀ d rs, op ≠ .clear d rs) →
      linksSince acc l = acc + linksSubmitted l := by
    intro l
    induction l with
    | nil => intro acc _; simp [linksSince, linksSubmitted]
    | cons op l ih =>
      intro acc h
      have : linksSince acc (op :: l) = linksSince (acc + op.nlinks) l := by
        cases op <;> first | rfl | exact absurd rfl (h _ (List.mem_cons_self) _ _)
      rw [this, ih _ (fun o ho => h o (List.mem_cons_of_mem _ ho))]
      simp only [linksSubmitted, List.map_cons, List.sum_cons]
      omega
  have pre : ∀ (a : List Op) (acc : Nat) (d : Option Rule) (rs : Option (List (Bytes × Rule))) (l : List Op),
      linksSince acc (a ++ .clear d rs :: l) = linksSince 0 l := by
    intro a
    induction a with
    | nil => intro acc d rs l; simp [linksSince]
    | cons op a ih =>
      intro acc d rs l
      rw [List.cons_append]
      cases op <;> simp only [linksSince] <;> exact ih _ d rs l
  rcases sinceClear_cases ops with ⟨h1, h2, _⟩ | ⟨d, rs, _, h2⟩
  · rw [h2, key ops 0 h1]; omega
  · conv => lhs; rw [h2]
    rw [pre, key _ 0 (sinceClear_free ops)]; omega

/-! ### the per-state properties, for every reachable state -/

/-- **C05, every reachable state** -/
theorem C05_all {s : State} (hs : Reachable s) :
    ∃ t, Shape s t ∧ Inv s t ∧
      (∀ w ps, FullPrefixList s w ps →
        ∃ l, s.webentityPages ps = .ok l ∧
          (∀ lru c, (lru, c) ∈ l ↔
            lru = (lruIter lru).flatten ∧ IsPage s t (lruIter lru) ∧ s.retrieveWebentity lru = .ok w ∧
              (c = true ↔ IsCrawled s t (lruIter lru))) ∧
          ((ps.map lruIter).Nodup → (l.map (·.1)).Nodup) ∧
          (∀ lru c, (lru, c) ∈ l → ∃ P, P <+: lruIter lru ∧ IsPrefixOf s w P ∧
            (l.map (·.1)).count lru = (ps.map lruIter).count P) ∧
          (∀ X, IsPage s t X → s.retrieveWebentity X.flatten = .ok w → ∃ c, (X.flatten, c) ∈ l) ∧
          (∀ lru c, (lru, c) ∈ l → ∀ w' ps' l', FullPrefixList s w' ps' → s.webentityPages ps' = .ok l' →
            (∃ c', (lru, c') ∈ l') → w' = w) ∧
          (∀ lru e, s.retrieveWebentity lru = .error e → ∀ c, (lru, c) ∉ l) ∧
          s.webentityCrawledPages ps = .ok (l.filter (·.2)) ∧
          (∀ lru c, (lru, c) ∈ l.filter (·.2) ↔
            c = true ∧ lru = (lruIter lru).flatten ∧ IsCrawled s t (lruIter lru) ∧
              s.retrieveWebentity lru = .ok w)) ∧
      (∀ w, w ≠ 0 → FullPrefixList s w (prefixesOf s w) ∧ ((prefixesOf s w).map lruIter).Nodup) := by
  obtain ⟨t, h, hi, _⟩ := reachable_invariants hs
  refine ⟨t, h, hi, fun w ps hf => ?_, fun w hw => prefixesOf_full h hi hw⟩
  obtain ⟨l, hl⟩ := C05_ok hf
  obtain ⟨p1, p2, p3, p4⟩ := C05_partition h hi hf hl
  obtain ⟨c1, c2, _⟩ := C05_crawled h hi hf hl
  exact ⟨l, hl, C05_member h hi hf hl, fun hnd => C05_nodup h hi hf hnd hl,
    fun lru c hm => C05_count h hi hf hl hm, p1, p3, p4, c1, c2⟩

/-- …with no reference to the ghost tree -/
theorem C05_model_all {s : State} (hs : Reachable s)
    (w : Nat) (ps : List Bytes) (hf : FullPrefixList s w ps) :
    ∃ l, s.webentityPages ps = .ok l ∧
      (∀ lru c, (lru, c) ∈ l ↔
        lru = (lruIter lru).flatten ∧ s.retrieveWebentity lru = .ok w ∧
          ∃ b, s.lruNode (lruIter lru) = some b ∧ (s.cell b).flags.page = true ∧
            c = (s.cell b).flags.crawled) ∧
      ((ps.map lruIter).Nodup → (l.map (·.1)).Nodup) ∧
      s.webentityCrawledPages ps = .ok (l.filter (·.2)) := by
  obtain ⟨t, h, hi, _⟩ := reachable_invariants hs
  obtain ⟨l, hl⟩ := C05_ok hf
  exact ⟨l, hl, C05_member_model h hi hf hl, fun hnd => C05_nodup h hi hf hnd hl,
    (C05_crawled h hi hf hl).1⟩

/-- **C07, every history**: the webentity network counts the links submitted since the last `clear` -/
theorem C07_all (cfg : Config) (dflt : Rule) (rules : List (Bytes × Rule)) (ops : List Op)
    (hr : rulesCanonical rules) (hwf : ∀ op ∈ sinceClear ops, OpWf op)
    (hd : Disciplined (State.fresh cfg dflt rules []).1 ops)
    (s : State) (hs : s = (State.fresh cfg dflt rules []).1.run ops) (out auto : Bool) :
    NetOk (s.network out auto) ∧ NetOk (s.networkSlow out auto) ∧
    (∀ A B, netGet (s.network out auto) A B = s.specDir ((sinceClear ops).flatMap Op.links) out auto A B) ∧
    (∀ A B, netGet (s.networkSlow out auto) A B = netGet (s.network out auto) A B) ∧
    (∀ A B, netGet (s.network false auto) B A = netGet (s.network true auto) A B) ∧
    (∀ A B, netGet (s.networkSlow false auto) B A = netGet (s.networkSlow true auto) A B) ∧
    (∀ A B w, (∃ r ∈ s.network out auto, r.src = A ∧ (B, w) ∈ r.targets) ↔
      0 < w ∧ w = s.specDir ((sinceClear ops).flatMap Op.links) out auto A B) ∧
    (∀ A B w, (∃ r ∈ s.networkSlow out auto, r.src = A ∧ (B, w) ∈ r.targets) ↔
      0 < w ∧ w = s.specDir ((sinceClear ops).flatMap Op.links) out auto A B) ∧
    (∀ A, A ∈ (s.network out auto).map (·.src) ↔ A ≠ 0 ∧ ∃ lc ∈ s.pagesIter, s.weOf lc.1 = A) ∧
    (∀ A, A ∈ (s.networkSlow out auto).map (·.src) ↔
      ∃ B, 0 < s.specDir ((sinceClear ops).flatMap Op.links) out auto A B) ∧
    (∀ r ∈ s.network out auto,
      r.crawled = s.pageCount true r.src ∧ r.uncrawled = s.pageCount false r.src) ∧
    (∀ r ∈ s.networkSlow out auto, r.crawled = 0 ∧ r.uncrawled = 0 ∧ r.targets ≠ []) := by
  obtain ⟨t, v, _⟩ := linkView_all cfg dflt rules ops hr hwf hd
  rw [← hs] at v
  have ok := v.network_ok
  have ok' := networkSlow_ok v.shape v.par
  have hw : ∀ out A B, netW (s.networkSlow out auto) A B = s.specDir ((sinceClear ops).flatMap Op.links) out auto A B :=
    fun out A B => (v.C07_slow out auto A B).trans (v.C07_weight_dir out auto A B)
  refine ⟨ok out auto, ok' out auto, ?_, ?_, ?_, ?_, ?_, ?_, v.network_rows out auto, ?_,
    v.network_tally out auto, ?_⟩
  · intro A B
    rw [(ok out auto).netGet_eq]; exact v.C07_weight_dir out auto A B
  · intro A B
    rw [(ok out auto).netGet_eq, (ok' out auto).netGet_eq]; exact v.C07_slow out auto A B
  · intro A B
    rw [(ok false auto).netGet_eq, (ok true auto).netGet_eq]; exact v.C07_transpose auto A B
  · intro A B
    rw [(ok' false auto).netGet_eq, (ok' true auto).netGet_eq, v.C07_slow, v.C07_slow]
    exact v.C07_transpose auto A B
  · intro A B w
    rw [(ok out auto).edge_iff, v.C07_weight_dir]
  · intro A B w
    rw [(ok' out auto).edge_iff, hw]
  · intro A
    rw [networkSlow_rows v.shape v.par]
    constructor
    · rintro ⟨B, hB⟩; exact ⟨B, by rw [← hw]; exact hB⟩
    · rintro ⟨B, hB⟩; exact ⟨B, by rw [hw]; exact hB⟩
  · intro r hr
    obtain ⟨h1, h2⟩ := networkSlow_tally v.shape v.par out auto r hr
    exact ⟨h1, h2, networkSlow_targets_ne_nil v.shape v.par out auto r hr⟩

/-- …block-level form -/
theorem C07_blocks_all (cfg : Config) (dflt : Rule) (rules : List (Bytes × Rule)) (ops : List Op)
    (hr : rulesCanonical rules) (hwf : ∀ op ∈ sinceClear ops, OpWf op)
    (hd : Disciplined (State.fresh cfg dflt rules []).1 ops)
    (s : State) (hs : s = (State.fresh cfg dflt rules []).1.run ops) (out auto : Bool) (A B : Nat) :
    netW (s.network out auto) A B = (if netCond auto A B then s.blockW out A B else 0) ∧
    netW (s.networkSlow out auto) A B = (if netCond auto A B then s.blockW out A B else 0) ∧
    s.blockW false B A = s.blockW true A B ∧
    s.blockW out A B =
      (if out then s.linkCount ((sinceClear ops).flatMap Op.links) A B else s.linkCount ((sinceClear ops).flatMap Op.links) B A) := by
  obtain ⟨t, v, _⟩ := linkView_all cfg dflt rules ops hr hwf hd
  rw [← hs] at v
  exact ⟨v.network_blocks out auto A B, networkSlow_blocks v.shape v.par out auto A B,
    v.blockW_transpose A B, v.blockW_eq out A B⟩

/-- **C08, every reachable state** -/
theorem C08_all {s : State} (hs : Reachable s)
    (w : Nat) (ps : List Bytes) (hf : FullPrefixList s w ps) :
    (∀ incIn incInt incOut : Bool,
      (incIn = false ∧ incInt = false ∧ incOut = false →
        s.webentityPagelinks w ps incIn incInt incOut = .error .traph) ∧
      ((incIn || incInt || incOut) = true →
        ∃ l, s.webentityPagelinks w ps incIn incInt incOut = .ok l ∧
          (∀ src tgt k, (src, tgt, k) ∈ l ↔
            (OutLink s src tgt k ∧ s.retrieveWebentity src = .ok w ∧ SwitchOut s w incInt incOut tgt) ∨
            (incIn = true ∧ InLink s src tgt k ∧ s.retrieveWebentity tgt = .ok w ∧
              s.retrieveWebentity src ≠ .ok w)) ∧
          ((ps.map lruIter).Nodup → (l.map wlEnds).Nodup))) ∧
    (∀ src tgt k, OutLink s src tgt k → ∃ c, NodeOf s tgt c ∧ (s.cell c).flags.page = true) ∧
    (∀ src tgt k, InLink s src tgt k → ∃ c, NodeOf s src c ∧ (s.cell c).flags.page = true) ∧
    (∀ out : Bool, ∃ l, s.citedWebentities ps out = .ok l ∧ StrictAsc l ∧
      ∀ x, x ∈ l ↔ ∃ own other k, s.retrieveWebentity own = .ok w ∧
        ((out = true ∧ OutLink s own other k) ∨ (out = false ∧ InLink s other own k)) ∧ x = weOf s other) ∧
    (∃ cited citing, s.citedWebentities ps true = .ok cited ∧ s.citedWebentities ps false = .ok citing ∧
      s.webentityDegrees ps = .ok [citing.length, cited.length, citing.length + cited.length]) := by
  obtain ⟨t, h, hi, _, _, _, hk, _⟩ := reachable_invariants hs
  refine ⟨fun incIn incInt incOut => ⟨?_, fun hsw => ?_⟩, fun _ _ _ hl => hl.target_page hk,
    fun _ _ _ hl => hl.source_page hk, fun out => ?_, ?_⟩
  · rintro ⟨rfl, rfl, rfl⟩; rfl
  · obtain ⟨l, hl⟩ := C08_ok hf hsw
    exact ⟨l, hl, C08_links h hi hk hf hl, fun hnd => C08_each_once h hi hk hf hnd hl⟩
  · obtain ⟨l, hl⟩ := C08_cited_ok hf out
    obtain ⟨h1, h2⟩ := C08_cited h hi hk hf hl
    exact ⟨l, hl, h1, h2⟩
  · obtain ⟨cited, ho⟩ := C08_cited_ok hf true
    obtain ⟨citing, hin⟩ := C08_cited_ok hf false
    exact ⟨cited, citing, ho, hin, C08_degrees ho hin⟩

/-- …the switch combinations -/
theorem C08_switches_all {s : State} (hs : Reachable s)
    (w : Nat) (ps : List Bytes) (hf : FullPrefixList s w ps) :
    ∃ lInt lOut lIn, s.webentityPagelinks w ps false true false = .ok lInt ∧
      s.webentityPagelinks w ps false false true = .ok lOut ∧
      s.webentityPagelinks w ps true false false = .ok lIn ∧
      (∀ x, x ∈ lInt → x ∉ lOut) ∧ (∀ x, x ∈ lInt → x ∉ lIn) ∧ (∀ x, x ∈ lOut → x ∉ lIn) ∧
      ∀ (incIn incInt incOut : Bool) (l : List PageLink), s.webentityPagelinks w ps incIn incInt incOut = .ok l →
        ∀ x, x ∈ l ↔ (incInt = true ∧ x ∈ lInt) ∨ (incOut = true ∧ x ∈ lOut) ∨ (incIn = true ∧ x ∈ lIn) := by
  obtain ⟨t, h, hi, _, _, _, hk, _⟩ := reachable_invariants hs
  obtain ⟨lInt, hInt⟩ := C08_ok hf (incIn := false) (incInt := true) (incOut := false) rfl
  obtain ⟨lOut, hOut⟩ := C08_ok hf (incIn := false) (incInt := false) (incOut := true) rfl
  obtain ⟨lIn, hIn⟩ := C08_ok hf (incIn := true) (incInt := false) (incOut := false) rfl
  obtain ⟨d1, d2, d3, u⟩ := C08_switches h hi hk hf hInt hOut hIn
  exact ⟨lInt, lOut, lIn, hInt, hOut, hIn, d1, d2, d3, u⟩

/-- **C09, every reachable state** -/
theorem C09_all {s : State} (hs : Reachable s)
    (ps : List Bytes) (all : List (Bytes × Bool)) (hall : s.webentityPages ps = .ok all)
    (crawledOnly : Bool) (count : Nat) (hc : 1 ≤ count) :
    (∃ chunks : List PageChunk,
      PageEpisode s ps crawledOnly count none chunks ∧
      episodePages s ps crawledOnly count ((pageSeq s ps crawledOnly).length / count + 1) none = some chunks ∧
      chunks.flatMap (·.pages) = ps.flatMap (pagesOfPrefix s crawledOnly) ∧
      (ps.flatMap (pagesOfPrefix s crawledOnly)).Perm (if crawledOnly then all.filter (·.2) else all) ∧
      (∀ ch ∈ chunks, ch.count = ch.pages.length ∧ ch.crawled = crawledCount ch.pages) ∧
      (∀ ch ∈ chunks.dropLast, ch.done = false ∧ ch.pages.length = count ∧ ch.token.isSome = true) ∧
      (∃ l, chunks.getLast? = some l ∧ l.done = true ∧ l.token = none ∧ l.pages.length ≤ count)) ∧
    (∀ p ∈ ps, ((pagesOfPrefix s crawledOnly p).map (·.1)).Pairwise (fun a b => lexLt a b = true)) ∧
    (∀ pre x post, gItems s (enumFrom 0 ps) = pre ++ x :: post → ∀ count', 1 ≤ count' →
      ∃ chunks, PageEpisode s ps crawledOnly count' (some (buildToken x.1 x.2.2.2)) chunks ∧
        chunks.flatMap (·.pages) = post.flatMap (fun y => pgOut s crawledOnly (y.2.1, y.2.2.1))) := by
  obtain ⟨t, h, hi, _⟩ := reachable_invariants hs
  obtain ⟨chunks, h1, h2, h3, h4, h5, h6, h7⟩ := C09_episode h hi hall crawledOnly count hc
  have hok' : AllOk _ ps := allOk_of_shape h hi.wf (pages_unpaginated hall crawledOnly).1
  rw [pageSeq_eq] at h2 h3
  refine ⟨⟨chunks, h1, h1.run _ h7, h2, h3, h4, h5, h6⟩, fun p hp => pagesOfPrefix_sorted hok' crawledOnly hp,
    fun pre x post hG count' hc' => ?_⟩
  obtain ⟨chunks', g1, g2, _⟩ := C09_resume_anywhere h hi hall crawledOnly count' hc' pre x post hG
  exact ⟨chunks', g1, g2⟩

/-- **C10, every reachable state** -/
theorem C10_all {s : State} (hs : Reachable s)
    (weid : Nat) (ps : List Bytes) (incInt incOut : Bool) (all : List PageLink)
    (hall : s.webentityPagelinks weid ps false incInt incOut = .ok all) (count : Nat) (hc : 1 ≤ count) :
    (∃ (chunks : List LinkChunk) (groups : List (List GX)),
      LinkEpisode s weid ps incInt incOut count none chunks ∧
      episodeLinks s weid ps incInt incOut count
        ((linkSources s weid ps incInt incOut).length / count + 1) none = some chunks ∧
      (chunks.flatMap (·.links)).Perm all ∧
      groups.flatten = linkSources s weid ps incInt incOut ∧
      Forall2 (fun (ch : LinkChunk) grp =>
          ch.links = grp.flatMap (fun x => s.outLinksOfPage weid x.2.1 x.2.2.1 incInt incOut) ∧
          ch.sourcePages = grp.length) chunks groups ∧
      (∀ grp ∈ groups.dropLast, grp.length = count) ∧
      (∀ ch ∈ chunks.dropLast, ch.done = false ∧ ch.sourcePages = count ∧ ch.token.isSome = true) ∧
      (∃ l, chunks.getLast? = some l ∧ l.done = true ∧ l.token = none ∧ l.sourcePages ≤ count)) ∧
    (∀ pre x post, gItems s (enumFrom 0 ps) = pre ++ x :: post → ∀ count', 1 ≤ count' →
      ∃ chunks, LinkEpisode s weid ps incInt incOut count' (some (buildToken x.1 x.2.2.2)) chunks ∧
        chunks.flatMap (·.links) = post.flatMap (fun y => srcLinks s weid incInt incOut (y.2.1, y.2.2.1))) := by
  obtain ⟨t, h, hi, _⟩ := reachable_invariants hs
  obtain ⟨chunks, groups, h1, h2, h3, h4, h5, h6, h7, h8⟩ := C10_episode h hi hall count hc
  refine ⟨⟨chunks, groups, h1, h1.run _ h8, h2, h3, h4, h5, h6, h7⟩, fun pre x post hG count' hc' => ?_⟩
  obtain ⟨chunks', g1, g2, _⟩ := C10_resume_anywhere h hi hall count' hc' pre x post hG
  exact ⟨chunks', g1, g2⟩

/-- **C13, every reachable state**: the pruning-mark invariant, and the answer of
    `get_webentity_child_webentities` is exactly the set of ids (other than the queried one) attached to a stored
    path extending one of the given prefixes -/
theorem C13_all {s : State} (hs : Reachable s) :
    ∃ t, Shape s t ∧ MarkOk s t ∧
      (∀ a ∈ t.addrs, ∀ (lru : Bytes) (w : Nat),
        ∃ l c r, Rep s (.node a l c r) ∧ (∀ x ∈ c.addrs, x ∈ t.addrs) ∧
          ∀ x, (x ≠ 0 ∧ x ≠ w ∧ ∃ b ∈ a :: c.addrs, (s.cell b).we = x) ↔
               (x ≠ 0 ∧ x ≠ w ∧ ∃ bl ∈ s.dfsIter (some (a, lru)) true, (s.cell bl.1).we = x)) ∧
      (∀ (w : Nat) (ps : List Bytes), (∀ p ∈ ps, lruIter p ≠ []) → ∀ l : List Nat,
        s.childWebentities w ps = .ok l →
        ∀ x, x ∈ l ↔ x ≠ 0 ∧ x ≠ w ∧ ∃ p ∈ ps, ∃ q b, (q, b) ∈ t.entries s [] ∧
          lruIter p <+: q ∧ (s.cell b).we = x) := by
  obtain ⟨t, h, _, _, _, hm, _⟩ := reachable_invariants hs
  exact ⟨t, h, hm, fun a ha lru w => C13_children_exact_of_shape h hm ha lru w,
    fun w ps hps l hl x => C13_childWebentities_exact h hm w ps hps l hl x⟩

/-- **C20, every reachable state** (`C20_all` is taken by Proofs/MostLinked.lean) -/
theorem C20_all_reachable {s : State} (hs : Reachable s) :
    ∃ t, Shape s t ∧ Traph.Inv s t ∧
      (∀ w ps k depth, FullPrefixList s w ps →
        ∃ pages l, s.mostLinked ps k depth = .ok l ∧ l = rank k pages ∧
          (∀ lru m, (lru, m) ∈ pages ↔ IsCandidate s t w depth lru m) ∧
          ((ps.map lruIter).Nodup → (pages.map (·.1)).Nodup) ∧
          l.length = min k pages.length ∧
          (∃ dropped, (l ++ dropped).Perm pages ∧ ∀ x ∈ l, ∀ d ∈ dropped, d.2 ≤ x.2) ∧
          (∀ lru m, (lru, m) ∈ l → IsCandidate s t w depth lru m) ∧
          (l.map (·.2)).Pairwise (· ≥ ·) ∧
          (∀ lru m, IsCandidate s t w depth lru m → (lru, m) ∉ l → ∀ x ∈ l, m ≤ x.2) ∧
          ((ps.map lruIter).Nodup → (l.map (·.1)).Nodup)) ∧
      (∀ head, head ≠ 0 → s.indegreeEntries head = (s.walk head).eraseDups.length) ∧
      (s.cfg.lonelyIndegreeOne = true → s.indegreeEntries 0 = 1 ∧
        ∀ head, s.indegreeEntries head = (s.walk head).eraseDups.length) ∧
      (s.cfg.lonelyIndegreeOne = false → s.indegreeEntries 0 = 0) ∧
      (∀ w, w ≠ 0 → FullPrefixList s w (prefixesOf s w) ∧ ((prefixesOf s w).map lruIter).Nodup) := by
  obtain ⟨t, h, hi, _, _, _, _, _, _, _, hh, _⟩ := reachable_invariants hs
  exact ⟨t, h, hi, fun w ps k depth hf => C20_answer h hi hf k depth,
    fun head hne => indegreeEntries_linked _ head hne,
    fun hc => ⟨indegreeEntries_lonely_true _ hc, fun head => indegreeEntries_header _ hh hc head⟩,
    fun hc => indegreeEntries_lonely_false _ hc,
    fun w hw => prefixesOf_full h hi hw⟩

/-- **C18 (request boundaries), every reachable state**: every stored pointer is inside the two files, so the
    walks of the queries never read outside them -/
theorem C18_walks_all {s : State} (hs : Reachable s) : Whole s ∧ WalksSafe s s.trie.size := by
  obtain ⟨t, _, _, _, _, _, _, _, _, hw, _⟩ := reachable_invariants hs
  exact ⟨hw, PtrOkAt.walksSafe hw⟩

/-- **C16 (no request fails), every reachable state**: a request meeting the discipline is never aborted by
    `KeyError` -/
theorem C16_noKeyErr_all {s : State} (hs : Reachable s) (op : Op) (hd : StepOk s op) :
    (s.step op).2 ≠ .err (.other "KeyError") := by
  obtain ⟨t, h, _, _, _, _, _, _, ok, _⟩ := reachable_invariants hs
  exact step_noKeyErr h ok op hd

/-! ### the same under the discipline without the `removeRule` clause (refused `removeRule`s dropped) -/

/-- `linkView_all` for histories in which `removeRule` may name rules that are not in RAM (such requests are refused
    by the dictionary look-up with `KeyError` and change nothing): same conclusion, about the same history -/
theorem linkView_all0 (cfg : Config) (dflt : Rule) (rules : List (Bytes × Rule)) (ops : List Op)
    (hr : rulesCanonical rules) (hwf : ∀ op ∈ ops, OpWf op)
    (hd : Disciplined0 (State.fresh cfg dflt rules []).1 ops) :
    ∃ t, LinkView ((State.fresh cfg dflt rules []).1.run ops) t ((sinceClear ops).flatMap Op.links) ∧
      (∀ p, IsPage ((State.fresh cfg dflt rules []).1.run ops) t p ↔ Submitted (sinceClear ops) p) := by
  have hwf' : ∀ op ∈ sinceClear ((State.fresh cfg dflt rules []).1.prune ops), OpWf op :=
    fun op ho => hwf op (prune_sub ops _ op (sinceClear_sub _ op ho))
  obtain ⟨t, v, hp, _⟩ := linkView_all cfg dflt rules _ hr hwf' (disciplined_prune ops _ hd)
  rw [run_prune] at v hp
  rw [prune_sinceClear_flatMap Op.links (fun _ => rfl)] at v
  refine ⟨t, v, fun p => ?_⟩
  rw [hp]
  have e := prune_sinceClear_flatMap Op.pages (fun _ => rfl) (State.fresh cfg dflt rules []).1 ops
  unfold Submitted
  constructor
  · rintro ⟨op, ho, x, hx, rfl⟩
    have : x ∈ (sinceClear ops).flatMap Op.pages := by
      rw [← e]; exact List.mem_flatMap.mpr ⟨op, ho, hx⟩
    obtain ⟨op', ho', hx'⟩ := List.mem_flatMap.mp this
    exact ⟨op', ho', x, hx', rfl⟩
  · rintro ⟨op, ho, x, hx, rfl⟩
    have : x ∈ (sinceClear ((State.fresh cfg dflt rules []).1.prune ops)).flatMap Op.pages := by
      rw [e]; exact List.mem_flatMap.mpr ⟨op, ho, hx⟩
    obtain ⟨op', ho', hx'⟩ := List.mem_flatMap.mp this
    exact ⟨op', ho', x, hx', rfl⟩

/-- C01, pages, under `Disciplined0` -/
theorem C01_pages_all0 (cfg : Config) (dflt : Rule) (rules : List (Bytes × Rule)) (ops : List Op)
    (hr : rulesCanonical rules) (hwf : ∀ op ∈ ops, OpWf op)
    (hd : Disciplined0 (State.fresh cfg dflt rules []).1 ops) :
    ∃ t, Shape ((State.fresh cfg dflt rules []).1.run ops) t ∧
      ∀ p, IsPage ((State.fresh cfg dflt rules []).1.run ops) t p ↔
        ∃ op ∈ sinceClear ops, ∃ x ∈ op.pages, x.1 = p := by
  obtain ⟨t, v, hp⟩ := linkView_all0 cfg dflt rules ops hr hwf hd
  exact ⟨t, v.shape, hp⟩

/-! ### non-vacuity: the example history of Proofs/Discipline.lean (constructor rule, `addRule`, re-supplying `reopen`,
    `removeRule`, `clear` without and with rules) -/
section Examples

local instance : DecidablePred OpWf := fun op => by cases op <;> unfold OpWf <;> infer_instance

/-- the state it reaches is `Reachable`: every theorem above applies to it -/
theorem uaEx_reachable : Reachable (uaS0.run uaExOps) :=
  reachable_fresh {} .never [(uaA, .domain)] uaExOps uaEx_disciplined.1 (by decide) uaEx_disciplined.2.1

/-- what counts is what came after the last `clear` -/
example : sinceClear uaExOps = [.batch [(uaAC, [uaAB, uaA])], .removeRule uaAC] ∧
    lastClearArgs uaExOps = some (some .domain, some [(uaAC, .path 1)]) := by decide

/-- …so the pages are those of the crawl batch, read back by the model -/
example : (uaS0.run uaExOps).pagesIter = [(uaA, false), (uaAC, true), (uaAB, false)] := by decide

end Examples

#print axioms linkView_all
#print axioms linkView_all0
#print axioms C01_pages_all
#print axioms C01_enumeration_all
#print axioms C03_history_all
#print axioms C03_totals_all
#print axioms C04_history_all
#print axioms C02_known_all
#print axioms C19_all
#print axioms C05_all
#print axioms C07_all
#print axioms C08_all
#print axioms C09_all
#print axioms C10_all
#print axioms C13_all
#print axioms C20_all_reachable
#print axioms C18_walks_all

end Traph

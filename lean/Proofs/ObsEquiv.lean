import Traph
import Proofs.LogIndep
/-! Observational equivalence of index states (C11).

    Two states are *observationally equivalent* (`ObsEq s s'`, notation `s ≃ₒ s'`) when they have the same two
    files (`trie`, `links`), the same id counter, the same configuration, the same default rule and RAM rule
    dicts with the same CONTENT (`RulesEq`: the same answer to every look-up — the association lists may be
    permutations of one another, may repeat shadowed keys…). The ghost write log is ignored.

    This file: the relation is an equivalence; every read-only request (`Query`, all 26) has the same answer in
    equivalent states (`oe_ask`). The write requests are in `Proofs/ObsEquivOps.lean`. -/
namespace Traph
open State

/-! ### dict content -/

/-- same content: every look-up has the same answer -/
def RulesEq {α β} [DecidableEq α] (a b : List (α × β)) : Prop := ∀ k, dictGet? a k = dictGet? b k

theorem RulesEq.refl {α β} [DecidableEq α] (a : List (α × β)) : RulesEq a a := fun _ => rfl
theorem RulesEq.symm {α β} [DecidableEq α] {a b : List (α × β)} (h : RulesEq a b) : RulesEq b a := fun k => (h k).symm
theorem RulesEq.trans {α β} [DecidableEq α] {a b c : List (α × β)} (h : RulesEq a b) (h' : RulesEq b c) :
    RulesEq a c := fun k => (h k).trans (h' k)

theorem oe_dictGet_nil {α β} [DecidableEq α] (k : α) : dictGet? ([] : List (α × β)) k = none := rfl

theorem oe_dictGet_cons {α β} [DecidableEq α] (k' : α) (v' : β) (d : List (α × β)) (k : α) :
    dictGet? ((k', v') :: d) k = if k' = k then some v' else dictGet? d k := by
  by_cases h : k' = k <;> simp [dictGet?, h]

/-- look-up after `d[a] = v` -/
theorem oe_dictGet_dictSet {α β} [DecidableEq α] (d : List (α × β)) (a : α) (v : β) (k : α) :
    dictGet? (dictSet d a v) k = if a = k then some v else dictGet? d k := by
  induction d with
  | nil => simp only [dictSet, oe_dictGet_cons, oe_dictGet_nil]
  | cons x rest ih =>
    obtain ⟨k', v'⟩ := x
    simp only [dictSet]
    by_cases h : k' = a
    · subst h
      simp only [if_true, oe_dictGet_cons]
      split <;> rfl
    · simp only [if_neg h, oe_dictGet_cons, ih]
      by_cases h1 : k' = k
      · subst h1
        simp only [if_true, if_neg (fun e : a = k' => h e.symm)]
      · simp only [if_neg h1]

/-- look-up after `del d[a]` (the model erases every entry of the key) -/
theorem oe_dictGet_erase {α β} [DecidableEq α] (d : List (α × β)) (a : α) (k : α) :
    dictGet? (d.filter (fun p => p.1 ≠ a)) k = if k = a then none else dictGet? d k := by
  induction d with
  | nil => simp only [List.filter_nil, oe_dictGet_nil]; split <;> rfl
  | cons x rest ih =>
    obtain ⟨k', v'⟩ := x
    by_cases h : k' = a
    · subst h
      rw [List.filter_cons_of_neg (by simp), ih, oe_dictGet_cons]
      by_cases h1 : k = k'
      · simp only [if_pos h1]
      · simp only [if_neg h1, if_neg (fun e : k' = k => h1 e.symm)]
    · rw [List.filter_cons_of_pos (by simpa using h), oe_dictGet_cons, oe_dictGet_cons, ih]
      by_cases h1 : k' = k
      · subst h1
        simp only [if_true, if_neg h]
      · simp only [if_neg h1]

theorem RulesEq.dictSet {α β} [DecidableEq α] {a b : List (α × β)} (h : RulesEq a b) (x : α) (v : β) :
    RulesEq (dictSet a x v) (dictSet b x v) := fun k => by
  rw [oe_dictGet_dictSet, oe_dictGet_dictSet, h k]

theorem RulesEq.erase {α β} [DecidableEq α] {a b : List (α × β)} (h : RulesEq a b) (x : α) :
    RulesEq (a.filter (fun p => p.1 ≠ x)) (b.filter (fun p => p.1 ≠ x)) := fun k => by
  rw [oe_dictGet_erase, oe_dictGet_erase, h k]

/-- a dict built by successive assignments: the LAST assignment of a key wins -/
theorem oe_dictGet_build {α β} [DecidableEq α] (rs : List (α × β)) (acc : List (α × β)) (k : α) :
    dictGet? (rs.foldl (fun d ar => dictSet d ar.1 ar.2) acc) k
      = (dictGet? rs.reverse k).or (dictGet? acc k) := by
  induction rs generalizing acc with
  | nil => simp [oe_dictGet_nil]
  | cons x rest ih =>
    obtain ⟨a, v⟩ := x
    rw [List.foldl_cons, ih, oe_dictGet_dictSet, List.reverse_cons]
    have happ : ∀ (l : List (α × β)), dictGet? (l ++ [(a, v)]) k
        = (dictGet? l k).or (if a = k then some v else none) := by
      intro l
      induction l with
      | nil => simp only [List.nil_append, oe_dictGet_cons, oe_dictGet_nil, Option.none_or]
      | cons y l ihl =>
        obtain ⟨b, w⟩ := y
        rw [List.cons_append, oe_dictGet_cons, oe_dictGet_cons, ihl]
        split <;> rfl
    rw [happ]
    cases dictGet? rest.reverse k with
    | some w => rfl
    | none =>
      simp only [Option.none_or]
      split <;> rfl

/-- the content of the dict a caller's list of `(anchor, rule)` items builds (`Traph(…, webentity_creation_rules=…)`) -/
theorem oe_dictGet_built {α β} [DecidableEq α] (rs : List (α × β)) (k : α) :
    dictGet? (rs.foldl (fun d ar => dictSet d ar.1 ar.2) []) k = dictGet? rs.reverse k := by
  rw [oe_dictGet_build, oe_dictGet_nil, Option.or_none]

theorem oe_dictGet_some_mem {α β} [DecidableEq α] {d : List (α × β)} {k : α} {v : β}
    (h : dictGet? d k = some v) : (k, v) ∈ d := by
  induction d with
  | nil => simp [oe_dictGet_nil] at h
  | cons x rest ih =>
    obtain ⟨k', v'⟩ := x
    rw [oe_dictGet_cons] at h
    by_cases h1 : k' = k
    · rw [if_pos h1] at h
      cases h; subst h1; exact List.mem_cons_self
    · rw [if_neg h1] at h
      exact List.mem_cons_of_mem _ (ih h)

theorem oe_dictGet_none_iff {α β} [DecidableEq α] {d : List (α × β)} {k : α} :
    dictGet? d k = none ↔ k ∉ d.map (·.1) := by
  induction d with
  | nil => simp [oe_dictGet_nil]
  | cons x rest ih =>
    obtain ⟨k', v'⟩ := x
    rw [oe_dictGet_cons]
    by_cases h1 : k' = k
    · simp [h1]
    · rw [if_neg h1, ih]
      simp only [List.map_cons, List.mem_cons, not_or]
      exact ⟨fun h => ⟨fun e => h1 e.symm, h⟩, fun h => h.2⟩

/-- with distinct keys, a look-up finds exactly the items of the list -/
theorem oe_dictGet_eq_some_iff {α β} [DecidableEq α] {d : List (α × β)} (hn : (d.map (·.1)).Nodup) {k : α} {v : β} :
    dictGet? d k = some v ↔ (k, v) ∈ d := by
  refine ⟨oe_dictGet_some_mem, fun hm => ?_⟩
  induction d with
  | nil => simp at hm
  | cons x rest ih =>
    obtain ⟨k', v'⟩ := x
    simp only [List.map_cons, List.nodup_cons] at hn
    rw [oe_dictGet_cons]
    rcases List.mem_cons.mp hm with e | hm
    · cases e; simp
    · have : k' ≠ k := by
        intro e; subst e
        exact hn.1 (List.mem_map.mpr ⟨(k', v), hm, rfl⟩)
      rw [if_neg this]
      exact ih hn.2 hm

/-- with distinct keys, the content does not depend on the order of the items -/
theorem RulesEq.of_perm {α β} [DecidableEq α] {a b : List (α × β)} (hn : (a.map (·.1)).Nodup) (hp : a.Perm b) :
    RulesEq a b := by
  have hn' : (b.map (·.1)).Nodup := (hp.map (·.1)).nodup_iff.mp hn
  intro k
  cases h : dictGet? b k with
  | some v =>
    rw [oe_dictGet_eq_some_iff hn]
    exact hp.mem_iff.mpr (oe_dictGet_some_mem h)
  | none =>
    rw [oe_dictGet_none_iff] at h ⊢
    intro hm
    exact h ((hp.map (·.1)).mem_iff.mp hm)

/-! ### the relation -/

/-- observational equivalence: the same files, id counter, configuration, default rule, and the same content of the
    RAM rule dict; the ghost write log is ignored -/
structure ObsEq (s s' : State) : Prop where
  hdrId : s'.hdrId = s.hdrId
  trie  : s'.trie = s.trie
  links : s'.links = s.links
  cfg   : s'.cfg = s.cfg
  dflt  : s'.dflt = s.dflt
  rules : RulesEq s.rules s'.rules

@[inherit_doc] infix:50 " ≃ₒ " => ObsEq

theorem ObsEq.refl (s : State) : s ≃ₒ s := ⟨rfl, rfl, rfl, rfl, rfl, RulesEq.refl _⟩
theorem ObsEq.symm {s s' : State} (h : s ≃ₒ s') : s' ≃ₒ s :=
  ⟨h.hdrId.symm, h.trie.symm, h.links.symm, h.cfg.symm, h.dflt.symm, h.rules.symm⟩
theorem ObsEq.trans {a b c : State} (h : a ≃ₒ b) (h' : b ≃ₒ c) : a ≃ₒ c :=
  ⟨h'.hdrId.trans h.hdrId, h'.trie.trans h.trie, h'.links.trans h.links, h'.cfg.trans h.cfg,
    h'.dflt.trans h.dflt, h.rules.trans h'.rules⟩

theorem obsEq_equivalence : Equivalence ObsEq := ⟨ObsEq.refl, ObsEq.symm, ObsEq.trans⟩

/-- the same state with another RAM dict and another log -/
def State.oe_ram (s : State) (rs : List (Bytes × Rule)) (lg : List Write) : State := { s with rules := rs, log := lg }

/-- the same state with another RAM dict -/
def State.oe_setRules (s : State) (rs : List (Bytes × Rule)) : State := { s with rules := rs }

namespace State

theorem oe_ram_trie (s : State) (rs lg) : (s.oe_ram rs lg).trie = s.trie := rfl
theorem oe_ram_links (s : State) (rs lg) : (s.oe_ram rs lg).links = s.links := rfl
theorem oe_ram_hdrId (s : State) (rs lg) : (s.oe_ram rs lg).hdrId = s.hdrId := rfl
theorem oe_ram_cfg (s : State) (rs lg) : (s.oe_ram rs lg).cfg = s.cfg := rfl
theorem oe_ram_dflt (s : State) (rs lg) : (s.oe_ram rs lg).dflt = s.dflt := rfl
theorem oe_ram_rules (s : State) (rs lg) : (s.oe_ram rs lg).rules = rs := rfl
theorem oe_ram_log (s : State) (rs lg) : (s.oe_ram rs lg).log = lg := rfl
theorem oe_ram_cell (s : State) (rs lg) (i : Nat) : (s.oe_ram rs lg).cell i = s.cell i := rfl
theorem oe_ram_self (s : State) : s.oe_ram s.rules s.log = s := rfl

end State

/-- equivalent states differ by their RAM dict and log only -/
theorem ObsEq.eq_ram {s s' : State} (h : s ≃ₒ s') : s' = s.oe_ram s'.rules s'.log := by
  obtain ⟨h1, h2, h3, h4, h5, _⟩ := h
  cases s; cases s'
  simp only at h1 h2 h3 h4 h5
  subst h1 h2 h3 h4 h5
  rfl

theorem obsEq_ram (s : State) (rs : List (Bytes × Rule)) (lg : List Write) (h : RulesEq s.rules rs) :
    s ≃ₒ s.oe_ram rs lg := ⟨rfl, rfl, rfl, rfl, rfl, h⟩

theorem obsEq_iff (s s' : State) : s ≃ₒ s' ↔ ∃ rs lg, RulesEq s.rules rs ∧ s' = s.oe_ram rs lg :=
  ⟨fun h => ⟨s'.rules, s'.log, h.rules, h.eq_ram⟩, fun ⟨rs, lg, h, e⟩ => e ▸ obsEq_ram s rs lg h⟩

/-- the log is not observable -/
theorem obsEq_addLog (s : State) (l : List Write) : s ≃ₒ s.addLog l := ⟨rfl, rfl, rfl, rfl, rfl, RulesEq.refl _⟩

namespace State

/-- rewrite with the given lemmas, then close what is left up to unfolding (decidability instances still mention the
    modified state) -/
local macro "oe_simp" "[" ls:Lean.Parser.Tactic.simpLemma,* "]" : tactic =>
  `(tactic| (simp only [$ls,*] <;> try rfl))

/-! ### read-only functions of the trie -/

theorem oe_readTail (s : State) (rs lg) (fuel i : Nat) : (s.oe_ram rs lg).readTail fuel i = s.readTail fuel i := by
  induction fuel generalizing i with
  | zero => rfl
  | succ n ih => oe_simp [readTail, oe_ram_trie, ih]

theorem oe_stemAt (s : State) (rs lg) (i : Nat) : (s.oe_ram rs lg).stemAt i = s.stemAt i := by
  oe_simp [stemAt, oe_ram_trie, oe_readTail]

theorem oe_findSib (s : State) (rs lg) (stem : Stem) (fuel p : Nat) :
    (s.oe_ram rs lg).findSib stem fuel p = s.findSib stem fuel p := by
  induction fuel generalizing p with
  | zero => rfl
  | succ n ih => oe_simp [findSib, oe_ram_trie, oe_stemAt, ih]

theorem oe_lruNodeGo (s : State) (rs lg) (stems : List Stem) (node : Nat) :
    (s.oe_ram rs lg).lruNodeGo stems node = s.lruNodeGo stems node := by
  induction stems generalizing node with
  | nil => rfl
  | cons st rest ih => oe_simp [lruNodeGo, oe_ram_trie, oe_findSib, oe_ram_cell, ih]

theorem oe_lruNode (s : State) (rs lg) (stems : LRU) : (s.oe_ram rs lg).lruNode stems = s.lruNode stems := by
  oe_simp [lruNode, oe_ram_trie, oe_lruNodeGo]

theorem oe_followLruGo (s : State) (rs lg) (stems : List Stem) (node pos : Nat) (h : Hist) :
    (s.oe_ram rs lg).followLruGo stems node pos h = s.followLruGo stems node pos h := by
  induction stems generalizing node pos h with
  | nil => rfl
  | cons st rest ih => oe_simp [followLruGo, oe_ram_trie, oe_findSib, oe_ram_cell, ih]

theorem oe_followLru (s : State) (rs lg) (stems : LRU) : (s.oe_ram rs lg).followLru stems = s.followLru stems := by
  oe_simp [followLru, oe_ram_trie, oe_followLruGo]

theorem oe_parentsGo (s : State) (rs lg) (fuel b : Nat) : (s.oe_ram rs lg).parentsGo fuel b = s.parentsGo fuel b := by
  induction fuel generalizing b with
  | zero => rfl
  | succ n ih => oe_simp [parentsGo, oe_ram_cell, ih]

theorem oe_parents (s : State) (rs lg) (b : Nat) : (s.oe_ram rs lg).parents b = s.parents b := by
  oe_simp [parents, oe_ram_trie, oe_parentsGo]

theorem oe_windup (s : State) (rs lg) (b : Nat) : (s.oe_ram rs lg).windup b = s.windup b := by
  oe_simp [windup, oe_parents, oe_stemAt]

theorem oe_windupWe (s : State) (rs lg) (b : Nat) : (s.oe_ram rs lg).windupWe b = s.windupWe b := by
  oe_simp [windupWe, oe_parents, oe_ram_cell]

theorem oe_dfsGo (s : State) (rs lg) (fromRoot : Bool) (startBlock : Nat) (skip : Bool) (fuel : Nat)
    (stack : List (Nat × Bytes)) :
    (s.oe_ram rs lg).dfsGo fromRoot startBlock skip fuel stack = s.dfsGo fromRoot startBlock skip fuel stack := by
  induction fuel generalizing stack with
  | zero => rfl
  | succ n ih =>
    cases stack with
    | nil => rfl
    | cons x stack =>
      obtain ⟨b, lru⟩ := x
      oe_simp [dfsGo, oe_ram_cell, oe_stemAt, ih]

theorem oe_dfsIter (s : State) (rs lg) (start : Option (Nat × Bytes)) (skip : Bool) :
    (s.oe_ram rs lg).dfsIter start skip = s.dfsIter start skip := by
  oe_simp [dfsIter, oe_ram_trie, oe_dfsGo]

theorem oe_weDfsGo (s : State) (rs lg) (startBlock : Nat) (maxDepth : Option Nat) (fuel : Nat)
    (stack : List (Nat × Bytes × Nat)) :
    (s.oe_ram rs lg).weDfsGo startBlock maxDepth fuel stack = s.weDfsGo startBlock maxDepth fuel stack := by
  induction fuel generalizing stack with
  | zero => rfl
  | succ n ih =>
    cases stack with
    | nil => rfl
    | cons x stack =>
      obtain ⟨b, lru, level⟩ := x
      oe_simp [weDfsGo, oe_ram_cell, oe_stemAt, ih]

theorem oe_weDfs (s : State) (rs lg) (start : Nat) (startLru : Bytes) (maxDepth : Option Nat) :
    (s.oe_ram rs lg).weDfs start startLru maxDepth = s.weDfs start startLru maxDepth := by
  oe_simp [weDfs, oe_ram_trie, oe_weDfsGo]

theorem oe_dfsWeGo (s : State) (rs lg) (fuel : Nat) (stack : List (Nat × Nat)) :
    (s.oe_ram rs lg).dfsWeGo fuel stack = s.dfsWeGo fuel stack := by
  induction fuel generalizing stack with
  | zero => rfl
  | succ n ih =>
    cases stack with
    | nil => rfl
    | cons x stack =>
      obtain ⟨b, we⟩ := x
      oe_simp [dfsWeGo, oe_ram_cell, ih]

theorem oe_dfsWe (s : State) (rs lg) : (s.oe_ram rs lg).dfsWe = s.dfsWe := by
  oe_simp [dfsWe, oe_ram_trie, oe_dfsWeGo]

theorem oe_followPath (s : State) (rs lg) (ops : List Nat) (n : Nat) (lru : Bytes) :
    (s.oe_ram rs lg).followPath ops n lru = s.followPath ops n lru := by
  induction ops generalizing n lru with
  | nil => oe_simp [followPath, oe_stemAt]
  | cons op ops ih => oe_simp [followPath, oe_ram_cell, oe_stemAt, ih]

theorem oe_inorderGo (s : State) (rs lg) (startBlock : Nat) (pag : Option (Bytes × Bytes)) (fuel b : Nat)
    (lru : Bytes) (path : Nat) :
    (s.oe_ram rs lg).inorderGo startBlock pag fuel b lru path = s.inorderGo startBlock pag fuel b lru path := by
  induction fuel generalizing b lru path with
  | zero => rfl
  | succ n ih => oe_simp [inorderGo, oe_ram_cell, oe_stemAt, ih]

theorem oe_weInorder (s : State) (rs lg) (start : Nat) (startLru : Bytes) (pagPath : Option Nat) :
    (s.oe_ram rs lg).weInorder start startLru pagPath = s.weInorder start startLru pagPath := by
  oe_simp [weInorder, oe_ram_trie, oe_inorderGo, oe_followPath]

theorem oe_allBlocks (s : State) (rs lg) : (s.oe_ram rs lg).allBlocks = s.allBlocks := rfl

/-! ### read-only functions of the link store -/

theorem oe_walkGo (s : State) (rs lg) (fuel i : Nat) : (s.oe_ram rs lg).walkGo fuel i = s.walkGo fuel i := by
  induction fuel generalizing i with
  | zero => rfl
  | succ n ih => oe_simp [walkGo, oe_ram_links, ih]

theorem oe_walk (s : State) (rs lg) (head : Nat) : (s.oe_ram rs lg).walk head = s.walk head := by
  oe_simp [walk, oe_ram_links, oe_walkGo]

theorem oe_weighted (s : State) (rs lg) (head : Nat) : (s.oe_ram rs lg).weighted head = s.weighted head := by
  oe_simp [weighted, oe_walk]

theorem oe_deduped (s : State) (rs lg) (head : Nat) : (s.oe_ram rs lg).deduped head = s.deduped head := by
  oe_simp [deduped, oe_weighted]

theorem oe_indegreeEntries (s : State) (rs lg) (head : Nat) :
    (s.oe_ram rs lg).indegreeEntries head = s.indegreeEntries head := by
  oe_simp [indegreeEntries, oe_ram_cfg, oe_weighted]

/-! ### the queries -/

/-- the only place where the RAM dict is read: its CONTENT only -/
theorem oe_longestCandidate (s : State) (rs lg) (hr : RulesEq s.rules rs) (lru : Bytes) (h : Hist) :
    (s.oe_ram rs lg).longestCandidate lru h = s.longestCandidate lru h := by
  oe_simp [longestCandidate, oe_ram_rules, ← hr _]

theorem oe_retrievePrefix (s : State) (rs lg) (lru : Bytes) :
    (s.oe_ram rs lg).retrievePrefix lru = s.retrievePrefix lru := by
  oe_simp [retrievePrefix, oe_followLru]

theorem oe_retrieveWebentity (s : State) (rs lg) (lru : Bytes) :
    (s.oe_ram rs lg).retrieveWebentity lru = s.retrieveWebentity lru := by
  oe_simp [retrieveWebentity, oe_followLru]

theorem oe_potentialPrefix (s : State) (rs lg) (hr : RulesEq s.rules rs) (lru : Bytes) :
    (s.oe_ram rs lg).potentialPrefix lru = s.potentialPrefix lru := by
  oe_simp [potentialPrefix, oe_followLru, oe_longestCandidate s rs lg hr, oe_ram_dflt]

theorem oe_webentityByPrefix (s : State) (rs lg) (pfx : Bytes) :
    (s.oe_ram rs lg).webentityByPrefix pfx = s.webentityByPrefix pfx := by
  oe_simp [webentityByPrefix, oe_lruNode, oe_ram_cell]

theorem oe_forPrefixesStep {α} (s : State) (rs lg) (f : Nat → Bytes → List α) :
    (s.oe_ram rs lg).forPrefixesStep f = s.forPrefixesStep f := by
  funext acc p
  oe_simp [forPrefixesStep, oe_lruNode]

theorem oe_forPrefixes {α} (s : State) (rs lg) (ps : List Bytes) (f : Nat → Bytes → List α) :
    (s.oe_ram rs lg).forPrefixes ps f = s.forPrefixes ps f := by
  oe_simp [forPrefixes, oe_forPrefixesStep]

theorem oe_webentityPages (s : State) (rs lg) (ps : List Bytes) :
    (s.oe_ram rs lg).webentityPages ps = s.webentityPages ps := by
  oe_simp [webentityPages, oe_forPrefixes, oe_weDfs, oe_ram_cell]

theorem oe_webentityCrawledPages (s : State) (rs lg) (ps : List Bytes) :
    (s.oe_ram rs lg).webentityCrawledPages ps = s.webentityCrawledPages ps := by
  oe_simp [webentityCrawledPages, oe_webentityPages]

theorem oe_paginatePagesItems (s : State) (rs lg) (k : Option Nat) (co : Bool) (i : Nat)
    (items : List (Nat × Bytes × Nat)) (acc : PagAcc) :
    (s.oe_ram rs lg).paginatePagesItems k co i items acc = s.paginatePagesItems k co i items acc := by
  induction items generalizing acc with
  | nil => rfl
  | cons x rest ih =>
    obtain ⟨b, lru, path⟩ := x
    oe_simp [paginatePagesItems, oe_ram_cell, ih]

theorem oe_paginatePagesPrefixes (s : State) (rs lg) (k : Option Nat) (co : Bool) (ps : List (Nat × Bytes))
    (pagPath : Option Nat) (acc : PagAcc) :
    (s.oe_ram rs lg).paginatePagesPrefixes k co ps pagPath acc = s.paginatePagesPrefixes k co ps pagPath acc := by
  induction ps generalizing pagPath acc with
  | nil => rfl
  | cons x rest ih =>
    obtain ⟨i, p⟩ := x
    oe_simp [paginatePagesPrefixes, oe_lruNode, oe_weInorder, oe_paginatePagesItems, ih]

theorem oe_paginatePages (s : State) (rs lg) (ps : List Bytes) (k : Option Nat) (t : Option Bytes) (co : Bool) :
    (s.oe_ram rs lg).paginatePages ps k t co = s.paginatePages ps k t co := by
  oe_simp [paginatePages, oe_paginatePagesPrefixes]

theorem oe_mostLinked (s : State) (rs lg) (ps : List Bytes) (k : Nat) (d : Option Nat) :
    (s.oe_ram rs lg).mostLinked ps k d = s.mostLinked ps k d := by
  oe_simp [mostLinked, oe_forPrefixes, oe_weDfs, oe_ram_cell, oe_indegreeEntries]

theorem oe_parentWebentities (s : State) (rs lg) (w : Nat) (ps : List Bytes) :
    (s.oe_ram rs lg).parentWebentities w ps = s.parentWebentities w ps := by
  oe_simp [parentWebentities, oe_forPrefixes, oe_parents, oe_ram_cell]

theorem oe_childWebentities (s : State) (rs lg) (w : Nat) (ps : List Bytes) :
    (s.oe_ram rs lg).childWebentities w ps = s.childWebentities w ps := by
  oe_simp [childWebentities, oe_forPrefixes, oe_dfsIter, oe_ram_cell]

theorem oe_outLinksOfPage (s : State) (rs lg) (weid b : Nat) (lru : Bytes) (incInt incOut : Bool) :
    (s.oe_ram rs lg).outLinksOfPage weid b lru incInt incOut = s.outLinksOfPage weid b lru incInt incOut := by
  oe_simp [outLinksOfPage, oe_ram_cell, oe_weighted, oe_windupWe, oe_windup]

theorem oe_inLinksOfPage (s : State) (rs lg) (weid b : Nat) (lru : Bytes) (incIn : Bool) :
    (s.oe_ram rs lg).inLinksOfPage weid b lru incIn = s.inLinksOfPage weid b lru incIn := by
  oe_simp [inLinksOfPage, oe_ram_cell, oe_weighted, oe_windupWe, oe_windup]

theorem oe_webentityPagelinks (s : State) (rs lg) (w : Nat) (ps : List Bytes) (i n o : Bool) :
    (s.oe_ram rs lg).webentityPagelinks w ps i n o = s.webentityPagelinks w ps i n o := by
  oe_simp [webentityPagelinks, oe_forPrefixes, oe_weDfs, oe_ram_cell, oe_outLinksOfPage, oe_inLinksOfPage]

theorem oe_paginateLinksItems (s : State) (rs lg) (weid : Nat) (incInt incOut : Bool) (count : Option Nat) (i : Nat)
    (items : List (Nat × Bytes × Nat)) (acc : PlAcc) :
    (s.oe_ram rs lg).paginateLinksItems weid incInt incOut count i items acc
      = s.paginateLinksItems weid incInt incOut count i items acc := by
  induction items generalizing acc with
  | nil => rfl
  | cons x rest ih =>
    obtain ⟨b, lru, path⟩ := x
    oe_simp [paginateLinksItems, oe_ram_cell, oe_outLinksOfPage, ih]

theorem oe_paginateLinksPrefixes (s : State) (rs lg) (weid : Nat) (incInt incOut : Bool) (count : Option Nat)
    (ps : List (Nat × Bytes)) (pagPath : Option Nat) (acc : PlAcc) :
    (s.oe_ram rs lg).paginateLinksPrefixes weid incInt incOut count ps pagPath acc
      = s.paginateLinksPrefixes weid incInt incOut count ps pagPath acc := by
  induction ps generalizing pagPath acc with
  | nil => rfl
  | cons x rest ih =>
    obtain ⟨i, p⟩ := x
    oe_simp [paginateLinksPrefixes, oe_lruNode, oe_weInorder, oe_paginateLinksItems, ih]

theorem oe_paginateLinks (s : State) (rs lg) (w : Nat) (ps : List Bytes) (n o : Bool) (k : Option Nat)
    (t : Option Bytes) :
    (s.oe_ram rs lg).paginateLinks w ps n o k t = s.paginateLinks w ps n o k t := by
  oe_simp [paginateLinks, oe_paginateLinksPrefixes]

theorem oe_citedWebentities (s : State) (rs lg) (ps : List Bytes) (out : Bool) :
    (s.oe_ram rs lg).citedWebentities ps out = s.citedWebentities ps out := by
  oe_simp [citedWebentities, oe_forPrefixes, oe_weDfs, oe_ram_cell, oe_deduped, oe_windupWe]

theorem oe_webentityDegrees (s : State) (rs lg) (ps : List Bytes) :
    (s.oe_ram rs lg).webentityDegrees ps = s.webentityDegrees ps := by
  oe_simp [webentityDegrees, oe_citedWebentities]

theorem oe_pageLinks (s : State) (rs lg) (lru : Bytes) (i n o : Bool) :
    (s.oe_ram rs lg).pageLinks lru i n o = s.pageLinks lru i n o := by
  oe_simp [pageLinks, oe_lruNode, oe_ram_cell, oe_weighted, oe_windup]

theorem oe_pageDegree (s : State) (rs lg) (lru : Bytes) (k : DegKind) (w : Bool) :
    (s.oe_ram rs lg).pageDegree lru k w = s.pageDegree lru k w := by
  oe_simp [pageDegree, oe_pageLinks]

theorem oe_network (s : State) (rs lg) (out auto : Bool) : (s.oe_ram rs lg).network out auto = s.network out auto := by
  oe_simp [network, oe_dfsWe, oe_ram_cell, oe_weighted]

theorem oe_networkSlow (s : State) (rs lg) (out auto : Bool) :
    (s.oe_ram rs lg).networkSlow out auto = s.networkSlow out auto := by
  oe_simp [networkSlow, oe_dfsWe, oe_ram_cell, oe_weighted, oe_windupWe]

theorem oe_pagesIter (s : State) (rs lg) : (s.oe_ram rs lg).pagesIter = s.pagesIter := by
  oe_simp [pagesIter, oe_dfsIter, oe_ram_cell]

theorem oe_prefixIter (s : State) (rs lg) : (s.oe_ram rs lg).prefixIter = s.prefixIter := by
  oe_simp [prefixIter, oe_dfsIter, oe_ram_cell]

theorem oe_linksIter (s : State) (rs lg) (out : Bool) : (s.oe_ram rs lg).linksIter out = s.linksIter out := by
  oe_simp [linksIter, oe_dfsIter, oe_ram_cell, oe_deduped, oe_windup]

theorem oe_countPages (s : State) (rs lg) : (s.oe_ram rs lg).countPages = s.countPages := rfl
theorem oe_countCrawledPages (s : State) (rs lg) : (s.oe_ram rs lg).countCrawledPages = s.countCrawledPages := rfl
theorem oe_countLinks2 (s : State) (rs lg) : (s.oe_ram rs lg).countLinks2 = s.countLinks2 := rfl
theorem oe_metrics (s : State) (rs lg) : (s.oe_ram rs lg).metrics = s.metrics := rfl

theorem oe_linksMetrics (s : State) (rs lg) : (s.oe_ram rs lg).linksMetrics = s.linksMetrics := by
  oe_simp [linksMetrics, oe_allBlocks, oe_ram_cell, oe_deduped, oe_windup]

/-- every read-only request has the same answer when only the RAM dict (same content) and the log differ -/
theorem oe_ask_ram (s : State) (rs lg) (hr : RulesEq s.rules rs) (q : Query) : (s.oe_ram rs lg).ask q = s.ask q := by
  cases q with
  | retrievePrefix l => simp only [ask, oe_retrievePrefix]
  | potentialPrefix l => simp only [ask, oe_potentialPrefix s rs lg hr]
  | retrieveWebentity l => simp only [ask, oe_retrieveWebentity]
  | webentityByPrefix p => simp only [ask, oe_webentityByPrefix]
  | pages ps => simp only [ask, oe_webentityPages]
  | crawledPages ps => simp only [ask, oe_webentityCrawledPages]
  | paginatePages ps k t co => simp only [ask, oe_paginatePages]
  | mostLinked ps k d => simp only [ask, oe_mostLinked]
  | parents w ps => simp only [ask, oe_parentWebentities]
  | children w ps => simp only [ask, oe_childWebentities]
  | pagelinks w ps i n o => simp only [ask, oe_webentityPagelinks]
  | paginateLinks w ps n o k t => simp only [ask, oe_paginateLinks]
  | cited ps o => simp only [ask, oe_citedWebentities]
  | weDegrees ps => simp only [ask, oe_webentityDegrees]
  | pageLinks l i n o => simp only [ask, oe_pageLinks]
  | pageDegree l k w => simp only [ask, oe_pageDegree]
  | network o a slow => simp only [ask, oe_network, oe_networkSlow]
  | expand p => rfl
  | linksIter o => simp only [ask, oe_linksIter]
  | pagesIter => simp only [ask, oe_pagesIter]
  | prefixIter => simp only [ask, oe_prefixIter]
  | counts => simp only [ask, oe_countPages, oe_countCrawledPages, oe_countLinks2]
  | metrics => simp only [ask, oe_metrics, oe_countLinks2, oe_linksMetrics]
  | lruNode l => simp only [ask, oe_lruNode]
  | windup b => simp only [ask, oe_windup]
  | dfs => simp only [ask, oe_dfsIter]

end State

/-- **every observable answer is identical in equivalent states** (all 26 read-only requests) -/
theorem oe_ask {s s' : State} (h : s ≃ₒ s') (q : Query) : s'.ask q = s.ask q := by
  rw [h.eq_ram]
  exact State.oe_ask_ram s _ _ h.rules q

/-- equivalent states have the same two files, byte for byte -/
theorem oe_files {s s' : State} (h : s ≃ₒ s') : encodeTrie s' = encodeTrie s ∧ encodeLinks s' = encodeLinks s := by
  rw [h.eq_ram]; exact ⟨rfl, rfl⟩

#print axioms oe_ask
#print axioms obsEq_equivalence

end Traph

import Traph
/-! Heap order `s ⊑ s'` (DESIGN §4.1): the monotone history of the two stores. Nodes are never moved or
    deleted; the only mutations are: append a block, change a null pointer to non-null, set flag bits,
    set/clear the webentity id, move a list head. Every primitive write of every operation is
    ⊑-increasing; the order is reflexive and transitive, so every operation is. -/
namespace Traph
open State

/-- what may happen to one trie block over time -/
structure CellLe (c c' : Cell) : Prop where
  chunk   : c'.chunk = c.chunk
  parent  : c'.parent = c.parent
  hasTail : c'.flags.hasTail = c.flags.hasTail
  isTail  : c'.flags.isTail = c.flags.isTail
  page    : c.flags.page = true → c'.flags.page = true
  crawled : c.flags.crawled = true → c'.flags.crawled = true
  noChild : c'.flags.noChild = true → c.flags.noChild = true
  left    : c.left ≠ 0 → c'.left = c.left
  right   : c.right ≠ 0 → c'.right = c.right
  child   : c.child ≠ 0 → c'.child = c.child

theorem CellLe.refl (c : Cell) : CellLe c c :=
  ⟨rfl, rfl, rfl, rfl, id, id, id, fun _ => rfl, fun _ => rfl, fun _ => rfl⟩

theorem CellLe.trans {a b c : Cell} (h1 : CellLe a b) (h2 : CellLe b c) : CellLe a c where
  chunk := h2.chunk.trans h1.chunk
  parent := h2.parent.trans h1.parent
  hasTail := h2.hasTail.trans h1.hasTail
  isTail := h2.isTail.trans h1.isTail
  page := fun h => h2.page (h1.page h)
  crawled := fun h => h2.crawled (h1.crawled h)
  noChild := fun h => h1.noChild (h2.noChild h)
  left := fun h => by rw [h2.left (by rw [h1.left h]; exact h), h1.left h]
  right := fun h => by rw [h2.right (by rw [h1.right h]; exact h), h1.right h]
  child := fun h => by rw [h2.child (by rw [h1.child h]; exact h), h1.child h]

/-- the heap order -/
structure Le (s s' : State) : Prop where
  cells : ∀ (i : Nat) (c : Cell), s.trie[i]? = some c → ∃ c', s'.trie[i]? = some c' ∧ CellLe c c'
  stubs : ∀ (i : Nat) (b : Stub), s.links[i]? = some b → s'.links[i]? = some b

infix:50 " ⊑ " => Le

theorem Le.refl (s : State) : s ⊑ s :=
  ⟨fun _ c h => ⟨c, h, CellLe.refl c⟩, fun _ _ h => h⟩

theorem Le.trans {a b c : State} (h1 : a ⊑ b) (h2 : b ⊑ c) : a ⊑ c where
  cells := fun i x hx => by
    obtain ⟨y, hy, l1⟩ := h1.cells i x hx
    obtain ⟨z, hz, l2⟩ := h2.cells i y hy
    exact ⟨z, hz, l1.trans l2⟩
  stubs := fun i x hx => h2.stubs i x (h1.stubs i x hx)

theorem Le.size {s s' : State} (h : s ⊑ s') : s.trie.size ≤ s'.trie.size := by
  by_cases h0 : s.trie.size = 0
  · omega
  · have hlt : s.trie.size - 1 < s.trie.size := by omega
    obtain ⟨c', hc', _⟩ := h.cells (s.trie.size - 1) s.trie[s.trie.size - 1] (by simp [hlt])
    have := (Array.getElem?_eq_some_iff.mp hc').1
    omega

theorem Le.lsize {s s' : State} (h : s ⊑ s') : s.links.size ≤ s'.links.size := by
  by_cases h0 : s.links.size = 0
  · omega
  · have hlt : s.links.size - 1 < s.links.size := by omega
    have hc' := h.stubs (s.links.size - 1) s.links[s.links.size - 1] (by simp [hlt])
    have := (Array.getElem?_eq_some_iff.mp hc').1
    omega

/-- states that differ only in the RAM part / ghost log are equivalent for the order -/
theorem Le.of_eq {s s' : State} (ht : s'.trie = s.trie) (hl : s'.links = s.links) : s ⊑ s' :=
  ⟨fun i c h => ⟨c, by rw [ht]; exact h, CellLe.refl c⟩, fun i b h => by rw [hl]; exact h⟩

/-! ### primitives -/

theorem le_appendCell (s : State) (c : Cell) : s ⊑ (s.appendCell c).1 where
  cells := fun i x hx => by
    refine ⟨x, ?_, CellLe.refl x⟩
    have hi := (Array.getElem?_eq_some_iff.mp hx).1
    simp only [appendCell]
    rw [Array.getElem?_push]
    simp [Nat.ne_of_lt hi, hx]
  stubs := fun _ _ h => h

theorem le_appendStub (s : State) (b : Stub) : s ⊑ (s.appendStub b).1 where
  cells := fun _ c h => ⟨c, h, CellLe.refl c⟩
  stubs := fun i x hx => by
    have hi := (Array.getElem?_eq_some_iff.mp hx).1
    simp only [appendStub]
    rw [Array.getElem?_push]
    simp [Nat.ne_of_lt hi, hx]

theorem le_setHdr (s : State) (id : Nat) : s ⊑ s.setHdr id := Le.of_eq rfl rfl

theorem le_modCell (s : State) (i : Nat) (f : Cell → Cell) (hf : ∀ c, s.trie[i]? = some c → CellLe c (f c)) :
    s ⊑ s.modCell i f := by
  unfold modCell
  cases hi : s.trie[i]? with
  | none => exact Le.refl s
  | some c =>
    refine ⟨fun j x hx => ?_, fun _ _ h => h⟩
    simp only [setCell]
    rw [Array.getElem?_setIfInBounds]
    by_cases hij : i = j
    · subst hij
      have hlt := (Array.getElem?_eq_some_iff.mp hx).1
      rw [hi] at hx; cases hx
      exact ⟨f c, by simp [hlt], hf c hi⟩
    · exact ⟨x, by simp [hij, hx], CellLe.refl x⟩

/-! ### cells of the primitives, pointwise -/

@[simp] theorem trie_modCell_size (s : State) (i : Nat) (f : Cell → Cell) : (s.modCell i f).trie.size = s.trie.size := by
  unfold modCell; cases s.trie[i]? <;> simp [setCell]

@[simp] theorem links_modCell (s : State) (i : Nat) (f : Cell → Cell) : (s.modCell i f).links = s.links := by
  unfold modCell; cases s.trie[i]? <;> simp [setCell]

@[simp] theorem hdrId_modCell (s : State) (i : Nat) (f : Cell → Cell) : (s.modCell i f).hdrId = s.hdrId := by
  unfold modCell; cases s.trie[i]? <;> simp [setCell]

@[simp] theorem rules_modCell (s : State) (i : Nat) (f : Cell → Cell) : (s.modCell i f).rules = s.rules := by
  unfold modCell; cases s.trie[i]? <;> simp [setCell]

@[simp] theorem dflt_modCell (s : State) (i : Nat) (f : Cell → Cell) : (s.modCell i f).dflt = s.dflt := by
  unfold modCell; cases s.trie[i]? <;> simp [setCell]

@[simp] theorem cfg_modCell (s : State) (i : Nat) (f : Cell → Cell) : (s.modCell i f).cfg = s.cfg := by
  unfold modCell; cases s.trie[i]? <;> simp [setCell]

theorem getElem?_modCell (s : State) (i j : Nat) (f : Cell → Cell) :
    (s.modCell i f).trie[j]? = if i = j then (s.trie[j]?).map f else s.trie[j]? := by
  unfold modCell
  cases hi : s.trie[i]? with
  | none =>
    by_cases hij : i = j
    · subst hij; simp [hi]
    · simp [hij]
  | some c =>
    simp only [setCell]
    rw [Array.getElem?_setIfInBounds]
    by_cases hij : i = j
    · subst hij
      have hlt := (Array.getElem?_eq_some_iff.mp hi).1
      have hget := (Array.getElem?_eq_some_iff.mp hi).2
      simp [hlt, hget]
    · simp [hij]

theorem cell_modCell (s : State) (i j : Nat) (f : Cell → Cell) :
    (s.modCell i f).cell j = if i = j ∧ j < s.trie.size then f (s.cell j) else s.cell j := by
  unfold cell
  rw [getElem?_modCell]
  by_cases hij : i = j
  · subst hij
    by_cases hlt : i < s.trie.size
    · simp [hlt]
    · have : s.trie[i]? = none := by simp; omega
      simp [hlt, this]
  · simp [hij]

@[simp] theorem trie_appendCell (s : State) (c : Cell) : (s.appendCell c).1.trie = s.trie.push c := rfl
@[simp] theorem snd_appendCell (s : State) (c : Cell) : (s.appendCell c).2 = s.trie.size := rfl
@[simp] theorem links_appendCell' (s : State) (c : Cell) : (s.appendCell c).1.links = s.links := rfl
@[simp] theorem hdrId_appendCell (s : State) (c : Cell) : (s.appendCell c).1.hdrId = s.hdrId := rfl
@[simp] theorem rules_appendCell (s : State) (c : Cell) : (s.appendCell c).1.rules = s.rules := rfl
@[simp] theorem dflt_appendCell (s : State) (c : Cell) : (s.appendCell c).1.dflt = s.dflt := rfl
@[simp] theorem cfg_appendCell (s : State) (c : Cell) : (s.appendCell c).1.cfg = s.cfg := rfl

end Traph

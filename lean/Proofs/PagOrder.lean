import Proofs.TraverseInorder
import Proofs.Tokens
/-! Pagination, part 1 and 2: order facts about byte strings built from well-formed stems, and
    L4 — the structural in-order traversals (`T.inorder`, `T.weInorder`) are strictly ascending in the
    byte order of the flattened LRUs. -/
namespace Traph
open State

/-! ### 1. order facts about byte strings -/

/-- a well-formed stem: ends with the separator `|` (124) and contains no other one -/
def WfStem (x : Bytes) : Prop := ∃ body, x = body ++ [124] ∧ 124 ∉ body

theorem WfStem.ne_nil {x : Bytes} (h : WfStem x) : x ≠ [] := by
  obtain ⟨body, rfl, _⟩ := h
  simp

/-- a common prefix cancels -/
theorem lexLt_append_left (p a b : Bytes) : lexLt (p ++ a) (p ++ b) = lexLt a b := by
  induction p with
  | nil => rfl
  | cons x p ih => simp [lexLt, ih]

theorem lexLt_nil_left (u : Bytes) (hu : u ≠ []) : lexLt [] u = true := by
  cases u with
  | nil => exact absurd rfl hu
  | cons _ _ => rfl

theorem lexLt_nil_right (u : Bytes) : lexLt u [] = false := by
  cases u <;> rfl

/-- a node sorts before its descendants -/
theorem lexLt_self_extend (p u : Bytes) (hu : u ≠ []) : lexLt p (p ++ u) = true := by
  have := lexLt_append_left p [] u
  rw [List.append_nil] at this
  rw [this]; exact lexLt_nil_left u hu

/-- a stem ends at its first separator: a well-formed stem is not a proper prefix of another one -/
theorem WfStem.not_prefix {x y : Bytes} (hx : WfStem x) (hy : WfStem y) (u : Bytes) (h : y = x ++ u) :
    u = [] := by
  obtain ⟨bx, rfl, nx⟩ := hx
  obtain ⟨b, rfl, ny⟩ := hy
  induction bx generalizing b with
  | nil =>
    cases b with
    | nil => simpa using h
    | cons c cs =>
      simp only [List.nil_append, List.cons_append, List.cons.injEq] at h
      exact absurd (by simp [h.1]) ny
  | cons a as ih =>
    cases b with
    | nil =>
      simp only [List.nil_append, List.cons_append, List.cons.injEq] at h
      exact absurd (by simp [← h.1]) nx
    | cons c cs =>
      simp only [List.cons_append, List.cons.injEq] at h
      exact ih (fun m => nx (by simp [m])) cs (fun m => ny (by simp [m])) h.2

theorem lexLt_body_extend : ∀ (bx b : Bytes), 124 ∉ bx → 124 ∉ b →
    lexLt (bx ++ [124]) (b ++ [124]) = true → ∀ (u v : Bytes),
    lexLt (bx ++ [124] ++ u) (b ++ [124] ++ v) = true
  | [], [], _, _, h, _, _ => by simp [lexLt] at h
  | [], c :: cs, _, ny, h, u, v => by
    have hc : c ≠ 124 := fun e => ny (by simp [e])
    simp only [List.nil_append, List.cons_append, lexLt, Bool.or_eq_true, decide_eq_true_eq,
      Bool.and_eq_true, beq_iff_eq] at h ⊢
    rcases h with h | ⟨h, _⟩
    · exact Or.inl h
    · exact absurd h.symm hc
  | a :: as, [], nx, _, h, u, v => by
    have ha : a ≠ 124 := fun e => nx (by simp [e])
    simp only [List.nil_append, List.cons_append, lexLt, Bool.or_eq_true, decide_eq_true_eq,
      Bool.and_eq_true, beq_iff_eq] at h ⊢
    rcases h with h | ⟨h, _⟩
    · exact Or.inl h
    · exact absurd h ha
  | a :: as, c :: cs, nx, ny, h, u, v => by
    simp only [List.cons_append, lexLt, Bool.or_eq_true, decide_eq_true_eq,
      Bool.and_eq_true, beq_iff_eq] at h ⊢
    rcases h with h | ⟨h1, h2⟩
    · exact Or.inl h
    · exact Or.inr ⟨h1, lexLt_body_extend as cs (fun m => nx (by simp [m])) (fun m => ny (by simp [m])) h2 u v⟩

/-- the order of two different sibling stems decides the order of everything below them -/
theorem lexLt_stem_extend {x y : Bytes} (hx : WfStem x) (hy : WfStem y) (h : lexLt x y = true)
    (u v : Bytes) : lexLt (x ++ u) (y ++ v) = true := by
  obtain ⟨bx, rfl, nx⟩ := hx
  obtain ⟨b, rfl, ny⟩ := hy
  exact lexLt_body_extend bx b nx ny h u v

/-! ### 2. L4: the in-order traversals are strictly ascending -/

/-- every stem of the tree is well formed -/
def AllWf (s : State) (t : T) : Prop := ∀ a ∈ t.addrs, WfStem (s.stemAt a)

theorem AllWf.left {s : State} {a : Nat} {l c r : T} (h : AllWf s (.node a l c r)) : AllWf s l :=
  fun x hx => h x (by simp [T.addrs, hx])
theorem AllWf.child {s : State} {a : Nat} {l c r : T} (h : AllWf s (.node a l c r)) : AllWf s c :=
  fun x hx => h x (by simp [T.addrs, hx])
theorem AllWf.right {s : State} {a : Nat} {l c r : T} (h : AllWf s (.node a l c r)) : AllWf s r :=
  fun x hx => h x (by simp [T.addrs, hx])
theorem AllWf.self {s : State} {a : Nat} {l c r : T} (h : AllWf s (.node a l c r)) : WfStem (s.stemAt a) :=
  h a (by simp [T.addrs])
theorem AllWf.sibs {s : State} {t : T} (h : AllWf s t) : ∀ x ∈ t.sibs, WfStem (s.stemAt x) :=
  fun x hx => h x (T.sibs_subset_addrs t x hx)

/-- `e` is the flattened LRU of a node at or below one of the siblings `S` of the level with prefix `lru` -/
def Under (s : State) (lru : Bytes) (S : List Nat) (e : Bytes) : Prop :=
  ∃ x ∈ S, ∃ rest, e = lru ++ s.stemAt x ++ rest

theorem Under.mono {s : State} {lru : Bytes} {S S' : List Nat} {e : Bytes} (h : Under s lru S e)
    (hs : ∀ x ∈ S, x ∈ S') : Under s lru S' e := by
  obtain ⟨x, hx, rest, he⟩ := h
  exact ⟨x, hs x hx, rest, he⟩

/-- what lies under a child level lies under the parent -/
theorem Under.up {s : State} {lru : Bytes} {a : Nat} {S : List Nat} {e : Bytes}
    (h : Under s (lru ++ s.stemAt a) S e) : Under s lru [a] e := by
  obtain ⟨x, _, rest, he⟩ := h
  exact ⟨a, by simp, s.stemAt x ++ rest, by rw [he]; simp [List.append_assoc]⟩

/-- the order of the sibling stems decides the order of everything under them -/
theorem Under.lt {s : State} {lru : Bytes} {S₁ S₂ : List Nat} {e₁ e₂ : Bytes}
    (h₁ : Under s lru S₁ e₁) (h₂ : Under s lru S₂ e₂)
    (w₁ : ∀ x ∈ S₁, WfStem (s.stemAt x)) (w₂ : ∀ x ∈ S₂, WfStem (s.stemAt x))
    (hlt : ∀ x ∈ S₁, ∀ y ∈ S₂, lexLt (s.stemAt x) (s.stemAt y) = true) : lexLt e₁ e₂ = true := by
  obtain ⟨x, hx, u, rfl⟩ := h₁
  obtain ⟨y, hy, v, rfl⟩ := h₂
  rw [List.append_assoc, List.append_assoc, lexLt_append_left]
  exact lexLt_stem_extend (w₁ x hx) (w₂ y hy) (hlt x hx y hy) u v

/-- a node sorts before everything under its child level -/
theorem Under.self_lt {s : State} {lru : Bytes} {a : Nat} {S : List Nat} {e : Bytes}
    (h : Under s (lru ++ s.stemAt a) S e) (w : ∀ x ∈ S, WfStem (s.stemAt x)) :
    lexLt (lru ++ s.stemAt a) e = true := by
  obtain ⟨x, hx, rest, rfl⟩ := h
  rw [List.append_assoc (lru ++ s.stemAt a)]
  apply lexLt_self_extend
  have := (w x hx).ne_nil
  simp [this]

theorem inorder_under {s : State} : ∀ (t : T) (lru : Bytes), ∀ it ∈ t.inorder s lru, Under s lru t.sibs it.2 := by
  intro t
  induction t with
  | nil => intro _ it h; simp [T.inorder] at h
  | node a l c r ihl ihc ihr =>
    intro lru it h
    simp only [T.inorder, List.mem_append, List.mem_cons] at h
    rcases h with h | rfl | h | h
    · exact (ihl lru it h).mono (by intro x hx; simp [T.sibs, hx])
    · exact ⟨a, by simp [T.sibs], [], by simp⟩
    · exact (ihc _ it h).up.mono (by intro x hx; simp at hx; simp [T.sibs, hx])
    · exact (ihr lru it h).mono (by intro x hx; simp [T.sibs, hx])

/-- the cross facts at one node, stated for arbitrary lists lying under the three subtrees -/
theorem node_cross {s : State} {a : Nat} {l c r : T} {lo hi : Option Stem} {lru : Bytes}
    (ho : OrdT s (.node a l c r) lo hi) (hw : AllWf s (.node a l c r)) :
    (∀ e₁ e₂, Under s lru l.sibs e₁ → Under s lru (a :: r.sibs) e₂ → lexLt e₁ e₂ = true) ∧
    (∀ e, Under s (lru ++ s.stemAt a) c.sibs e → lexLt (lru ++ s.stemAt a) e = true) ∧
    (∀ e₁ e₂, Under s lru [a] e₁ → Under s lru r.sibs e₂ → lexLt e₁ e₂ = true) := by
  obtain ⟨_, _, ol, or_, _⟩ := ho
  have wl := hw.left.sibs
  have wc := hw.child.sibs
  have wr := hw.right.sibs
  have wa := hw.self
  have hbelow := OrdT.below l lo _ ol
  have habove := OrdT.above r hi _ or_
  refine ⟨?_, ?_, ?_⟩
  · intro e₁ e₂ h₁ h₂
    refine h₁.lt h₂ wl ?_ ?_
    · intro x hx; simp only [List.mem_cons] at hx
      rcases hx with rfl | hx
      · exact wa
      · exact wr x hx
    · intro x hx y hy; simp only [List.mem_cons] at hy
      rcases hy with rfl | hy
      · exact hbelow x hx
      · exact lexLt_trans (hbelow x hx) (habove y hy)
  · intro e h; exact h.self_lt wc
  · intro e₁ e₂ h₁ h₂
    refine h₁.lt h₂ ?_ wr ?_
    · intro x hx; simp only [List.mem_singleton] at hx; subst hx; exact wa
    · intro x hx y hy; simp only [List.mem_singleton] at hx; subst hx; exact habove y hy

/-- L4 for the plain structural in-order -/
theorem inorder_sorted {s : State} : ∀ (t : T) (lo hi : Option Stem) (lru : Bytes),
    OrdT s t lo hi → AllWf s t →
    ((t.inorder s lru).map (·.2)).Pairwise (fun a b => lexLt a b = true) := by
  intro t
  induction t with
  | nil => intro _ _ _ _ _; simp [T.inorder]
  | node a l c r ihl ihc ihr =>
    intro lo hi lru ho hw
    obtain ⟨x1, x2, x3⟩ := node_cross (lru := lru) ho hw
    obtain ⟨_, _, ol, or_, oc⟩ := ho
    have pl := ihl _ _ lru ol hw.left
    have pc := ihc _ _ (lru ++ s.stemAt a) oc hw.child
    have pr := ihr _ _ lru or_ hw.right
    have ul : ∀ e ∈ (l.inorder s lru).map (·.2), Under s lru l.sibs e := by
      intro e he; obtain ⟨it, hit, rfl⟩ := List.mem_map.mp he; exact inorder_under l lru it hit
    have uc : ∀ e ∈ (c.inorder s (lru ++ s.stemAt a)).map (·.2), Under s (lru ++ s.stemAt a) c.sibs e := by
      intro e he; obtain ⟨it, hit, rfl⟩ := List.mem_map.mp he; exact inorder_under c _ it hit
    have ur : ∀ e ∈ (r.inorder s lru).map (·.2), Under s lru r.sibs e := by
      intro e he; obtain ⟨it, hit, rfl⟩ := List.mem_map.mp he; exact inorder_under r lru it hit
    have uself : Under s lru [a] (lru ++ s.stemAt a) := ⟨a, by simp, [], by simp⟩
    simp only [T.inorder, List.map_append, List.map_cons]
    rw [List.pairwise_append]
    refine ⟨pl, ?_, ?_⟩
    · rw [List.pairwise_cons]
      refine ⟨?_, ?_⟩
      · intro e he
        rcases List.mem_append.mp he with he | he
        · exact x2 e (uc e he)
        · exact x3 _ e uself (ur e he)
      · rw [List.pairwise_append]
        exact ⟨pc, pr, fun e₁ h₁ e₂ h₂ => x3 e₁ e₂ (uc e₁ h₁).up (ur e₂ h₂)⟩
    · intro e₁ h₁ e₂ h₂
      apply x1 e₁ e₂ (ul e₁ h₁)
      simp only [List.mem_cons, List.mem_append] at h₂
      rcases h₂ with rfl | h₂ | h₂
      · exact uself.mono (by intro x hx; simp at hx; simp [hx])
      · exact (uc e₂ h₂).up.mono (by intro x hx; simp at hx; simp [hx])
      · exact (ur e₂ h₂).mono (by intro x hx; simp [hx])

/-- pruning only removes items: the webentity in-order is a sub-list of the plain in-order -/
theorem weInorder_sublist {s : State} (start : Nat) : ∀ (t : T) (lru : Bytes) (path : Nat),
    ((t.weInorder s start lru path).map (fun it => (it.1, it.2.1))).Sublist (t.inorder s lru) := by
  intro t
  induction t with
  | nil => intro _ _; simp [T.weInorder]
  | node a l c r ihl ihc ihr =>
    intro lru path
    simp only [T.weInorder, T.inorder, List.map_append]
    rw [List.append_assoc]
    apply List.Sublist.append
    · split
      · simp
      · exact ihl _ _
    · have h3 : (List.map (fun it => (it.1, it.2.1))
          (if a = start then [] else r.weInorder s start lru (base4Append path 3))).Sublist (r.inorder s lru) := by
        split
        · simp
        · exact ihr _ _
      split
      · simp only [List.map_cons, List.cons_append]
        exact List.Sublist.cons_cons _ ((ihc _ _).append h3)
      · simp only [List.map_nil, List.nil_append]
        exact List.Sublist.cons _ (List.Sublist.trans h3 (List.sublist_append_right _ _))

theorem weInorder_under {s : State} (start : Nat) (t : T) (lru : Bytes) (path : Nat) :
    ∀ it ∈ t.weInorder s start lru path, Under s lru t.sibs it.2.1 := by
  intro it hit
  have := (weInorder_sublist (s := s) start t lru path).subset (List.mem_map.mpr ⟨it, hit, rfl⟩)
  exact inorder_under t lru _ this

/-- L4 for the webentity in-order -/
theorem weInorder_sorted {s : State} (start : Nat) (t : T) (lo hi : Option Stem) (lru : Bytes) (path : Nat)
    (ho : OrdT s t lo hi) (hw : AllWf s t) :
    ((t.weInorder s start lru path).map (·.2.1)).Pairwise (fun a b => lexLt a b = true) := by
  have h := (weInorder_sublist (s := s) start t lru path).map (·.2)
  rw [List.map_map] at h
  exact (inorder_sorted t lo hi lru ho hw).sublist h

end Traph

section
open Traph
#print axioms lexLt_append_left
#print axioms lexLt_stem_extend
#print axioms lexLt_self_extend
#print axioms inorder_sorted
#print axioms weInorder_sorted
end

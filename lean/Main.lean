import Traph
/-! Line-protocol driver: one operation per line on stdin, one canonical answer line per operation on
    stdout followed by `#W <writes> <fnv64 of the writes of this operation>`. See DESIGN Appendix A. -/
open Traph Traph.State

/-! ### text helpers -/

def hexDigit (c : Char) : Nat :=
  if '0' ≤ c ∧ c ≤ '9' then c.toNat - '0'.toNat
  else if 'a' ≤ c ∧ c ≤ 'f' then c.toNat - 'a'.toNat + 10 else 0

def unhexGo : List Char → Bytes → Bytes
  | a :: b :: r, acc => unhexGo r ((hexDigit a * 16 + hexDigit b) :: acc)
  | _, acc => acc.reverse

/-- `xHEX` → bytes -/
def unx (s : String) : Bytes := unhexGo (s.drop 1).toString.toList []

def hexChars : Array Char := "0123456789abcdef".toList.toArray

def hx (b : Bytes) : String :=
  String.ofList ('x' :: b.foldr (fun x acc => hexChars[x / 16]! :: hexChars[x % 16]! :: acc) [])

def asciiStr (b : Bytes) : String := String.ofList (b.map Char.ofNat)
def strBytes (s : String) : Bytes := s.toList.map Char.toNat

def splitList (s : String) : List String :=
  -- "[a,b,c]" → ["a","b","c"], "[]" → []
  let inner := (s.drop 1).dropEnd 1 |>.toString
  if inner.isEmpty then [] else inner.splitOn ","

def unxList (s : String) : List Bytes := (splitList s).map unx

def brack (l : List String) : String := "[" ++ ",".intercalate l ++ "]"

def b01 (b : Bool) : String := if b then "1" else "0"
def is1 (s : String) : Bool := s == "1"

def optNat (s : String) : Option Nat := if s == "-" then none else s.toNat?

def parseRules (s : String) : Option (List (Bytes × Rule)) :=
  (splitList s).mapM (fun ar => match ar.splitOn "=" with
    | [a, r] => (Rule.ofName r).map (fun r => (unx a, r))
    | _ => none)

def parseLinks (s : String) : List (Bytes × Bytes) :=
  (splitList s).filterMap (fun st => match st.splitOn ">" with
    | [a, b] => some (unx a, unx b)
    | _ => none)

def parseBatch (s : String) : List (Bytes × List Bytes) :=
  if s == "-" then [] else
  (s.splitOn ";").filterMap (fun e => match e.splitOn ">" with
    | [a, ts] => some (unx a, if ts.isEmpty then [] else (ts.splitOn ",").map unx)
    | _ => none)

/-! ### rendering -/

def errStr : Err → String
  | .traph => "err traph"
  | .other n => "err other " ++ n

def renderReport (r : Report) : String :=
  "ok pages=" ++ toString r.pages ++ " we={" ++
    ";".intercalate (r.we.map (fun kv =>
      (match kv.1 with | some i => toString i | none => "none") ++ ":" ++ brack (kv.2.map hx))) ++ "}"

def renderE {α} (f : α → String) : Except Err α → String
  | .ok a => f a
  | .error e => errStr e

def renderPages (l : List (Bytes × Bool)) : String := "ok " ++ brack (l.map (fun p => hx p.1 ++ ":" ++ b01 p.2))
def renderLinks (l : List PageLink) : String :=
  brack (l.map (fun p => hx p.1 ++ ">" ++ hx p.2.1 ++ ":" ++ toString p.2.2))
def renderNats (l : List Nat) : String := "ok " ++ brack (l.map toString)

def sortStrings (l : List String) : List String := (l.toArray.qsort (· < ·)).toList

def renderNet (g : List NetRow) : String :=
  let rows := g.map (fun r =>
    let ts := sortStrings (r.targets.map (fun tw => toString tw.1 ++ "=" ++ toString tw.2))
    (r.src, toString r.src ++ ":c=" ++ toString r.crawled ++ ":u=" ++ toString r.uncrawled ++ ":{" ++
      "/".intercalate ts ++ "}"))
  let rows := (rows.toArray.qsort (fun a b => a.1 < b.1)).toList
  "ok " ++ brack (rows.map (·.2))

/-! ### write-log fingerprint -/

def fnvStep (h : UInt64) (x : Nat) : UInt64 := (h ^^^ x.toUInt64) * 1099511628211
def fnvBytes (h : UInt64) (b : Bytes) : UInt64 := b.foldl fnvStep h
def fnvInit : UInt64 := 14695981039346656037

def eventBytes : Event → Nat × Nat × Bytes
  | .write w => writeBytes w
  | .truncTrie => (4, 0, [])
  | .truncLinks => (5, 0, [])

def fnvEvents (es : List Event) : UInt64 :=
  es.foldl (fun h e =>
    let (k, off, data) := eventBytes e
    fnvBytes (fnvBytes (fnvStep h k) (toLE off 8)) data) fnvInit

def imageLine (s : State) : String :=
  let t := encodeTrie s
  let l := encodeLinks s
  "#T " ++ toString (fnvBytes fnvInit t) ++ " " ++ toString s.trie.size ++
  " #L " ++ toString (fnvBytes fnvInit l) ++ " " ++ toString s.links.size

/-! ### dispatch -/

def cfgOfBits (s : String) : Config :=
  match s.toList with
  | [a, b, c] => { lonelyIndegreeOne := a == '1', addPagesAlwaysCrawled := b == '1', noneInCitedSets := c == '1' }
  | _ => {}

def wr {α} (f : α → String) (r : State × Except Err α) : State × String := (r.1, renderE f r.2)
def okUnit : Unit → String := fun _ => "ok"

def degKind : String → DegKind
  | "in" => .indeg
  | "out" => .outdeg
  | _ => .deg

def tokArg (tok : String) : Option Bytes := if tok == "-" then none else some (strBytes tok)

def renderAns : Ans → String
  | .unit => "ok"
  | .report r => renderReport r
  | .bytes b => "ok " ++ hx b
  | .optBytes (some b) => "ok " ++ hx b
  | .optBytes none => "ok false"
  | .nat n => "ok " ++ toString n
  | .optNat (some n) => "ok " ++ toString (n * Layout.trieBlock)
  | .optNat none => "ok none"
  | .nats l => renderNats l
  | .pages l => renderPages l
  | .pageChunk c => "ok done=" ++ b01 c.done ++ " count=" ++ toString c.count ++ " crawled=" ++
        toString c.crawled ++ " pages=" ++ brack (c.pages.map (fun p => hx p.1 ++ ":" ++ b01 p.2)) ++ " token=" ++
        (match c.token with | some t => asciiStr t | none => "-")
  | .ranked l => "ok " ++ brack (l.map (fun p => hx p.1 ++ ":" ++ toString p.2))
  | .links l => "ok " ++ renderLinks l
  | .linkChunk c => "ok done=" ++ b01 c.done ++ " sources=" ++ toString c.sourcePages ++
        " links=" ++ renderLinks c.links ++ " token=" ++ (match c.token with | some t => asciiStr t | none => "-")
  | .net g => renderNet g
  | .bytesList l => "ok " ++ brack (l.map hx)
  | .pairs l => "ok " ++ brack (sortStrings (l.map (fun p => hx p.1 ++ ">" ++ hx p.2)))
  | .prefixes l => "ok " ++ brack (l.map (fun p => hx p.1 ++ ":" ++ toString p.2))
  | .counts p c l => "ok pages=" ++ toString p ++ " crawled=" ++ toString c ++ " links2=" ++ toString l
  | .metrics m l2 lm =>
    let o := fun (x : Option Bytes) => match x with | some b => hx b | none => "none"
    "ok nodes=" ++ toString m.nbNodes ++ " pages=" ++ toString m.nbPages ++ " crawled=" ++ toString m.nbCrawled ++
      " tail=" ++ toString m.nbTail ++ " frag=" ++ toString m.nbFragmented ++ " stems=" ++ toString m.nbStems ++
      " maxtail=" ++ toString m.maxTail ++ " links2=" ++ toString l2 ++
      " maxin=" ++ toString lm.1 ++ ":" ++ o lm.2.1 ++ " maxout=" ++ toString lm.2.2.1 ++ ":" ++ o lm.2.2.2
  | .blocks l => "ok " ++ brack (l.map (fun bl => toString (bl.1 * Layout.trieBlock) ++ ":" ++ hx bl.2))
  | .err e => errStr e

def parseQuery : List String → Option Query
  | ["retrieveprefix", x] => some (.retrievePrefix (unx x))
  | ["potential", x] => some (.potentialPrefix (unx x))
  | ["retrievewe", x] => some (.retrieveWebentity (unx x))
  | ["webyprefix", x] => some (.webentityByPrefix (unx x))
  | ["pages", _, ps] => some (.pages (unxList ps))
  | ["crawledpages", _, ps] => some (.crawledPages (unxList ps))
  | ["paginate", _, ps, k, tok, co] => some (.paginatePages (unxList ps) (optNat k) (tokArg tok) (is1 co))
  | ["mostlinked", _, ps, k, d] => some (.mostLinked (unxList ps) (k.toNat?.getD 10) (optNat d))
  | ["parents", w, ps] => some (.parents (w.toNat?.getD 0) (unxList ps))
  | ["children", w, ps] => some (.children (w.toNat?.getD 0) (unxList ps))
  | ["pagelinks", w, ps, i, n, o] => some (.pagelinks (w.toNat?.getD 0) (unxList ps) (is1 i) (is1 n) (is1 o))
  | ["paginatelinks", w, ps, n, o, k, tok] =>
    some (.paginateLinks (w.toNat?.getD 0) (unxList ps) (is1 n) (is1 o) (optNat k) (tokArg tok))
  | ["weout", _, ps] => some (.cited (unxList ps) true)
  | ["wein", _, ps] => some (.cited (unxList ps) false)
  | ["wedeg", _, ps] => some (.weDegrees (unxList ps))
  | ["pagelinksof", x, i, n, o] => some (.pageLinks (unx x) (is1 i) (is1 n) (is1 o))
  | ["pagedeg", x, kind, w] => some (.pageDegree (unx x) (degKind kind) (is1 w))
  | ["network", o, a, slow] => some (.network (is1 o) (is1 a) (is1 slow))
  | ["expand", p] => some (.expand (unx p))
  | ["linksiter", o] => some (.linksIter (is1 o))
  | ["pagesiter"] => some .pagesIter
  | ["prefixiter"] => some .prefixIter
  | ["counts"] => some .counts
  | ["metrics"] => some .metrics
  | ["lrunode", x] => some (.lruNode (unx x))
  | ["windup", b] => some (.windup ((b.toNat?.getD 0) / Layout.trieBlock))
  | ["dfs"] => some .dfs
  | _ => none

/-- helper-function probes that are not index requests -/
def helperQuery : List String → String
  | ["variations", p] => "ok " ++ brack ((lruVariations (unx p)).map hx)
  | ["token", i, p] =>
    let t := buildToken (i.toNat?.getD 0) (p.toNat?.getD 0)
    "ok " ++ asciiStr t ++ " " ++ (match parseToken t with
      | some (a, b) => toString a ++ " " ++ toString b | none => "none")
  | ["chunks", n, x] => "ok " ++ brack ((chunks (n.toNat?.getD 1) (unx x)).map hx)
  | ["rule", r, x] => (match Rule.ofName r with
      | some r => (match r.search (unx x) with | some m => "ok " ++ hx m | none => "ok none")
      | none => "bad-op")
  | _ => "bad-op"

def parseOp : List String → Option Op
  | ["reopen", d, rs] => (match Rule.ofName d, parseRules rs with
     | some d, some rs => some (.reopen d rs) | _, _ => none)
  | ["clear", d, rs] =>
    let d' := if d == "-" then some none else (Rule.ofName d).map some
    let rs' := if rs == "none" then some none else (parseRules rs).map some
    (match d', rs' with | some d, some rs => some (.clear d rs) | _, _ => none)
  | ["addrule", a, r] => (Rule.ofName r).map (fun r => .addRule (unx a) r)
  | ["rmrule", a] => some (.removeRule (unx a))
  | ["create", ps] => some (.create (unxList ps))
  | ["delete", w, ps] => some (.delete (w.toNat?.getD 0) (unxList ps))
  | ["addprefix", p, w] => some (.addPrefix (unx p) (w.toNat?.getD 0))
  | ["rmprefix", p, w] => some (.removePrefix (unx p) (optNat w))
  | ["moveprefix", p, t, f] => some (.movePrefix (unx p) (t.toNat?.getD 0) (optNat f))
  | ["addpage", x, c] => some (.addPage (unx x) (is1 c))
  | ["addpages", xs, c] => some (.addPages (unxList xs) (is1 c))
  | ["addlinks", ls] => some (.addLinks (parseLinks ls))
  | ["batch", d] => some (.batch (parseBatch d))
  | _ => none

def step (s : State) (line : String) : State × String :=
  match line.trimAscii.toString.splitOn " " with
  | ["init", _backend, d, rs, cfg] =>
    (match Rule.ofName d, parseRules rs with
     | some d, some rs => let r := State.fresh (cfgOfBits cfg) d rs; (r.1, renderAns (.ofExcept (fun _ => .unit) r.2))
     | _, _ => (s, "bad-op"))
  | ["overwrite", d, rs] =>
    (match Rule.ofName d, parseRules rs with
     | some d, some rs => let r := State.fresh s.cfg d rs; (r.1, renderAns (.ofExcept (fun _ => .unit) r.2))
     | _, _ => (s, "bad-op"))
  | ["pokeid", n] => (s.setHdr (n.toNat?.getD 0), "ok")       -- the header counter set by hand (a header write): ids near a boundary
  | ["deleteu", ps] => let r := s.deleteUnchecked (unxList ps); (r.1, renderAns (.ofExcept (fun _ => .unit) r.2))
  | ["addruleram", a, r] =>
    (match Rule.ofName r with
     | some r => let x := s.addRule (unx a) r false; (x.1, renderAns (.ofExcept .report x.2))
     | none => (s, "bad-op"))
  | "?" :: q => (match parseQuery q with
     | some qq => (s, renderAns (s.ask qq))
     | none => (s, helperQuery q))
  | ["hash"] => (s, imageLine s)
  | ["dump"] => (s, "T=" ++ hx (encodeTrie s) ++ " L=" ++ hx (encodeLinks s))
  | ws => (match parseOp ws with
     | some op => let r := s.step op; (r.1, renderAns r.2)
     | none => (s, "bad-op"))

structure Drv where
  s : State := {}
  full : Array Event := #[]       -- the whole event history since init, oldest first (C18)
  saved : Option State := none
  cos : List (Nat × CoSt) := []   -- live generators (C16)

def drvStep (d : Drv) (line : String) : Drv × String × List Event :=
  match line.trimAscii.toString.splitOn " " with
  | ["cut", k, j] =>
    (match cutOpenE d.s d.full.toList (k.toNat?.getD 0) (j.toNat?.getD 0) with
     | .ok s' => ({ d with s := s', saved := some (d.saved.getD d.s) }, "ok", [])
     | .error e => (d, errStr e, []))
  | ["uncut"] => ({ d with s := d.saved.getD d.s, saved := none }, "ok", [])
  | ["loglen"] => (d, "ok " ++ toString d.full.size, [])
  | "co" :: "new" :: id :: kind :: args =>
    let mk : Option CoSt := match kind, args with
      | "batch", [dt] => some (.batch { data := parseBatch dt })
      | "rule", [a, r] => (Rule.ofName r).map (fun r => .rule { anchor := unx a, rule := r })
      | "pages", [_, ps] => some (.pages { prefixes := unxList ps })
      | "net", [o, a] => some (.net { out := is1 o, auto := is1 a })
      | "crawled", [_, ps] => some (.query (.crawled { cur := { prefixes := unxList ps } }))
      | "mostlinked", [_, ps, k, dp] =>
        some (.query (.mostLinked { cur := { prefixes := unxList ps, depth := optNat dp }, k := k.toNat?.getD 10 }))
      | "children", [w, ps] =>
        some (.query (.children { cur := { prefixes := unxList ps, skip := true }, weid := w.toNat?.getD 0 }))
      | "pagelinks", [w, ps, i, n, o] =>
        some (.query (.pagelinks { cur := { prefixes := unxList ps }, weid := w.toNat?.getD 0,
                                   incIn := is1 i, incInt := is1 n, incOut := is1 o }))
      | "weout", [_, ps] => some (.query (.cited { cur := { prefixes := unxList ps }, out := true }))
      | "wein", [_, ps] => some (.query (.cited { cur := { prefixes := unxList ps }, out := false }))
      | "netslow", [o, a] => some (.query (.netSlow { out := is1 o, auto := is1 a }))
      | _, _ => none
    (match mk with
     | some c => ({ d with cos := dictSet d.cos (id.toNat?.getD 0) c }, "ok", [])
     | none => (d, "bad-op", []))
  | ["co", "step", id] =>
    (match dictGet? d.cos (id.toNat?.getD 0) with
     | none => (d, "bad-op", [])
     | some c =>
       let (s', c', o) := c.resume { d.s with log := [] }
       let ws := opEvents false s'.log.reverse
       let ans := match o with
         | .yielded => "yield"
         | .done a => "done " ++ renderAns a
         | .failed e => errStr e
       ({ d with s := s', full := d.full ++ ws.toArray, cos := dictSet d.cos (id.toNat?.getD 0) c' }, ans, ws))
  | _ =>
    let (s', ans) := step { d.s with log := [] } line
    let ws := opEvents (line.startsWith "clear ") s'.log.reverse
    let full := if line.startsWith "init " || line.startsWith "overwrite " then ws.toArray else d.full ++ ws.toArray
    ({ d with s := s', full := full }, ans, ws)

partial def loop (h : IO.FS.Stream) (out : IO.FS.Stream) (d : Drv) : IO Unit := do
  let line ← h.getLine
  if line.isEmpty then return ()
  let (d', ans, ws) := drvStep d line
  out.putStrLn ans
  out.putStrLn ("#W " ++ toString ws.length ++ " " ++ toString (fnvEvents ws))
  loop h out d'

def main : IO Unit := do
  let out ← IO.getStdout
  loop (← IO.getStdin) out {}
  out.flush

import Traph
/-! Line-protocol driver: one operation per line on stdin, one canonical answer line per operation on
    stdout followed by `#W <writes> <fnv64 of the writes of this operation>`. See DESIGN Appendix A. -/
open Traph Traph.State

/-! ### text helpers -/

def hexDigit (c : Char) : Nat :=
  if '0' ≤ c ∧ c ≤ '9' then c.toNat - '0'.toNat
  else if 'a' ≤ c ∧ c ≤ 'f' then c.toNat - 'a'.toNat + 10 else 0

def unhexGo : List Char → Bytes → Bytes
  | a :: b :: r, acc => unhexGo r ((hexDigit a * 16 + hexDigit b) :: acc)
  | _, acc => acc.reverse

/-- `xHEX` → bytes -/
def unx (s : String) : Bytes := unhexGo (s.drop 1).toString.toList []

def hexChars : Array Char := "0123456789abcdef".toList.toArray

def hx (b : Bytes) : String :=
  String.ofList ('x' :: b.foldr (fun x acc => hexChars[x / 16]! :: hexChars[x % 16]! :: acc) [])

def asciiStr (b : Bytes) : String := String.ofList (b.map Char.ofNat)
def strBytes (s : String) : Bytes := s.toList.map Char.toNat

def splitList (s : String) : List String :=
  -- "[a,b,c]" → ["a","b","c"], "[]" → []
  let inner := (s.drop 1).dropEnd 1 |>.toString
  if inner.isEmpty then [] else inner.splitOn ","

def unxList (s : String) : List Bytes := (splitList s).map unx

def brack (l : List String) : String := "[" ++ ",".intercalate l ++ "]"

def b01 (b : Bool) : String := if b then "1" else "0"
def is1 (s : String) : Bool := s == "1"

def optNat (s : String) : Option Nat := if s == "-" then none else s.toNat?

def parseRules (s : String) : Option (List (Bytes × Rule)) :=
  (splitList s).mapM (fun ar => match ar.splitOn "=" with
    | [a, r] => (Rule.ofName r).map (fun r => (unx a, r))
    | _ => none)

def parseLinks (s : String) : List (Bytes × Bytes) :=
  (splitList s).filterMap (fun st => match st.splitOn ">" with
    | [a, b] => some (unx a, unx b)
    | _ => none)

def parseBatch (s : String) : List (Bytes × List Bytes) :=
  if s == "-" then [] else
  (s.splitOn ";").filterMap (fun e => match e.splitOn ">" with
    | [a, ts] => some (unx a, if ts.isEmpty then [] else (ts.splitOn ",").map unx)
    | _ => none)

/-! ### rendering -/

def errStr : Err → String
  | .traph => "err traph"
  | .other n => "err other " ++ n

def renderReport (r : Report) : String :=
  "ok pages=" ++ toString r.pages ++ " we={" ++
    ";".intercalate (r.we.map (fun kv =>
      (match kv.1 with | some i => toString i | none => "none") ++ ":" ++ brack (kv.2.map hx))) ++ "}"

def renderE {α} (f : α → String) : Except Err α → String
  | .ok a => f a
  | .error e => errStr e

def renderPages (l : List (Bytes × Bool)) : String := "ok " ++ brack (l.map (fun p => hx p.1 ++ ":" ++ b01 p.2))
def renderLinks (l : List PageLink) : String :=
  brack (l.map (fun p => hx p.1 ++ ">" ++ hx p.2.1 ++ ":" ++ toString p.2.2))
def renderNats (l : List Nat) : String := "ok " ++ brack (l.map toString)

def sortStrings (l : List String) : List String := (l.toArray.qsort (· < ·)).toList

def renderNet (g : List NetRow) : String :=
  let rows := g.map (fun r =>
    let ts := sortStrings (r.targets.map (fun tw => toString tw.1 ++ "=" ++ toString tw.2))
    (r.src, toString r.src ++ ":c=" ++ toString r.crawled ++ ":u=" ++ toString r.uncrawled ++ ":{" ++
      "/".intercalate ts ++ "}"))
  let rows := (rows.toArray.qsort (fun a b => a.1 < b.1)).toList
  "ok " ++ brack (rows.map (·.2))

/-! ### write-log fingerprint -/

def fnvStep (h : UInt64) (x : Nat) : UInt64 := (h ^^^ x.toUInt64) * 1099511628211
def fnvBytes (h : UInt64) (b : Bytes) : UInt64 := b.foldl fnvStep h
def fnvInit : UInt64 := 14695981039346656037

def writeBytes : Write → Nat × Nat × Bytes      -- (kind, offset, data)
  | .hdr id => (0, 0, encodeTrieHeader id)
  | .trieAppend c => (1, 0, encodeCell c)
  | .trieSet i c => (0, i * Layout.trieBlock, encodeCell c)
  | .linkHdr => (2, 0, encodeLinkHeader)
  | .linkAppend s => (3, 0, encodeStub s)

def fnvWrites (ws : List Write) : UInt64 :=
  ws.foldl (fun h w =>
    let (k, off, data) := writeBytes w
    fnvBytes (fnvBytes (fnvStep h k) (toLE off 8)) data) fnvInit

def imageLine (s : State) : String :=
  let t := encodeTrie s
  let l := encodeLinks s
  "#T " ++ toString (fnvBytes fnvInit t) ++ " " ++ toString s.trie.size ++
  " #L " ++ toString (fnvBytes fnvInit l) ++ " " ++ toString s.links.size

/-! ### dispatch -/

def cfgOfBits (s : String) : Config :=
  match s.toList with
  | [a, b, c] => { lonelyIndegreeOne := a == '1', addPagesAlwaysCrawled := b == '1', noneInCitedSets := c == '1' }
  | _ => {}

def wr {α} (f : α → String) (r : State × Except Err α) : State × String := (r.1, renderE f r.2)
def okUnit : Unit → String := fun _ => "ok"

def degKind : String → DegKind
  | "in" => .indeg
  | "out" => .outdeg
  | _ => .deg

def query (s : State) : List String → String
  | ["retrieveprefix", x] => renderE (fun b => "ok " ++ hx b) (s.retrievePrefix (unx x))
  | ["potential", x] => renderE (fun o => match o with | some b => "ok " ++ hx b | none => "ok false") (s.potentialPrefix (unx x))
  | ["retrievewe", x] => renderE (fun n => "ok " ++ toString n) (s.retrieveWebentity (unx x))
  | ["webyprefix", x] => renderE (fun n => "ok " ++ toString n) (s.webentityByPrefix (unx x))
  | ["pages", _, ps] => renderE renderPages (s.webentityPages (unxList ps))
  | ["crawledpages", _, ps] => renderE renderPages (s.webentityCrawledPages (unxList ps))
  | ["paginate", _, ps, k, tok, co] =>
    renderE (fun (c : PageChunk) => "ok done=" ++ b01 c.done ++ " count=" ++ toString c.count ++ " crawled=" ++
        toString c.crawled ++ " pages=" ++ brack (c.pages.map (fun p => hx p.1 ++ ":" ++ b01 p.2)) ++ " token=" ++
        (match c.token with | some t => asciiStr t | none => "-"))
      (s.paginatePages (unxList ps) (optNat k) (if tok == "-" then none else some (strBytes tok)) (is1 co))
  | ["mostlinked", _, ps, k, d] =>
    renderE (fun l => "ok " ++ brack (l.map (fun p => hx p.1 ++ ":" ++ toString p.2)))
      (s.mostLinked (unxList ps) (k.toNat?.getD 10) (optNat d))
  | ["parents", w, ps] => renderE renderNats (s.parentWebentities (w.toNat?.getD 0) (unxList ps))
  | ["children", w, ps] => renderE renderNats (s.childWebentities (w.toNat?.getD 0) (unxList ps))
  | ["pagelinks", w, ps, i, n, o] =>
    renderE (fun l => "ok " ++ renderLinks l) (s.webentityPagelinks (w.toNat?.getD 0) (unxList ps) (is1 i) (is1 n) (is1 o))
  | ["paginatelinks", w, ps, n, o, k, tok] =>
    renderE (fun (c : LinkChunk) => "ok done=" ++ b01 c.done ++ " sources=" ++ toString c.sourcePages ++
        " links=" ++ renderLinks c.links ++ " token=" ++ (match c.token with | some t => asciiStr t | none => "-"))
      (s.paginateLinks (w.toNat?.getD 0) (unxList ps) (is1 n) (is1 o) (optNat k)
        (if tok == "-" then none else some (strBytes tok)))
  | ["weout", _, ps] => renderE renderNats (s.citedWebentities (unxList ps) true)
  | ["wein", _, ps] => renderE renderNats (s.citedWebentities (unxList ps) false)
  | ["pagelinksof", x, i, n, o] => "ok " ++ renderLinks (s.pageLinks (unx x) (is1 i) (is1 n) (is1 o))
  | ["pagedeg", x, kind, w] => "ok " ++ toString (s.pageDegree (unx x) (degKind kind) (is1 w))
  | ["network", o, a, slow] => renderNet (if is1 slow then s.networkSlow (is1 o) (is1 a) else s.network (is1 o) (is1 a))
  | ["expand", p] => "ok " ++ brack ((lruVariations (unx p)).map hx)
  | ["variations", p] => "ok " ++ brack ((lruVariations (unx p)).map hx)
  | ["linksiter", o] => "ok " ++ brack (sortStrings ((s.linksIter (is1 o)).map (fun p => hx p.1 ++ ">" ++ hx p.2)))
  | ["pagesiter"] => renderPages s.pagesIter
  | ["prefixiter"] => "ok " ++ brack (s.prefixIter.map (fun p => hx p.1 ++ ":" ++ toString p.2))
  | ["counts"] => "ok pages=" ++ toString s.countPages ++ " crawled=" ++ toString s.countCrawledPages ++
      " links2=" ++ toString s.countLinks2
  | ["metrics"] =>
    let m := s.metrics
    if m.nbStems == 0 then "err other ZeroDivisionError" else
    let lm := s.linksMetrics
    let o := fun (x : Option Bytes) => match x with | some b => hx b | none => "none"
    "ok nodes=" ++ toString m.nbNodes ++ " pages=" ++ toString m.nbPages ++ " crawled=" ++ toString m.nbCrawled ++
      " tail=" ++ toString m.nbTail ++ " frag=" ++ toString m.nbFragmented ++ " stems=" ++ toString m.nbStems ++
      " maxtail=" ++ toString m.maxTail ++ " links2=" ++ toString s.countLinks2 ++
      " maxin=" ++ toString lm.1 ++ ":" ++ o lm.2.1 ++ " maxout=" ++ toString lm.2.2.1 ++ ":" ++ o lm.2.2.2
  | ["token", i, p] =>
    let t := buildToken (i.toNat?.getD 0) (p.toNat?.getD 0)
    "ok " ++ asciiStr t ++ " " ++ (match parseToken t with
      | some (a, b) => toString a ++ " " ++ toString b | none => "none")
  | ["chunks", n, x] => "ok " ++ brack ((chunks (n.toNat?.getD 1) (unx x)).map hx)
  | ["rule", r, x] => (match Rule.ofName r with
      | some r => (match r.search (unx x) with | some m => "ok " ++ hx m | none => "ok none")
      | none => "bad-op")
  | ["lrunode", x] => (match s.lruNode (lruIter (unx x)) with
      | some n => "ok " ++ toString (n * Layout.trieBlock) | none => "ok none")
  | ["windup", b] => "ok " ++ hx (s.windup ((b.toNat?.getD 0) / Layout.trieBlock))
  | ["dfs"] => "ok " ++ brack ((s.dfsIter none false).map (fun bl => toString (bl.1 * Layout.trieBlock) ++ ":" ++ hx bl.2))
  | _ => "bad-op"

def step (s : State) (line : String) : State × String :=
  match line.trimAscii.toString.splitOn " " with
  | ["init", _backend, d, rs, cfg] =>
    (match Rule.ofName d, parseRules rs with
     | some d, some rs => wr okUnit (State.fresh (cfgOfBits cfg) d rs)
     | _, _ => (s, "bad-op"))
  | ["reopen", d, rs] =>
    (match Rule.ofName d, parseRules rs with
     | some d, some rs => (s.reopen d rs, "ok")
     | _, _ => (s, "bad-op"))
  | ["clear", d, rs] =>
    let d' := if d == "-" then some none else (Rule.ofName d).map some
    let rs' := if rs == "none" then some none else (parseRules rs).map some
    (match d', rs' with
     | some d, some rs => wr okUnit (s.clear d rs)
     | _, _ => (s, "bad-op"))
  | ["addrule", a, r] => (match Rule.ofName r with
     | some r => wr renderReport (s.addRule (unx a) r true)
     | none => (s, "bad-op"))
  | ["rmrule", a] => wr okUnit (s.removeRule (unx a))
  | ["create", ps] => wr renderReport (s.createWebentity (unxList ps))
  | ["delete", w, ps] => wr okUnit (s.deleteWebentity (w.toNat?.getD 0) (unxList ps))
  | ["addprefix", p, w] => wr okUnit (s.addPrefix (unx p) (w.toNat?.getD 0))
  | ["rmprefix", p, w] => wr okUnit (s.removePrefix (unx p) (optNat w))
  | ["moveprefix", p, t, f] => wr okUnit (s.movePrefix (unx p) (t.toNat?.getD 0) (optNat f))
  | ["addpage", x, c] => wr renderReport (s.addPage (unx x) (is1 c))
  | ["addpages", xs, c] => wr renderReport (s.addPages (unxList xs) (is1 c))
  | ["addlinks", ls] => wr renderReport (s.addLinks (parseLinks ls))
  | ["batch", d] => wr renderReport (s.batch (parseBatch d))
  | "?" :: q => (s, query s q)
  | ["hash"] => (s, imageLine s)
  | ["dump"] => (s, "T=" ++ hx (encodeTrie s) ++ " L=" ++ hx (encodeLinks s))
  | _ => (s, "bad-op")

partial def loop (h : IO.FS.Stream) (out : IO.FS.Stream) (s : State) : IO Unit := do
  let line ← h.getLine
  if line.isEmpty then return ()
  let (s', ans) := step { s with log := [] } line
  out.putStrLn ans
  out.putStrLn ("#W " ++ toString s'.log.length ++ " " ++ toString (fnvWrites s'.log.reverse))
  loop h out s'

def main : IO Unit := do
  let out ← IO.getStdout
  loop (← IO.getStdin) out {}
  out.flush

import Traph
import Proofs.AutoCreate
import Proofs.RuleInstallCor
import Proofs.DerivedOps
import Proofs.DerivedReach
/-! C06 — automatic creation follows the rules. The decision ladder of `__add_page` for an arbitrary rule table
    (`C06_ladder`): nothing is created when the longest candidate is not longer than the existing prefix
    (`C06_covered_creates_nothing`, `C06_post_no_creation`); otherwise one webentity is created and reported,
    owning K plus the variations not already owned, and the page resolves to it (`C06_post_creation`); the
    potential-prefix query runs the same ladder read-only (`C06_potential*`). Installing a rule on a populated
    index IS re-inserting, in the traversal's order, every page beneath its anchor (`C06_rule_install`: an
    equation between the request and the fold of re-insertions over exactly those pages, each once), with the
    corollaries `C06_rule_install_pages` (no page or mark changes), `_resolves`, `_others`
    (Proofs/GraftChain, ChainOps, RuleInstall, RuleFuel*, RuleInstallCor). -/
namespace Traph.Props
open Traph State

/-- K ≤ E ⇒ no webentity is created and none is reported -/
theorem C06_covered_creates_nothing (s : State) (lru : Bytes) (crawled : Bool) (cand : Bytes) (p : Nat)
    (hc : (s.addPageTrie (lruIter lru) crawled).1.longestCandidate lru (s.addPageTrie (lruIter lru) crawled).2.2 = some cand)
    (hp : (s.addPageTrie (lruIter lru) crawled).2.2.wePos = some p) (hle : cand.length ≤ p) :
    (s.addPageCore lru crawled).1 = (s.addPageTrie (lruIter lru) crawled).1 ∧
    ∃ r, (s.addPageCore lru crawled).2.2 = .ok r ∧ r.we = [] := by
  unfold addPageCore
  rcases ht : s.addPageTrie (lruIter lru) crawled with ⟨s1, n, h⟩
  rw [ht] at hc hp
  simp only at hc hp ⊢
  simp [hc, hp, hle]

/-- the potential-prefix query never changes the index (it is a function of the state) and answers the
    existing prefix in exactly the case where insertion creates nothing -/
theorem C06_potential_covered (s : State) (lru : Bytes) (cand : Bytes) (p : Nat)
    (hc : s.longestCandidate lru (s.followLru (lruIter lru)).2 = some cand)
    (hp : (s.followLru (lruIter lru)).2.wePos = some p) (hle : cand.length ≤ p) :
    s.potentialPrefix lru = .ok (some (lru.take p)) := by
  unfold potentialPrefix
  rcases hf : s.followLru (lruIter lru) with ⟨n, h⟩
  rw [hf] at hc hp
  simp only at hc hp ⊢
  simp [hc, hp, hle]

/-- …and the rule result when it is strictly longer -/
theorem C06_potential_rule_wins (s : State) (lru : Bytes) (cand : Bytes) (p : Nat)
    (hc : s.longestCandidate lru (s.followLru (lruIter lru)).2 = some cand)
    (hp : (s.followLru (lruIter lru)).2.wePos = some p) (hlt : p < cand.length) :
    s.potentialPrefix lru = .ok (some cand) := by
  unfold potentialPrefix
  rcases hf : s.followLru (lruIter lru) with ⟨n, h⟩
  rw [hf] at hc hp
  simp only at hc hp ⊢
  have : ¬ cand.length ≤ p := by omega
  simp [hc, hp, this]

/-! ### after the insertion (Proofs/AutoHist, AutoCreate) -/

/-- the decision ladder in terms of E (= retrieve_prefix before the insertion) and the longest rule proposal: K ≤ E creates nothing, K > E creates for K, E absent: the rule proposal if any, else the default rule -/
theorem C06_ladder {s : State} {t : T} (h : Shape s t) (lru : Bytes) (hne : lruIter lru ≠ []) (cand : Bytes)
    (hc : s.longestCandidate lru (s.followLru (lruIter lru)).2 = some cand) :
    (∀ E, s.retrievePrefix lru = .ok E →
      (cand.length ≤ E.length → s.autoPlan lru = some none) ∧
      (E.length < cand.length → s.autoPlan lru = some (some cand))) ∧
    (∀ e, s.retrievePrefix lru = .error e →
      (cand ≠ [] → s.autoPlan lru = some (some cand)) ∧
      (cand = [] → s.autoPlan lru =
        match s.dflt.search lru with
        | none => some none
        | some k => if k.isEmpty then some none else some (some k))) :=
  Traph.autoPlan_cases h lru hne cand hc

/-- nothing to create: nothing reported, the attachment map and the page's resolution are unchanged (the page resolves to E) -/
theorem C06_post_no_creation {s : State} {t : T} (h : Shape s t) (lru : Bytes) (c : Bool)
    (hne : lruIter lru ≠ []) (hp : s.autoPlan lru = some none) :
    (∃ r, (s.addPageCore lru c).2.2 = .ok r ∧ r.we = []) ∧
    (s.addPageCore lru c).1.weMap = s.weMap ∧
    (s.addPageCore lru c).1.retrievePrefix lru = s.retrievePrefix lru ∧
    (s.addPageCore lru c).1.retrieveWebentity lru = s.retrieveWebentity lru :=
  Traph.C06_post_no_creation h lru c hne hp

/-- creation: exactly one webentity is reported, with a fresh id, owning K and every scheme/www variation of K not already owned; afterwards the page resolves to that webentity; its defining prefix is K unless a variation of K is itself a longer stem-prefix of the page (page `…|h:a|h:www|p:x|` under K = `…|h:a|`), in which case it is that variation: the literal reading `retrieve_prefix = K` is false there (witness in Proofs/AutoCreate) -/
theorem C06_post_creation {s : State} {t : T} (h : Shape s t) (lru : Bytes) (c : Bool)
    (hne : lruIter lru ≠ []) {K : Bytes} (hp : s.autoPlan lru = some (some K))
    {k : Nat} (hk0 : 0 < k) (hkl : k ≤ (lruIter lru).length) (hK : K = ((lruIter lru).take k).flatten) :
    (∃ r, (s.addPageCore lru c).2.2 = .ok r ∧
      r.we = [(some (s.hdrId + 1), freeOf s.weMap (lruVariations K))]) ∧
    K ∈ freeOf s.weMap (lruVariations K) ∧
    (∀ p, p ∈ freeOf s.weMap (lruVariations K) ↔ p ∈ lruVariations K ∧ s.weMap (lruIter p) = 0) ∧
    (s.addPageCore lru c).1.weMap = mapAttach s.weMap ((lruVariations K).map lruIter) (s.hdrId + 1) ∧
    (s.addPageCore lru c).1.retrieveWebentity lru = .ok (s.hdrId + 1) ∧
    ((∀ v ∈ lruVariations K, ∀ j, k < j → j ≤ (lruIter lru).length → lruIter v ≠ (lruIter lru).take j) →
      (s.addPageCore lru c).1.retrievePrefix lru = .ok K) :=
  Traph.C06_post_creation h lru c hne hp hk0 hkl hK

/-- `get_potential_prefix` returns the same max(E,K) as the ladder, read-only -/
theorem C06_potential {s : State} {t : T} (h : Shape s t) (lru : Bytes) (hne : lruIter lru ≠ []) :
    (∀ K, s.autoPlan lru = some (some K) → s.potentialPrefix lru = .ok (some K)) ∧
    (s.autoPlan lru = some none →
      (∀ E, s.retrievePrefix lru = .ok E → s.potentialPrefix lru = .ok (some E)) ∧
      (∀ e, s.retrievePrefix lru = .error e → s.potentialPrefix lru = .ok none)) ∧
    (s.autoPlan lru = none → s.potentialPrefix lru = .error (.other "KeyError")) :=
  Traph.C06_potential h lru hne

/-! ### installing a rule on a populated index (Proofs/RuleInstall*) -/

/-- THE LAST CLAUSE: in every reachable state, `add_webentity_creation_rule(anchor, r)` equals — final index AND report — registering the rule, inserting and flagging the anchor (`rulePrologue`), then re-inserting one after another the pages of the list `L`, which holds exactly the pages whose LRU has the anchor as a stem-prefix (the anchor itself included if it is a page), each once, in the traversal's order. The order is the model's DFS order; ids depend on it (`order_matters_ids` in Proofs/RuleInstallCor) -/
theorem C06_rule_install (cfg : Config) (dflt : Rule) (rules : List (Bytes × Rule)) (ops : List Op)
    (hrules : ∀ ar ∈ rules, lruIter ar.1 ≠ [])
    (hop : ∀ op ∈ ops, ∀ d rs, op ≠ .clear d rs) (hwf : ∀ op ∈ ops, OpWf op)
    (hok : NoKeyErr (State.fresh cfg dflt rules []).1 ops)
    (anchor : Bytes) (r : Rule) (hne : lruIter anchor ≠ []) :
    let s := (State.fresh cfg dflt rules []).1.run ops
    let L := (s.rulePrologue anchor r).1.pagesBelow (s.rulePrologue anchor r).2 anchor
    (s.step (.addRule anchor r)).1 = ((s.rulePrologue anchor r).1.reinsert L {}).1 ∧
    (s.step (.addRule anchor r)).2 = Ans.ofExcept .report ((s.rulePrologue anchor r).1.reinsert L {}).2 ∧
    L.Nodup ∧
    ∃ t, Shape s t ∧ ∀ lru, lru ∈ L ↔ ∃ p, IsPage s t p ∧ lruIter anchor <+: p ∧ lru = p.flatten :=
  Traph.C06_rule_install_reachable cfg dflt rules ops hrules hop hwf hok anchor r hne

/-- the installation adds no page, removes none, changes no crawled mark, and reports 0 new pages -/
theorem C06_rule_install_pages {s : State} {t : T} (h : Shape s t) (hi : Inv s t) (anchor : Bytes) (r : Rule)
    (hne : lruIter anchor ≠ []) :
    ∃ t', Shape (s.addRule anchor r true).1 t' ∧
      (∀ p, IsPage (s.addRule anchor r true).1 t' p ↔ IsPage s t p) ∧
      (∀ p, IsCrawled (s.addRule anchor r true).1 t' p ↔ IsCrawled s t p) ∧
      (∀ rp, (s.addRule anchor r true).2 = .ok rp → rp.pages = 0) :=
  Traph.C06_rule_install_pages h hi anchor r hne

/-- an LRU none of whose stem-prefixes is a prefix reported as created keeps its webentity and defining prefix -/
theorem C06_rule_install_others {s : State} {t : T} (h : Shape s t) (anchor : Bytes) (r : Rule) (rp : Report)
    (hok : (s.addRule anchor r true).2 = .ok rp) (q : Bytes)
    (hq : ∀ e ∈ rp.we, ∀ v ∈ e.2, ∀ j, lruIter v ≠ (lruIter q).take j) :
    (s.addRule anchor r true).1.retrieveWebentity q = s.retrieveWebentity q ∧
    (s.addRule anchor r true).1.retrievePrefix q = s.retrievePrefix q :=
  Traph.C06_rule_install_others h anchor r rp hok q hq

/-- `add_webentity_creation_rule(anchor, pattern, write_in_trie=False)` (what the constructor does on reopening): the
    rule goes to RAM and nothing else changes — no flag, no page re-evaluated, nothing reported -/
theorem C06_rule_ram_only (s : State) (a : Bytes) (r : Rule) :
    s.addRule a r false = ({ s with rules := dictSet s.rules a r }, .ok {}) := Traph.addRule_ram s a r

/-- …and it leaves a reachable index (it is a `reopen` that re-supplies the rules with one more), for any anchor -/
theorem C06_rule_ram_reachable {s : State} (h : Reachable s) (a : Bytes) (r : Rule) :
    Reachable (s.addRule a r false).1 := Traph.addRule_ram_reachable h a r

end Traph.Props

import Traph
/-! C06 — automatic creation follows the rules. Proved so far, directly on the decision ladder of
    `__add_page` (for an arbitrary rule table — no assumption on the rule family): nothing is created
    when the longest candidate is not longer than the existing prefix; the potential-prefix query runs
    the same ladder read-only. The statement "afterwards the page resolves to max(E,K)" needs the
    search/insert agreement (Proofs/Shape*, in progress). -/
namespace Traph.Props
open Traph State

/-- K ≤ E ⇒ no webentity is created and none is reported -/
theorem C06_covered_creates_nothing (s : State) (lru : Bytes) (crawled : Bool) (cand : Bytes) (p : Nat)
    (hc : (s.addPageTrie (lruIter lru) crawled).1.longestCandidate lru (s.addPageTrie (lruIter lru) crawled).2.2 = some cand)
    (hp : (s.addPageTrie (lruIter lru) crawled).2.2.wePos = some p) (hle : cand.length ≤ p) :
    (s.addPageCore lru crawled).1 = (s.addPageTrie (lruIter lru) crawled).1 ∧
    ∃ r, (s.addPageCore lru crawled).2.2 = .ok r ∧ r.we = [] := by
  unfold addPageCore
  rcases ht : s.addPageTrie (lruIter lru) crawled with ⟨s1, n, h⟩
  rw [ht] at hc hp
  simp only at hc hp ⊢
  simp [hc, hp, hle]

/-- the potential-prefix query never changes the index (it is a function of the state) and answers the
    existing prefix in exactly the case where insertion creates nothing -/
theorem C06_potential_covered (s : State) (lru : Bytes) (cand : Bytes) (p : Nat)
    (hc : s.longestCandidate lru (s.followLru (lruIter lru)).2 = some cand)
    (hp : (s.followLru (lruIter lru)).2.wePos = some p) (hle : cand.length ≤ p) :
    s.potentialPrefix lru = .ok (some (lru.take p)) := by
  unfold potentialPrefix
  rcases hf : s.followLru (lruIter lru) with ⟨n, h⟩
  rw [hf] at hc hp
  simp only at hc hp ⊢
  simp [hc, hp, hle]

/-- …and the rule result when it is strictly longer -/
theorem C06_potential_rule_wins (s : State) (lru : Bytes) (cand : Bytes) (p : Nat)
    (hc : s.longestCandidate lru (s.followLru (lruIter lru)).2 = some cand)
    (hp : (s.followLru (lruIter lru)).2.wePos = some p) (hlt : p < cand.length) :
    s.potentialPrefix lru = .ok (some cand) := by
  unfold potentialPrefix
  rcases hf : s.followLru (lruIter lru) with ⟨n, h⟩
  rw [hf] at hc hp
  simp only at hc hp ⊢
  have : ¬ cand.length ≤ p := by omega
  simp [hc, hp, this]

end Traph.Props

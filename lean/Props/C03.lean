import Proofs.LinkLists
/-! C03 — link multigraph fidelity. Proved so far, for every state with well-formed link arrays: a list
    write prepends exactly the submitted ends, newest first, and changes no other list (stubs are
    immutable); the reported weights are the multiplicities of the walk, each target once. The lift to
    "weight = number of submissions" over whole histories needs the page ↔ block correspondence
    (Proofs/Shape*, in progress) — hence `_partial`. -/
namespace Traph.Props
open Traph State

theorem C03_lists_partial (s : State) (hwf : LinksWf s) (tail : Nat) (ht : tail < s.links.size) (targets : List Nat)
    (hne : targets ≠ []) :
    (s.addStubsGo tail targets).1.walk (s.addStubsGo tail targets).2 =
      targets.reverse ++ (if tail ≠ 0 then s.walk tail else []) ∧
    ∀ h, h < s.links.size → (s.addStubsGo tail targets).1.walk h = s.walk h :=
  ⟨(addStubsGo_walk s hwf tail ht targets hne), addStubsGo_frame s hwf tail ht targets⟩

/-- weight reported for a target = its multiplicity in the list; each target reported once -/
theorem C03_weights (s : State) (head t n : Nat) :
    (t, n) ∈ s.weighted head ↔ (t ∈ s.walk head ∧ n = count t (s.walk head)) := weighted_spec s head t n

theorem C03_each_once (s : State) (head : Nat) : ((s.weighted head).map (·.1)).Nodup := by
  unfold weighted; exact countInto_fold_keys_nodup _

/-- the weights of a list sum to its length: nothing is lost by the aggregation -/
theorem C03_total (s : State) (head : Nat) : ((s.weighted head).map (·.2)).sum = (s.walk head).length :=
  weighted_total s head

/-- the global link count is half the number of stubs (two stubs per submitted link) -/
theorem C03_count (s : State) : s.countLinks2 = s.links.size - 1 := rfl

end Traph.Props

import Proofs.LinkLists
import Proofs.LinkBagC03
import Proofs.HeadlinesAll
/-! C03 — link multigraph fidelity, in full (Proofs/LinkBag*): for every history of writes from a fresh index the
    out-list of `p` and the in-list of `q` hold the link `p → q` as many times as it was submitted
    (`C03_history`, `C03_symmetry`), self-links are stored on both sides and reported once as internal,
    `count_links`, both enumerations and the degree figures are the corresponding totals (`C03_totals`,
    `C03_degrees_unweighted`). Histories in which `index_batch_crawl` is aborted by the library's KeyError
    (a rule flag in the trie with no rule in RAM, i.e. rules not re-supplied on reopen) are excluded: there the
    out-lists of the rows already processed are written and no in-list is (witness in Proofs/LinkBagC03). The
    per-list lemmas the proof starts from are kept below. -/
namespace Traph.Props
open Traph State

theorem C03_lists_partial (s : State) (hwf : LinksWf s) (tail : Nat) (ht : tail < s.links.size) (targets : List Nat)
    (hne : targets ≠ []) :
    (s.addStubsGo tail targets).1.walk (s.addStubsGo tail targets).2 =
      targets.reverse ++ (if tail ≠ 0 then s.walk tail else []) ∧
    ∀ h, h < s.links.size → (s.addStubsGo tail targets).1.walk h = s.walk h :=
  ⟨(addStubsGo_walk s hwf tail ht targets hne), addStubsGo_frame s hwf tail ht targets⟩

/-- weight reported for a target = its multiplicity in the list; each target reported once -/
theorem C03_weights (s : State) (head t n : Nat) :
    (t, n) ∈ s.weighted head ↔ (t ∈ s.walk head ∧ n = count t (s.walk head)) := weighted_spec s head t n

theorem C03_each_once (s : State) (head : Nat) : ((s.weighted head).map (·.1)).Nodup := by
  unfold weighted; exact countInto_fold_keys_nodup _

/-- the weights of a list sum to its length: nothing is lost by the aggregation -/
theorem C03_total (s : State) (head : Nat) : ((s.weighted head).map (·.2)).sum = (s.walk head).length :=
  weighted_total s head

/-- the global link count is half the number of stubs (two stubs per submitted link) -/
theorem C03_count (s : State) : s.countLinks2 = s.links.size - 1 := rfl

/-! ### history level (Proofs/LinkBag*): the link multigraph equals the submissions -/

/-- THE PROPERTY, weights: for every history (no `clear`; `NoKeyErr` as in C01) and every ordered pair of distinct pages `(p, q)`, the weight reported on the outbound side of `p` towards `q` and on the inbound side of `q` from `p` are both the number of times `p → q` was submitted (reported iff positive); a self-link is reported once, as internal, with its submission count, and never when internal links are switched off; no answer repeats a triple -/
theorem C03_history (cfg : Config) (dflt : Rule) (rules : List (Bytes × Rule)) (ops : List Op)
    (hrules : ∀ ar ∈ rules, lruIter ar.1 ≠ [])
    (hop : ∀ op ∈ ops, ∀ d rs, op ≠ .clear d rs) (hwf : ∀ op ∈ ops, OpWf op)
    (hok : NoKeyErr (State.fresh cfg dflt rules []).1 ops) :
    (∀ p q, Submitted ops p → Submitted ops q → q ≠ p → ∀ n,
      ((p.flatten, q.flatten, n) ∈ ((State.fresh cfg dflt rules []).1.run ops).pageLinks p.flatten false false true ↔
        (0 < n ∧ n = nsub (ops.flatMap Op.links) p q)) ∧
      ((p.flatten, q.flatten, n) ∈ ((State.fresh cfg dflt rules []).1.run ops).pageLinks q.flatten true false false ↔
        (0 < n ∧ n = nsub (ops.flatMap Op.links) p q))) ∧
    (∀ p, Submitted ops p → ∀ incIn incOut n,
      ((p.flatten, p.flatten, n) ∈ ((State.fresh cfg dflt rules []).1.run ops).pageLinks p.flatten incIn true incOut ↔
        (0 < n ∧ n = nsub (ops.flatMap Op.links) p p)) ∧
      (p.flatten, p.flatten, n) ∉ ((State.fresh cfg dflt rules []).1.run ops).pageLinks p.flatten incIn false incOut) ∧
    (∀ p, Submitted ops p → ∀ incIn incInt incOut,
      (((State.fresh cfg dflt rules []).1.run ops).pageLinks p.flatten incIn incInt incOut).Nodup) :=
  Traph.C03_history cfg dflt rules ops hrules hop hwf hok

/-- `count_links` counts stubs, two per submission; the two enumerations are transposes of each other and list exactly the submitted pairs; the weighted degree figures are the corresponding sums -/
theorem C03_totals (cfg : Config) (dflt : Rule) (rules : List (Bytes × Rule)) (ops : List Op)
    (hrules : ∀ ar ∈ rules, lruIter ar.1 ≠ [])
    (hop : ∀ op ∈ ops, ∀ d rs, op ≠ .clear d rs) (hwf : ∀ op ∈ ops, OpWf op)
    (hok : NoKeyErr (State.fresh cfg dflt rules []).1 ops) :
    ((State.fresh cfg dflt rules []).1.run ops).countLinks2 = 2 * (ops.flatMap Op.links).length ∧
    (∀ x y, (x, y) ∈ ((State.fresh cfg dflt rules []).1.run ops).linksIter true ↔
      (y, x) ∈ ((State.fresh cfg dflt rules []).1.run ops).linksIter false) ∧
    (∀ x y, (x, y) ∈ ((State.fresh cfg dflt rules []).1.run ops).linksIter true ↔
      ∃ st ∈ ops.flatMap Op.links, x = (lruIter st.1).flatten ∧ y = (lruIter st.2).flatten) ∧
    (∀ p, Submitted ops p →
      ((State.fresh cfg dflt rules []).1.run ops).pageDegree p.flatten .outdeg true =
        ((ops.flatMap Op.links).filter (fun st => decide (lruIter st.1 = p ∧ lruIter st.2 ≠ p))).length ∧
      ((State.fresh cfg dflt rules []).1.run ops).pageDegree p.flatten .indeg true =
        ((ops.flatMap Op.links).filter (fun st => decide (lruIter st.2 = p ∧ lruIter st.1 ≠ p))).length ∧
      ((State.fresh cfg dflt rules []).1.run ops).pageDegree p.flatten .deg true =
        ((ops.flatMap Op.links).filter (fun st => decide (lruIter st.1 = p))).length +
        ((ops.flatMap Op.links).filter (fun st => decide (lruIter st.2 = p ∧ lruIter st.1 ≠ p))).length) :=
  Traph.C03_totals cfg dflt rules ops hrules hop hwf hok

/-- block level: the stub store is well-formed (acyclic, every pointer inside the file) and the out and in lists are symmetric as multisets, in every reachable state -/
theorem C03_symmetry (cfg : Config) (dflt : Rule) (rules : List (Bytes × Rule)) (ops : List Op)
    (hrules : ∀ ar ∈ rules, lruIter ar.1 ≠ [])
    (hop : ∀ op ∈ ops, ∀ d rs, op ≠ .clear d rs) (hwf : ∀ op ∈ ops, OpWf op)
    (hok : NoKeyErr (State.fresh cfg dflt rules []).1 ops) (a b : Nat) :
    LinksOk ((State.fresh cfg dflt rules []).1.run ops) ∧
    count b (((State.fresh cfg dflt rules []).1.run ops).outBag a) =
      count a (((State.fresh cfg dflt rules []).1.run ops).inBag b) :=
  Traph.C03_symmetry cfg dflt rules ops hrules hop hwf hok a b

/-- the complete answer of `get_page_links` for a page of the history, any switches -/
theorem C03_pageLinks (cfg : Config) (dflt : Rule) (rules : List (Bytes × Rule)) (ops : List Op)
    (hrules : ∀ ar ∈ rules, lruIter ar.1 ≠ [])
    (hop : ∀ op ∈ ops, ∀ d rs, op ≠ .clear d rs) (hwf : ∀ op ∈ ops, OpWf op)
    (hok : NoKeyErr (State.fresh cfg dflt rules []).1 ops)
    (p : LRU) (hp : Submitted ops p) (incIn incInt incOut : Bool) (x : PageLink) :
    x ∈ ((State.fresh cfg dflt rules []).1.run ops).pageLinks p.flatten incIn incInt incOut ↔
      (∃ q, 0 < nsub (ops.flatMap Op.links) p q ∧ ((incOut = true ∧ q ≠ p) ∨ (incInt = true ∧ q = p)) ∧
        x = (p.flatten, q.flatten, nsub (ops.flatMap Op.links) p q)) ∨
      (incIn = true ∧ ∃ q, 0 < nsub (ops.flatMap Op.links) q p ∧ q ≠ p ∧
        x = (q.flatten, p.flatten, nsub (ops.flatMap Op.links) q p)) :=
  Traph.C03_pageLinks cfg dflt rules ops hrules hop hwf hok p hp incIn incInt incOut x

/-- unweighted degree figures = numbers of distinct pages linked to / from -/
theorem C03_degrees_unweighted (cfg : Config) (dflt : Rule) (rules : List (Bytes × Rule)) (ops : List Op)
    (hrules : ∀ ar ∈ rules, lruIter ar.1 ≠ [])
    (hop : ∀ op ∈ ops, ∀ d rs, op ≠ .clear d rs) (hwf : ∀ op ∈ ops, OpWf op)
    (hok : NoKeyErr (State.fresh cfg dflt rules []).1 ops) (p : LRU) (hp : Submitted ops p) :
    ∃ outAll outOther inOther : List LRU, outAll.Nodup ∧ outOther.Nodup ∧ inOther.Nodup ∧
      (∀ q, q ∈ outAll ↔ 0 < nsub (ops.flatMap Op.links) p q) ∧
      (∀ q, q ∈ outOther ↔ (0 < nsub (ops.flatMap Op.links) p q ∧ q ≠ p)) ∧
      (∀ q, q ∈ inOther ↔ (0 < nsub (ops.flatMap Op.links) q p ∧ q ≠ p)) ∧
      ((State.fresh cfg dflt rules []).1.run ops).pageDegree p.flatten .outdeg false = outOther.length ∧
      ((State.fresh cfg dflt rules []).1.run ops).pageDegree p.flatten .indeg false = inOther.length ∧
      ((State.fresh cfg dflt rules []).1.run ops).pageDegree p.flatten .deg false =
        outAll.length + inOther.length :=
  Traph.C03_degrees_unweighted cfg dflt rules ops hrules hop hwf hok p hp

section EveryHistory
open Traph State Pag Layout
/-! ### every history (Proofs/Discipline, SinceClear, ReachableAll, HeadlinesAll) -/

/-- EVERY HISTORY, `clear` and `reopen` included, no request assumed away: the only hypotheses are that byte strings cut into at least one stem (`OpWf`), rule anchors are whole LRUs (`rulesCanonical`, `Canon`) and the caller re-supplies on `reopen` the rules the index carries, as the API requires (`Disciplined`); `clear` acts as a reset (`sinceClear`).  -/
theorem C03_history_all (cfg : Config) (dflt : Rule) (rules : List (Bytes × Rule)) (ops : List Op)
    (hr : rulesCanonical rules) (hwf : ∀ op ∈ sinceClear ops, OpWf op)
    (hd : Disciplined (State.fresh cfg dflt rules []).1 ops) :
    (∀ p q, Submitted (sinceClear ops) p → Submitted (sinceClear ops) q → q ≠ p → ∀ n,
      ((p.flatten, q.flatten, n) ∈ ((State.fresh cfg dflt rules []).1.run ops).pageLinks p.flatten false false true ↔
        (0 < n ∧ n = nsub ((sinceClear ops).flatMap Op.links) p q)) ∧
      ((p.flatten, q.flatten, n) ∈ ((State.fresh cfg dflt rules []).1.run ops).pageLinks q.flatten true false false ↔
        (0 < n ∧ n = nsub ((sinceClear ops).flatMap Op.links) p q))) ∧
    (∀ p, Submitted (sinceClear ops) p → ∀ incIn incOut n,
      ((p.flatten, p.flatten, n) ∈ ((State.fresh cfg dflt rules []).1.run ops).pageLinks p.flatten incIn true incOut ↔
        (0 < n ∧ n = nsub ((sinceClear ops).flatMap Op.links) p p)) ∧
      (p.flatten, p.flatten, n) ∉ ((State.fresh cfg dflt rules []).1.run ops).pageLinks p.flatten incIn false incOut) ∧
    (∀ p, Submitted (sinceClear ops) p → ∀ incIn incInt incOut,
      (((State.fresh cfg dflt rules []).1.run ops).pageLinks p.flatten incIn incInt incOut).Nodup) :=
  Traph.C03_history_all cfg dflt rules ops hr hwf hd

/-- the same for the next clause of the property -/
theorem C03_totals_all (cfg : Config) (dflt : Rule) (rules : List (Bytes × Rule)) (ops : List Op)
    (hr : rulesCanonical rules) (hwf : ∀ op ∈ sinceClear ops, OpWf op)
    (hd : Disciplined (State.fresh cfg dflt rules []).1 ops) :
    ((State.fresh cfg dflt rules []).1.run ops).countLinks2 = 2 * ((sinceClear ops).flatMap Op.links).length ∧
    (∀ x y, (x, y) ∈ ((State.fresh cfg dflt rules []).1.run ops).linksIter true ↔
      (y, x) ∈ ((State.fresh cfg dflt rules []).1.run ops).linksIter false) ∧
    (∀ x y, (x, y) ∈ ((State.fresh cfg dflt rules []).1.run ops).linksIter true ↔
      ∃ st ∈ (sinceClear ops).flatMap Op.links, x = (lruIter st.1).flatten ∧ y = (lruIter st.2).flatten) ∧
    (∀ p, Submitted (sinceClear ops) p →
      ((State.fresh cfg dflt rules []).1.run ops).pageDegree p.flatten .outdeg true =
        (((sinceClear ops).flatMap Op.links).filter (fun st => decide (lruIter st.1 = p ∧ lruIter st.2 ≠ p))).length ∧
      ((State.fresh cfg dflt rules []).1.run ops).pageDegree p.flatten .indeg true =
        (((sinceClear ops).flatMap Op.links).filter (fun st => decide (lruIter st.2 = p ∧ lruIter st.1 ≠ p))).length ∧
      ((State.fresh cfg dflt rules []).1.run ops).pageDegree p.flatten .deg true =
        (((sinceClear ops).flatMap Op.links).filter (fun st => decide (lruIter st.1 = p))).length +
        (((sinceClear ops).flatMap Op.links).filter (fun st => decide (lruIter st.2 = p ∧ lruIter st.1 ≠ p))).length) :=
  Traph.C03_totals_all cfg dflt rules ops hr hwf hd

/-- the same for the next clause of the property -/
theorem C03_symmetry_all (cfg : Config) (dflt : Rule) (rules : List (Bytes × Rule)) (ops : List Op)
    (hr : rulesCanonical rules) (hwf : ∀ op ∈ sinceClear ops, OpWf op)
    (hd : Disciplined (State.fresh cfg dflt rules []).1 ops) (a b : Nat) :
    LinksOk ((State.fresh cfg dflt rules []).1.run ops) ∧
    count b (((State.fresh cfg dflt rules []).1.run ops).outBag a) =
      count a (((State.fresh cfg dflt rules []).1.run ops).inBag b) :=
  Traph.C03_symmetry_all cfg dflt rules ops hr hwf hd a b

end EveryHistory

end Traph.Props

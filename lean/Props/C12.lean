import Proofs.Ids
/-! C12 — webentity ids are fresh, increasing and survive restarts. Invariant: the header counter is
    the last id issued; every function that does not allocate leaves it alone; one allocation bumps it
    by one and reports exactly that value. -/
namespace Traph.Props
open Traph State

/-- every id reported by a request is strictly greater than the counter before the request — which
    bounds every id issued earlier, deleted or not — and at most the counter after it; ids reported by
    one request are pairwise distinct and increasing -/
theorem C12_fresh (s : State) (op : Op) (hop : ∀ d rs, op ≠ .clear d rs) :
    s.hdrId ≤ (s.step op).1.hdrId ∧
    ∀ r, (s.step op).2 = .report r → IdsBetween s.hdrId (s.step op).1.hdrId r.ids := step_ids s op hop

/-- along any history (creations, deletions, automatic creations, rule installations, close/reopen
    cycles) since creation or the last clear, the ids issued form a strictly increasing list -/
theorem C12_history (s : State) (ops : List Op) (hops : ∀ op ∈ ops, ∀ d rs, op ≠ .clear d rs) :
    (issued s ops).Pairwise (· < ·) ∧ ∀ i ∈ issued s ops, s.hdrId < i ∧ i ≤ (s.run ops).hdrId := run_ids s ops hops

/-- close/reopen does not touch the counter (it lives in the encoded header: C11) -/
theorem C12_reopen (s : State) (d : Rule) (rs : List (Bytes × Rule)) : (s.reopen d rs).hdrId = s.hdrId :=
  reopen_keeps_counter s d rs

/-- deleting a webentity does not give its id back -/
theorem C12_delete (s : State) (w : Nat) (ps : List Bytes) : (s.deleteWebentity w ps).1.hdrId = s.hdrId :=
  hdrId_deleteWebentity s w ps

/-- clear starts the numbering again, as a fresh index does -/
theorem C12_clear (s : State) (d : Option Rule) : (s.clear d none).1.hdrId = 0 := (clear_resets s d).1

/-- one creation request yields one id, shared by all the prefixes it attaches -/
theorem C12_one_id (s s' : State) (ps : List Bytes) (r : Report) (h : s.createWebentity ps = (s', .ok r)) :
    r.we.length = 1 := one_id_per_request s s' ps r h

end Traph.Props

import Traph
/-! C14 — queries never modify the index. In the model every read-only request is a *function of the
    state* (`State.ask : State → Query → Ans`), so the frame property holds by construction; the content
    of the check is the tie: the harness compares both store images (and the storage write log) before
    and after every read on the real code. -/
namespace Traph.Props
open Traph State

/-- a read-only request leaves the state — both stores, header, RAM rules — exactly as it was,
    whatever it answers (a value or an error) -/
theorem C14_frame (s : State) (q : Query) : (s.handle (.read q)).1 = s := rfl

/-- in particular both byte images are unchanged -/
theorem C14_images (s : State) (q : Query) :
    encodeTrie (s.handle (.read q)).1 = encodeTrie s ∧ encodeLinks (s.handle (.read q)).1 = encodeLinks s :=
  ⟨rfl, rfl⟩

/-- the answer of a query does not depend on the ghost write log -/
theorem C14_errors_too (s : State) (q : Query) (e : Err) (_ : s.ask q = .err e) : (s.handle (.read q)).1 = s := rfl

/-- non-vacuity: a query that fails with the library's own error on a non-trivial state -/
example : (({} : State).ask (.retrieveWebentity [115, 58, 124])) = .err .traph := by decide

end Traph.Props

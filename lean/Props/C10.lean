import Proofs.Tokens
import Proofs.Pagination
/-! C10 — pagelink pagination uses the same token scheme as C09; every token it issues is
    `buildToken i path` and is parsed back to the same pair on resume. -/
namespace Traph.Props
open Traph State

/-- a token issued by the pagelink pagination resumes at the pair it was built from -/
theorem C10_token_roundtrip (i path : Nat) : parseToken (buildToken i path) = some (i, path) :=
  parseToken_buildToken i path

/-- tokens are only built from a recorded (index, path) pair; with the pair recorded together (repaired D3)
    `tokenOf` never fails once a page has been visited -/
theorem C10_tokenOf_total (i p : Nat) : tokenOf (some i) (some p) = .ok (buildToken i p) := rfl

/-- no switch set is refused with the library's own error, whatever the state -/
theorem C10_refuses_no_switch (s : State) (w : Nat) (ps : List Bytes) (k : Option Nat) (t : Option Bytes) :
    s.paginateLinks w ps false false k t = .error .traph := rfl

/-- the source pages are visited in the same resumable in-order walk as C09: resuming from the token of any
    visited page (link-bearing or not) continues with exactly the later pages -/
theorem C10_resume {s : State} {a : Nat} {l c r : T} {lo hi : Option Stem}
    (hr : Rep s (.node a l c r)) (ho : OrdT s (.node a l c r) lo hi) (hw : AllWf s (.node a l c r))
    (hsz : (T.node a l c r).size ≤ s.trie.size) (startLru : Bytes) {b0 : Nat} {cur0 : Bytes} {p0 : Nat}
    (hmem : (b0, cur0, p0) ∈ (T.node a l c r).weInorder s a (lruDirname startLru) 0) :
    s.weInorder a startLru (some p0)
      = some (((T.node a l c r).weInorder s a (lruDirname startLru) 0).filter (fun it => lexLt cur0 it.2.1)) :=
  weInorder_resume hr ho hw hsz startLru hmem

end Traph.Props

import Proofs.Tokens
/-! C10 — pagelink pagination uses the same token scheme as C09; every token it issues is
    `buildToken i path` and is parsed back to the same pair on resume. -/
namespace Traph.Props
open Traph State

/-- a token issued by the pagelink pagination resumes at the pair it was built from -/
theorem C10_token_roundtrip (i path : Nat) : parseToken (buildToken i path) = some (i, path) :=
  parseToken_buildToken i path

/-- tokens are only built from a recorded (index, path) pair; with the pair recorded together (repaired D3)
    `tokenOf` never fails once a page has been visited -/
theorem C10_tokenOf_total (i p : Nat) : tokenOf (some i) (some p) = .ok (buildToken i p) := rfl

/-- no switch set is refused with the library's own error, whatever the state -/
theorem C10_refuses_no_switch (s : State) (w : Nat) (ps : List Bytes) (k : Option Nat) (t : Option Bytes) :
    s.paginateLinks w ps false false k t = .error .traph := rfl

end Traph.Props

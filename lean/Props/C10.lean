import Proofs.Tokens
import Proofs.Pagination
import Proofs.PagLinksApi
import Proofs.PagLater
import Proofs.HeadlinesAll
/-! C10 — pagelink pagination uses the same token scheme as C09; every token it issues is
    `buildToken i path` and is parsed back to the same pair on resume. -/
namespace Traph.Props
open Traph State

/-- a token issued by the pagelink pagination resumes at the pair it was built from -/
theorem C10_token_roundtrip (i path : Nat) : parseToken (buildToken i path) = some (i, path) :=
  parseToken_buildToken i path

/-- tokens are only built from a recorded (index, path) pair; with the pair recorded together (repaired D3)
    `tokenOf` never fails once a page has been visited -/
theorem C10_tokenOf_total (i p : Nat) : tokenOf (some i) (some p) = .ok (buildToken i p) := rfl

/-- no switch set is refused with the library's own error, whatever the state -/
theorem C10_refuses_no_switch (s : State) (w : Nat) (ps : List Bytes) (k : Option Nat) (t : Option Bytes) :
    s.paginateLinks w ps false false k t = .error .traph := rfl

/-- the source pages are visited in the same resumable in-order walk as C09: resuming from the token of any
    visited page (link-bearing or not) continues with exactly the later pages -/
theorem C10_resume {s : State} {a : Nat} {l c r : T} {lo hi : Option Stem}
    (hr : Rep s (.node a l c r)) (ho : OrdT s (.node a l c r) lo hi) (hw : AllWf s (.node a l c r))
    (hsz : (T.node a l c r).size ≤ s.trie.size) (startLru : Bytes) {b0 : Nat} {cur0 : Bytes} {p0 : Nat}
    (hmem : (b0, cur0, p0) ∈ (T.node a l c r).weInorder s a (lruDirname startLru) 0) :
    s.weInorder a startLru (some p0)
      = some (((T.node a l c r).weInorder s a (lruDirname startLru) 0).filter (fun it => lexLt cur0 it.2.1)) :=
  weInorder_resume hr ho hw hsz startLru hmem

section Episodes
open Traph State Pag
/-! ### the request itself: whole episodes, every reachable state (Proofs/PagGeneric, PagWalk, PagLinksApi, PagLater) -/

/-- THE PROPERTY: in every reachable state, for every webentity / prefix list / switch setting and every count ≥ 1, feeding each token back yields an episode whose link chunks concatenate to a rearrangement of the unpaginated answer (each link once with its weight), every non-final answer covers exactly `count` link-bearing source pages and carries a token, the final one says done; the episode is found by the executable iteration within (#sources / count) + 1 calls; and resumption from the token of ANY item of the walk (a page without links, a node of a later prefix: the D3 case) continues with exactly the links of the later items -/
theorem C10_episode (cfg : Config) (dflt : Rule) (rules : List (Bytes × Rule)) (ops : List Op)
    (hrules : ∀ ar ∈ rules, lruIter ar.1 ≠ [])
    (hop : ∀ op ∈ ops, ∀ d rs, op ≠ .clear d rs) (hwf : ∀ op ∈ ops, OpWf op)
    (hok : NoKeyErr (State.fresh cfg dflt rules []).1 ops)
    (s : State) (hs : s = (State.fresh cfg dflt rules []).1.run ops)
    (weid : Nat) (ps : List Bytes) (incInt incOut : Bool) (all : List PageLink)
    (hall : s.webentityPagelinks weid ps false incInt incOut = .ok all) (count : Nat) (hc : 1 ≤ count) :
    (∃ (chunks : List LinkChunk) (groups : List (List GX)),
      LinkEpisode s weid ps incInt incOut count none chunks ∧
      episodeLinks s weid ps incInt incOut count
        ((linkSources s weid ps incInt incOut).length / count + 1) none = some chunks ∧
      (chunks.flatMap (·.links)).Perm all ∧
      groups.flatten = linkSources s weid ps incInt incOut ∧
      Forall2 (fun (ch : LinkChunk) grp =>
          ch.links = grp.flatMap (fun x => s.outLinksOfPage weid x.2.1 x.2.2.1 incInt incOut) ∧
          ch.sourcePages = grp.length) chunks groups ∧
      (∀ grp ∈ groups.dropLast, grp.length = count) ∧
      (∀ ch ∈ chunks.dropLast, ch.done = false ∧ ch.sourcePages = count ∧ ch.token.isSome = true) ∧
      (∃ l, chunks.getLast? = some l ∧ l.done = true ∧ l.token = none ∧ l.sourcePages ≤ count)) ∧
    (∀ pre x post, gItems s (enumFrom 0 ps) = pre ++ x :: post → ∀ count', 1 ≤ count' →
      ∃ chunks, LinkEpisode s weid ps incInt incOut count' (some (buildToken x.1 x.2.2.2)) chunks ∧
        chunks.flatMap (·.links) = post.flatMap (fun y => srcLinks s weid incInt incOut (y.2.1, y.2.2.1))) :=
  Traph.C10_reachable cfg dflt rules ops hrules hop hwf hok s hs weid ps incInt incOut all hall count hc

/-- every token the request issues is the token of an item of the walk (so it can be resumed, by the theorem above, with any count) -/
theorem C10_issued_tokens {s : State} {t : T} (h : Shape s t) (hi : Inv s t) {weid : Nat} {ps : List Bytes}
    {incInt incOut : Bool} {all : List PageLink}
    (hall : s.webentityPagelinks weid ps false incInt incOut = .ok all) (count : Nat) (hc : 1 ≤ count)
    {chunks : List LinkChunk} (hep : LinkEpisode s weid ps incInt incOut count none chunks)
    {ch : LinkChunk} (hch : ch ∈ chunks) {tk : Bytes} (htk : ch.token = some tk) :
    ∃ pre x post, gItems s (enumFrom 0 ps) = pre ++ x :: post ∧ (s.cell x.2.1).flags.page = true ∧
      tk = buildToken x.1 x.2.2.2 :=
  Traph.C10_issued_tokens h hi hall count hc hep hch htk

/-- a token issued before, fed back after any `clear`-free history of writes, still resumes: exactly the links of the current items sorting after its page, then the later prefixes -/
theorem C10_resume_after_run {s : State} {t : T} (h : Shape s t) (hi : Inv s t) (hlive : Live s)
    (ops : List Op) (hop : ∀ op ∈ ops, ∀ d rs, op ≠ .clear d rs) (hwf : ∀ op ∈ ops, OpWf op)
    (hok : NoKeyErr s ops) {weid : Nat} {ps : List Bytes} {incInt incOut : Bool} {all : List PageLink}
    (hall : s.webentityPagelinks weid ps false incInt incOut = .ok all) (count : Nat) (hc : 1 ≤ count)
    (pre : List GX) (x : GX) (post : List GX) (hG : gItems s (enumFrom 0 ps) = pre ++ x :: post) :
    ∃ p tl chunks, ps.drop x.1 = p :: tl ∧
      LinkEpisode (s.run ops) weid ps incInt incOut count (some (buildToken x.1 x.2.2.2)) chunks ∧
      chunks.flatMap (·.links)
        = ((walkOf (s.run ops) p).filter (fun y => lexLt x.2.2.1 y.2.1)).flatMap
            (fun it => srcLinks (s.run ops) weid incInt incOut (it.1, it.2.1))
          ++ tl.flatMap (fun q => (walkOf (s.run ops) q).flatMap
              (fun it => srcLinks (s.run ops) weid incInt incOut (it.1, it.2.1))) ∧
      (∀ ch ∈ chunks.dropLast, ch.sourcePages = count) :=
  Traph.C10_resume_after_run h hi hlive ops hop hwf hok hall count hc pre x post hG

end Episodes

section EveryHistory
open Traph State Pag Layout
/-! ### every history (Proofs/Discipline, SinceClear, ReachableAll, HeadlinesAll) -/

/-- EVERY HISTORY, `clear` and `reopen` included, no request assumed away: the only hypotheses are that byte strings cut into at least one stem (`OpWf`), rule anchors are whole LRUs (`rulesCanonical`, `Canon`) and the caller re-supplies on `reopen` the rules the index carries, as the API requires (`Disciplined`); `clear` acts as a reset (`sinceClear`).  -/
theorem C10_all {s : State} (hs : Reachable s)
    (weid : Nat) (ps : List Bytes) (incInt incOut : Bool) (all : List PageLink)
    (hall : s.webentityPagelinks weid ps false incInt incOut = .ok all) (count : Nat) (hc : 1 ≤ count) :
    (∃ (chunks : List LinkChunk) (groups : List (List GX)),
      LinkEpisode s weid ps incInt incOut count none chunks ∧
      episodeLinks s weid ps incInt incOut count
        ((linkSources s weid ps incInt incOut).length / count + 1) none = some chunks ∧
      (chunks.flatMap (·.links)).Perm all ∧
      groups.flatten = linkSources s weid ps incInt incOut ∧
      Forall2 (fun (ch : LinkChunk) grp =>
          ch.links = grp.flatMap (fun x => s.outLinksOfPage weid x.2.1 x.2.2.1 incInt incOut) ∧
          ch.sourcePages = grp.length) chunks groups ∧
      (∀ grp ∈ groups.dropLast, grp.length = count) ∧
      (∀ ch ∈ chunks.dropLast, ch.done = false ∧ ch.sourcePages = count ∧ ch.token.isSome = true) ∧
      (∃ l, chunks.getLast? = some l ∧ l.done = true ∧ l.token = none ∧ l.sourcePages ≤ count)) ∧
    (∀ pre x post, gItems s (enumFrom 0 ps) = pre ++ x :: post → ∀ count', 1 ≤ count' →
      ∃ chunks, LinkEpisode s weid ps incInt incOut count' (some (buildToken x.1 x.2.2.2)) chunks ∧
        chunks.flatMap (·.links) = post.flatMap (fun y => srcLinks s weid incInt incOut (y.2.1, y.2.2.1))) :=
  Traph.C10_all hs weid ps incInt incOut all hall count hc

end EveryHistory

end Traph.Props

import Proofs.Trace
import Proofs.PtrOkTrace
import Proofs.ClearCrashMid
import Proofs.HeadlinesAll
/-! C18 — a torn or truncated write history is refused or opens consistent. The model keeps the
    program-ordered write log; `cutOpen` rebuilds both stores from any prefix of it (plus some bytes of a
    torn append) and applies the open-time checks. Proved so far: exactly the torn appends are refused,
    with the library's own error; in-place rewrites cannot be torn; a cut on a write boundary always
    opens. `C18_subset`: every cut of the write log of every history replays to files below the completed history
    in the heap order (per single write: Proofs/Trace*), hence reports only pages and links the completed
    history reports. `C18_safe`, `C18_safe_walks`: every cut state that opens satisfies the pointer
    invariant `PtrOk` (every stored pointer, in every block, reachable or not, points inside the complete
    part of its file; the only incomplete node is the one being written and nothing points to it), hence
    the strict twins of all walks (every read bounds-checked, a miss = failure) return exactly what the
    model's walks return: no traversal or query reads outside the files (Proofs/PtrOk*). Crash points
    inside `clear` (its two truncations) are events of their own: Traph/Crash.lean `Event`, tied by the
    crash-cut harness; `C18_events_cut`, `C18_mid_clear`, `C18_clear_order_matters` (Proofs/ClearCrash*). -/
namespace Traph.Props
open Traph

/-- a partial block is refused with the library's own error -/
theorem C18_refuse (ram : State) (f : Files) (j : Nat) (hj : j ≠ 0) : openCut ram f j = .error .traph := by
  simp [openCut, hj]

/-- a cut on a write boundary opens -/
theorem C18_boundary_opens (ram : State) (full : List Write) (k : Nat) : ∃ s, cutOpen ram full k 0 = .ok s := by
  unfold cutOpen openCut
  cases full[k]? with
  | none => simp
  | some w => by_cases h : w.isAppend (replay (full.take k)) = true <;> simp [h]

/-- in-place block rewrites are atomic: a byte offset into one changes nothing -/
theorem C18_rewrite_atomic (ram : State) (full : List Write) (k j : Nat) (w : Write) (hw : full[k]? = some w)
    (hn : w.isAppend (replay (full.take k)) = false) : cutOpen ram full k j = cutOpen ram full k 0 := by
  simp [cutOpen, hw, hn]

/-- the reopened stores are exactly the replayed prefix of the log (nothing else is read or invented);
    an empty store gets a fresh header -/
theorem C18_opens_prefix (ram : State) (full : List Write) (k : Nat) (s : State) (h : cutOpen ram full k 0 = .ok s)
    (ht : 0 < (replay (full.take k)).trie.size) (hl : 0 < (replay (full.take k)).links.size) :
    s.trie = (replay (full.take k)).trie ∧ s.links = (replay (full.take k)).links ∧ s.hdrId = (replay (full.take k)).hdrId := by
  unfold cutOpen openCut at h
  have h1 : ¬ (replay (full.take k)).trie.size = 0 := by omega
  have h2 : ¬ (replay (full.take k)).links.size = 0 := by omega
  cases hk : full[k]? with
  | none => simp [hk, h1, h2] at h; subst h; simp
  | some w =>
    by_cases hw : w.isAppend (replay (full.take k)) = true
    · simp [hk, hw, h1, h2] at h; subst h; simp
    · simp [hk, hw, h1, h2] at h; subst h; simp

/-- SUBSET, FOR EVERY CUT OF EVERY HISTORY: take any history of write requests on a fresh index (any
    constructor rules) and cut its program-ordered write sequence after any number `k` of writes —
    including inside the constructor, between the two header writes, between a node's head block and
    its tail blocks, between a pointee and the pointer to it, between out-list and in-list. The rebuilt
    files are below the completed history in the heap order: every stored block is the same block with
    at most more flags set and more pointers filled in, every stub is the same stub. -/
theorem C18_subset (cfg : Config) (dflt : Rule) (rules : List (Bytes × Rule)) (ops : List Op)
    (hop : ∀ op ∈ ops, ∀ d rs, op ≠ .clear d rs) :
    let sf := (State.fresh cfg dflt rules []).1.run ops
    ∀ k, k ≤ sf.log.length → Files.Le (replay ((sf.log.reverse).take k)) sf.files :=
  C18_fresh_cut_le cfg dflt rules ops hop

/-- hence the cut reports only pages and links the completed history also reports: a block flagged as a
    page in the cut is a page block of the final state with the same stem bytes and parent pointer
    (so the same LRU), and every link stub of the cut is a stub of the final state -/
theorem C18_reports_subset (cfg : Config) (dflt : Rule) (rules : List (Bytes × Rule)) (ops : List Op)
    (hop : ∀ op ∈ ops, ∀ d rs, op ≠ .clear d rs) (k : Nat) :
    let sf := (State.fresh cfg dflt rules []).1.run ops
    let cut := replay ((sf.log.reverse).take k)
    k ≤ sf.log.length →
    (∀ (i : Nat) (c : Cell), cut.trie[i]? = some c → c.flags.page = true →
        i < sf.trie.size ∧ (sf.cell i).flags.page = true ∧ (sf.cell i).chunk = c.chunk ∧
        (sf.cell i).parent = c.parent) ∧
    (∀ (i : Nat) (b : Stub), cut.links[i]? = some b → sf.links[i]? = some b) :=
  C18_fresh_reports cfg dflt rules ops hop k

/-- the model's own reopen of a boundary cut succeeds and yields a state below the completed history -/
theorem C18_cut_opens_below (s0 : State) (hg : GoodLog s0) (hl : Live s0) (ops : List Op)
    (hop : ∀ op ∈ ops, ∀ d rs, op ≠ .clear d rs) (ram : State) :
    let sf := s0.run ops
    ∀ k, k ≤ sf.log.length - s0.log.length →
      ∃ st, cutOpen ram sf.log.reverse (s0.log.length + k) 0 = .ok st ∧ st ⊑ sf :=
  C18_cutOpen_le s0 hg hl ops hop ram

/-- the ghost log is faithful: replaying the whole log of any history gives exactly the two stores -/
theorem C18_log_faithful (cfg : Config) (dflt : Rule) (rules : List (Bytes × Rule)) : GoodLog (State.fresh cfg dflt rules []).1 :=
  goodLog_fresh cfg dflt rules

example : (cutOpen {} [.hdr 0, .linkHdr, .trieAppend {}] 2 5) = .error .traph := by simp [cutOpen, openCut, replay, Files.apply, Write.isAppend]

/-! ### "can be traversed and queried without failure" (Proofs/PtrOk*) -/

/-- SAFETY, FOR EVERY CUT OF EVERY HISTORY (block and byte granularity): the cut is refused with the library's own error or opens to a state that satisfies the pointer invariant and is below the completed history. `Op.WF`: link requests name LRUs with at least one stem -/
theorem C18_safe (cfg : Config) (dflt : Rule) (rules : List (Bytes × Rule)) (ops : List Op)
    (hop : ∀ op ∈ ops, ∀ d rs, op ≠ .clear d rs) (hwf : ∀ op ∈ ops, op.WF) (ram : State) :
    let sf := (State.fresh cfg dflt rules []).1.run ops
    ∀ k j, k ≤ sf.log.length →
      cutOpen ram sf.log.reverse k j = .error .traph ∨
      ∃ st, cutOpen ram sf.log.reverse k j = .ok st ∧ PtrOk st ∧ st ⊑ sf :=
  Traph.C18_safe cfg dflt rules ops hop hwf ram

/-- …and in that state every walk used by the queries (descent, wind-up, the three traversals, in-order pagination, link-list walks, the linear scans) reads only existing blocks: its bounds-checked twin succeeds with the same result -/
theorem C18_safe_walks (cfg : Config) (dflt : Rule) (rules : List (Bytes × Rule)) (ops : List Op)
    (hop : ∀ op ∈ ops, ∀ d rs, op ≠ .clear d rs) (hwf : ∀ op ∈ ops, op.WF) (ram : State) :
    let sf := (State.fresh cfg dflt rules []).1.run ops
    ∀ k j, k ≤ sf.log.length →
      cutOpen ram sf.log.reverse k j = .error .traph ∨
      ∃ st d, cutOpen ram sf.log.reverse k j = .ok st ∧ PtrOkAt st d ∧ WalksSafe st d ∧ st ⊑ sf :=
  Traph.C18_safe_walks cfg dflt rules ops hop hwf ram

/-- at every request boundary the whole file is complete (no dangling node) -/
theorem C18_whole_run (cfg : Config) (dflt : Rule) (rules : List (Bytes × Rule)) (ops : List Op)
    (hop : ∀ op ∈ ops, ∀ d rs, op ≠ .clear d rs) (hwf : ∀ op ∈ ops, op.WF) :
    Whole ((State.fresh cfg dflt rules []).1.run ops) :=
  Traph.C18_whole_run cfg dflt rules ops hop hwf

section ClearCuts
open Traph State
/-! ### histories with `clear`: its two truncations are crash points (Traph/Crash.lean `Event`; Proofs/LogIndep, ClearCrash, ClearCrashMid) -/

/-- EVERY CUT OF EVERY HISTORY, `clear` allowed anywhere and any number of times: the event list is what the driver (and, by the tie, the real code) issues; a cut is refused iff it tears an append; otherwise it opens to a state below the completed state of its own segment (and of every later point up to the next `clear`), or to the one special state in the middle of a `clear` (trie emptied, link file still old) -/
theorem C18_events_cut (cfg : Config) (dflt : Rule) (rules : List (Bytes × Rule)) (ops : List Op)
    (ram : State) (k j : Nat) (hk : k ≤ (historyEvents cfg dflt rules ops).length) :
    let full := historyEvents cfg dflt rules ops
    let fr := (State.fresh cfg dflt rules []).1
    let off := fun n => (historyEvents cfg dflt rules (ops.take n)).length
    (cutOpenE ram full k j = .error .traph ↔ Torn full k j) ∧
    (¬ Torn full k j → ∃ st, cutOpenE ram full k j = .ok st ∧
      ((∃ n, n ≤ ops.length ∧ k ≤ off n ∧ (n = 0 ∨ off (n - 1) < k) ∧ st ⊑ fr.run (ops.take n) ∧
          ∀ n', n ≤ n' → (∀ i op, n ≤ i → i < n' → ops[i]? = some op → op.isClear = false) →
            st ⊑ fr.run (ops.take n')) ∨
       (∃ n d rs, ops[n]? = some (.clear d rs) ∧ k = off n + 1 ∧
          st = ram.midClearOpen (fr.run (ops.take n))))) :=
  Traph.C18_events_cut cfg dflt rules ops ram k j hk

/-- the mid-clear state answers every query like an empty index — no page, no link, no prefix, nothing resolves, no stub is ever read — except that `count_links`, computed from the size of the link file, still shows the old count -/
theorem C18_mid_clear (ram a : State) :
    let st := ram.midClearOpen a
    st.pagesIter = [] ∧ (∀ o, st.linksIter o = []) ∧ st.prefixIter = [] ∧ (∀ b, st.dfsIter none b = []) ∧
    (∀ o au, st.network o au = [] ∧ st.networkSlow o au = []) ∧
    st.countPages = 0 ∧ st.countCrawledPages = 0 ∧ st.countLinks2 = a.links.size - 1 ∧
    st.linksMetrics = (0, none, 0, none) ∧
    (∀ l, st.retrieveWebentity l = .error .traph) ∧ (∀ l, st.retrievePrefix l = .error .traph) ∧
    (∀ p, st.webentityByPrefix p = .error .traph) ∧
    (∀ ps, st.webentityPages ps = if ps = [] then .ok [] else .error .traph) ∧
    (∀ l i n o, st.pageLinks l i n o = []) ∧ (∀ l, st.lruNode l = none) :=
  Traph.midClear_observers ram a

/-- the order of the two truncations matters: with the link file emptied first, the intermediate state keeps page
    blocks whose list heads point outside the (now empty) link file — where the real code raises on every link query -/
theorem C18_clear_order_matters : ∃ st, swapDemoCut = .ok st ∧ (st.cell 1).flags.page = true ∧ (st.cell 1).out = 1 ∧
    st.links.size = 1 ∧ (st.cell 2).flags.page = true ∧ (st.cell 2).inn = 2 ∧ ¬ LinksOk st := swapped_order_breaks

end ClearCuts

section EveryHistory
open Traph State Pag Layout
/-! ### every history (Proofs/Discipline, SinceClear, ReachableAll, HeadlinesAll) -/

/-- EVERY HISTORY, `clear` and `reopen` included, no request assumed away: the only hypotheses are that byte strings cut into at least one stem (`OpWf`), rule anchors are whole LRUs (`rulesCanonical`, `Canon`) and the caller re-supplies on `reopen` the rules the index carries, as the API requires (`Disciplined`); `clear` acts as a reset (`sinceClear`).  -/
theorem C18_walks_all {s : State} (hs : Reachable s) : Whole s ∧ WalksSafe s s.trie.size :=
  Traph.C18_walks_all hs

end EveryHistory

end Traph.Props

import Traph
/-! C18 — a torn or truncated write history is refused or opens consistent. The model keeps the
    program-ordered write log; `cutOpen` rebuilds both stores from any prefix of it (plus some bytes of a
    torn append) and applies the open-time checks. Proved so far: exactly the torn appends are refused,
    with the library's own error; in-place rewrites cannot be torn; a cut on a write boundary always
    opens. (`C18_subset` — the cut state is below the final state in the heap order, hence reports only
    pages and links the completed history reports — follows from the per-write monotonicity that
    Proofs/LeOps establishes per request and is being lifted to single writes; see DESIGN §7 C18.) -/
namespace Traph.Props
open Traph

/-- a partial block is refused with the library's own error -/
theorem C18_refuse (ram : State) (f : Files) (j : Nat) (hj : j ≠ 0) : openCut ram f j = .error .traph := by
  simp [openCut, hj]

/-- a cut on a write boundary opens -/
theorem C18_boundary_opens (ram : State) (full : List Write) (k : Nat) : ∃ s, cutOpen ram full k 0 = .ok s := by
  unfold cutOpen openCut
  cases full[k]? with
  | none => simp
  | some w => by_cases h : w.isAppend (replay (full.take k)) = true <;> simp [h]

/-- in-place block rewrites are atomic: a byte offset into one changes nothing -/
theorem C18_rewrite_atomic (ram : State) (full : List Write) (k j : Nat) (w : Write) (hw : full[k]? = some w)
    (hn : w.isAppend (replay (full.take k)) = false) : cutOpen ram full k j = cutOpen ram full k 0 := by
  simp [cutOpen, hw, hn]

/-- the reopened stores are exactly the replayed prefix of the log (nothing else is read or invented);
    an empty store gets a fresh header -/
theorem C18_opens_prefix (ram : State) (full : List Write) (k : Nat) (s : State) (h : cutOpen ram full k 0 = .ok s)
    (ht : 0 < (replay (full.take k)).trie.size) (hl : 0 < (replay (full.take k)).links.size) :
    s.trie = (replay (full.take k)).trie ∧ s.links = (replay (full.take k)).links ∧ s.hdrId = (replay (full.take k)).hdrId := by
  unfold cutOpen openCut at h
  have h1 : ¬ (replay (full.take k)).trie.size = 0 := by omega
  have h2 : ¬ (replay (full.take k)).links.size = 0 := by omega
  cases hk : full[k]? with
  | none => simp [hk, h1, h2] at h; subst h; simp
  | some w =>
    by_cases hw : w.isAppend (replay (full.take k)) = true
    · simp [hk, hw, h1, h2] at h; subst h; simp
    · simp [hk, hw, h1, h2] at h; subst h; simp

example : (cutOpen {} [.hdr 0, .linkHdr, .trieAppend {}] 2 5) = .error .traph := by simp [cutOpen, openCut, replay, Files.apply, Write.isAppend]

end Traph.Props

import Proofs.Small
/-! C07 — webentity network. Proved so far about the aggregation itself: adding a page link of weight `w`
    to a row adds exactly `w` to that row's total and keeps one entry per target webentity. That the id
    carried down by `dfs_with_webentity_iter` is the page's resolution is under construction
    (Proofs/Shape*). -/
namespace Traph.Props
open Traph State

theorem C07_counter_total (d : List (Nat × Nat)) (k w : Nat) :
    ((counterAdd d k w).map (·.2)).sum = (d.map (·.2)).sum + w := counterAdd_total d k w

theorem C07_one_entry_per_target (d : List (Nat × Nat)) (k w : Nat) (h : (d.map (·.1)).Nodup) :
    ((counterAdd d k w).map (·.1)).Nodup := counterAdd_keys_nodup d k w h

end Traph.Props

import Proofs.Small
import Proofs.Resolve
/-! C07 — webentity network. Proved so far about the aggregation itself: adding a page link of weight `w`
    to a row adds exactly `w` to that row's total and keeps one entry per target webentity. That the id
    carried down by `dfs_with_webentity_iter` is the page's resolution is under construction
    (Proofs/Shape*). -/
namespace Traph.Props
open Traph State

theorem C07_counter_total (d : List (Nat × Nat)) (k w : Nat) :
    ((counterAdd d k w).map (·.2)).sum = (d.map (·.2)).sum + w := counterAdd_total d k w

theorem C07_one_entry_per_target (d : List (Nat × Nat)) (k w : Nat) (h : (d.map (·.1)).Nodup) :
    ((counterAdd d k w).map (·.1)).Nodup := counterAdd_keys_nodup d k w h

/-- the id carried down by `dfs_with_webentity_iter` to a block IS the resolution of that block's LRU
    (what `retrieve_webentity` answers), for every block of the index -/
theorem C07_carried_is_resolution {s : State} {t : T} (h : Shape s t) (stems : LRU) (hne : stems ≠ []) (b : Nat)
    (hb : (stems, b) ∈ t.entries s []) : ∃ w, (b, w) ∈ s.dfsWe ∧ w = (s.followLru stems).2.we :=
  Traph.C07_carried_is_resolution h stems hne b hb

/-- each block is met once, with one id -/
theorem C07_carried_unique {s : State} {t : T} (h : Shape s t) {b w₁ w₂ : Nat}
    (h₁ : (b, w₁) ∈ s.dfsWe) (h₂ : (b, w₂) ∈ s.dfsWe) : w₁ = w₂ := Traph.C07_carried_unique h h₁ h₂

/-- and nothing else is met: every (block, id) pair of the traversal is a block of the map with its resolution -/
theorem C07_carried_sound {s : State} {t : T} (h : Shape s t) {b w : Nat} (hm : (b, w) ∈ s.dfsWe) :
    ∃ stems, stems ≠ [] ∧ (stems, b) ∈ t.entries s [] ∧ (s.followLru stems).1 = some b ∧ w = (s.followLru stems).2.we :=
  Traph.C07_carried_sound h hm

end Traph.Props

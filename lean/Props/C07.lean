import Proofs.Small
import Proofs.Resolve
import Proofs.NetworkRun
import Proofs.HeadlinesAll
/-! C07 — webentity network, in full (Proofs/Network*.lean): `C07_network` below, for every reachable state,
    both directions, self-links on and off, both variants. The lemmas about the aggregation itself and
    about the carried id being the resolution are kept. -/
namespace Traph.Props
open Traph State

theorem C07_counter_total (d : List (Nat × Nat)) (k w : Nat) :
    ((counterAdd d k w).map (·.2)).sum = (d.map (·.2)).sum + w := counterAdd_total d k w

theorem C07_one_entry_per_target (d : List (Nat × Nat)) (k w : Nat) (h : (d.map (·.1)).Nodup) :
    ((counterAdd d k w).map (·.1)).Nodup := counterAdd_keys_nodup d k w h

/-- the id carried down by `dfs_with_webentity_iter` to a block IS the resolution of that block's LRU
    (what `retrieve_webentity` answers), for every block of the index -/
theorem C07_carried_is_resolution {s : State} {t : T} (h : Shape s t) (stems : LRU) (hne : stems ≠ []) (b : Nat)
    (hb : (stems, b) ∈ t.entries s []) : ∃ w, (b, w) ∈ s.dfsWe ∧ w = (s.followLru stems).2.we :=
  Traph.C07_carried_is_resolution h stems hne b hb

/-- each block is met once, with one id -/
theorem C07_carried_unique {s : State} {t : T} (h : Shape s t) {b w₁ w₂ : Nat}
    (h₁ : (b, w₁) ∈ s.dfsWe) (h₂ : (b, w₂) ∈ s.dfsWe) : w₁ = w₂ := Traph.C07_carried_unique h h₁ h₂

/-- and nothing else is met: every (block, id) pair of the traversal is a block of the map with its resolution -/
theorem C07_carried_sound {s : State} {t : T} (h : Shape s t) {b w : Nat} (hm : (b, w) ∈ s.dfsWe) :
    ∃ stems, stems ≠ [] ∧ (stems, b) ∈ t.entries s [] ∧ (s.followLru stems).1 = some b ∧ w = (s.followLru stems).2.we :=
  Traph.C07_carried_sound h hm

/-- THE PROPERTY, for every reachable state (any history of well-formed writes without `clear` from a
    fresh index, any rules, any configuration), `out` / `auto` arbitrary. `netGet g A B` is `graph[A][B]`
    (0 for a missing row or entry); `specDir L out auto A B` is, for `out = true`, the number of submitted
    links `(p, q) ∈ L` with `retrieve_webentity p = A` and `retrieve_webentity q = B` when `A ≠ 0`,
    `B ≠ 0` and (`auto` or `A ≠ B`), else 0 (`specDir_out`), and for `out = false` the same with the roles
    of `A` and `B` exchanged (`specDir_in`); `weOf` is `retrieve_webentity` with its error read as 0
    (`weOf_spec`); `pageCount c A` counts the pages of `pages_iter` with crawled mark `c` resolving to `A`. -/
theorem C07_network (cfg : Config) (dflt : Rule) (rules : List (Bytes × Rule)) (ops : List Op)
    (hrules : ∀ ar ∈ rules, lruIter ar.1 ≠ [])
    (hop : ∀ op ∈ ops, ∀ d rs, op ≠ .clear d rs) (hwf : ∀ op ∈ ops, OpWf op)
    (hok : NoKeyErr (State.fresh cfg dflt rules []).1 ops)
    (s : State) (hs : s = (State.fresh cfg dflt rules []).1.run ops) (out auto : Bool) :
    NetOk (s.network out auto) ∧ NetOk (s.networkSlow out auto) ∧
    (∀ A B, netGet (s.network out auto) A B = s.specDir (ops.flatMap Op.links) out auto A B) ∧
    (∀ A B, netGet (s.networkSlow out auto) A B = netGet (s.network out auto) A B) ∧
    (∀ A B, netGet (s.network false auto) B A = netGet (s.network true auto) A B) ∧
    (∀ A B, netGet (s.networkSlow false auto) B A = netGet (s.networkSlow true auto) A B) ∧
    (∀ A B w, (∃ r ∈ s.network out auto, r.src = A ∧ (B, w) ∈ r.targets) ↔
      0 < w ∧ w = s.specDir (ops.flatMap Op.links) out auto A B) ∧
    (∀ A B w, (∃ r ∈ s.networkSlow out auto, r.src = A ∧ (B, w) ∈ r.targets) ↔
      0 < w ∧ w = s.specDir (ops.flatMap Op.links) out auto A B) ∧
    (∀ A, A ∈ (s.network out auto).map (·.src) ↔ A ≠ 0 ∧ ∃ lc ∈ s.pagesIter, s.weOf lc.1 = A) ∧
    (∀ A, A ∈ (s.networkSlow out auto).map (·.src) ↔
      ∃ B, 0 < s.specDir (ops.flatMap Op.links) out auto A B) ∧
    (∀ r ∈ s.network out auto,
      r.crawled = s.pageCount true r.src ∧ r.uncrawled = s.pageCount false r.src) ∧
    (∀ r ∈ s.networkSlow out auto, r.crawled = 0 ∧ r.uncrawled = 0 ∧ r.targets ≠ []) :=
  Traph.C07_reachable cfg dflt rules ops hrules hop hwf hok s hs out auto

section EveryHistory
open Traph State Pag Layout
/-! ### every history (Proofs/Discipline, SinceClear, ReachableAll, HeadlinesAll) -/

/-- EVERY HISTORY, `clear` and `reopen` included, no request assumed away: the only hypotheses are that byte strings cut into at least one stem (`OpWf`), rule anchors are whole LRUs (`rulesCanonical`, `Canon`) and the caller re-supplies on `reopen` the rules the index carries, as the API requires (`Disciplined`); `clear` acts as a reset (`sinceClear`).  -/
theorem C07_all (cfg : Config) (dflt : Rule) (rules : List (Bytes × Rule)) (ops : List Op)
    (hr : rulesCanonical rules) (hwf : ∀ op ∈ sinceClear ops, OpWf op)
    (hd : Disciplined (State.fresh cfg dflt rules []).1 ops)
    (s : State) (hs : s = (State.fresh cfg dflt rules []).1.run ops) (out auto : Bool) :
    NetOk (s.network out auto) ∧ NetOk (s.networkSlow out auto) ∧
    (∀ A B, netGet (s.network out auto) A B = s.specDir ((sinceClear ops).flatMap Op.links) out auto A B) ∧
    (∀ A B, netGet (s.networkSlow out auto) A B = netGet (s.network out auto) A B) ∧
    (∀ A B, netGet (s.network false auto) B A = netGet (s.network true auto) A B) ∧
    (∀ A B, netGet (s.networkSlow false auto) B A = netGet (s.networkSlow true auto) A B) ∧
    (∀ A B w, (∃ r ∈ s.network out auto, r.src = A ∧ (B, w) ∈ r.targets) ↔
      0 < w ∧ w = s.specDir ((sinceClear ops).flatMap Op.links) out auto A B) ∧
    (∀ A B w, (∃ r ∈ s.networkSlow out auto, r.src = A ∧ (B, w) ∈ r.targets) ↔
      0 < w ∧ w = s.specDir ((sinceClear ops).flatMap Op.links) out auto A B) ∧
    (∀ A, A ∈ (s.network out auto).map (·.src) ↔ A ≠ 0 ∧ ∃ lc ∈ s.pagesIter, s.weOf lc.1 = A) ∧
    (∀ A, A ∈ (s.networkSlow out auto).map (·.src) ↔
      ∃ B, 0 < s.specDir ((sinceClear ops).flatMap Op.links) out auto A B) ∧
    (∀ r ∈ s.network out auto,
      r.crawled = s.pageCount true r.src ∧ r.uncrawled = s.pageCount false r.src) ∧
    (∀ r ∈ s.networkSlow out auto, r.crawled = 0 ∧ r.uncrawled = 0 ∧ r.targets ≠ []) :=
  Traph.C07_all cfg dflt rules ops hr hwf hd s hs out auto

end EveryHistory

end Traph.Props

import Proofs.StorageSim
/-! C15 — memory and file back-ends are observationally equal. `FileStorage` (bytes + cursor),
    `MemoryStorage` (Python slice assignment) and `MemMapStorage` all simulate one abstract list of
    whole blocks under the call discipline the trie and link code obey; the model's `step` never
    mentions the back-end, so answers, reports and images are the same function of the history. -/
namespace Traph.Props
open Traph

theorem C15_file_write (f : FileSt) (b : Blocks) (h : f.Abs b) (hw : b.Wf) (data : Bytes) (block : Option Nat)
    (hd : b.Disciplined data block) :
    (f.write b.bs data block).1.Abs (b.write data block).1 ∧ (f.write b.bs data block).2 = (b.write data block).2 :=
  FileSt.write_sim f b h hw data block hd

theorem C15_mem_write (m : MemSt) (b : Blocks) (h : m.Abs b) (hw : b.Wf) (data : Bytes) (block : Option Nat)
    (hd : b.Disciplined data block) :
    (m.write b.bs data block).1.Abs (b.write data block).1 ∧ (m.write b.bs data block).2 = (b.write data block).2 :=
  MemSt.write_sim m b h hw data block hd

/-- the memory-mapped reader returns the same blocks as the file reader -/
theorem C15_mmap (f : FileSt) (b : Blocks) (h : f.Abs b) (hw : b.Wf) (off : Nat) (ha : off % b.bs = 0) :
    mmapRead f.data b.bs off = (f.read b.bs (some off)).2 := mmapRead_file_sim f b h hw off ha

/-- any disciplined sequence of storage calls gives the same results and the same bytes on both -/
theorem C15_equiv (ops : List SOp) (f : FileSt) (m : MemSt) (b : Blocks) (hf : f.Abs b) (hm : m.Abs b)
    (hw : b.Wf) (hd : b.AllDisciplined ops) :
    (f.runOps b.bs ops).2 = (m.runOps b.bs ops).2 ∧ (f.runOps b.bs ops).1.data = (m.runOps b.bs ops).1.data := by
  obtain ⟨h1, h2, h3, h4, _⟩ := back_ends_agree ops f m b hf hm hw hd
  exact ⟨h1.trans h2.symm, by rw [FileSt.Abs] at h3; rw [MemSt.Abs] at h4; rw [h3, h4]⟩

/-- the hazard behind D2: a read *at the cursor* is not a function of the bytes — only explicit-offset
    reads are back-end independent -/
theorem C15_cursor_hazard : ∃ f₁ f₂ : FileSt, f₁.data = f₂.data ∧ f₁.pos ≠ f₂.pos ∧ (f₁.read 2 none).2 ≠ (f₂.read 2 none).2 :=
  FileSt.cursor_read_depends_on_pos

end Traph.Props

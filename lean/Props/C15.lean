import Proofs.StorageSim
import Proofs.StorageImages
/-! C15 — memory and file back-ends are observationally equal. `FileStorage` (bytes + cursor),
    `MemoryStorage` (Python slice assignment) and `MemMapStorage` all simulate one abstract list of
    whole blocks under the call discipline the trie and link code obey; the model's `step` never
    mentions the back-end, so answers, reports and images are the same function of the history. -/
namespace Traph.Props
open Traph

theorem C15_file_write (f : FileSt) (b : Blocks) (h : f.Abs b) (hw : b.Wf) (data : Bytes) (block : Option Nat)
    (hd : b.Disciplined data block) :
    (f.write b.bs data block).1.Abs (b.write data block).1 ∧ (f.write b.bs data block).2 = (b.write data block).2 :=
  FileSt.write_sim f b h hw data block hd

theorem C15_mem_write (m : MemSt) (b : Blocks) (h : m.Abs b) (hw : b.Wf) (data : Bytes) (block : Option Nat)
    (hd : b.Disciplined data block) :
    (m.write b.bs data block).1.Abs (b.write data block).1 ∧ (m.write b.bs data block).2 = (b.write data block).2 :=
  MemSt.write_sim m b h hw data block hd

/-- the memory-mapped reader returns the same blocks as the file reader -/
theorem C15_mmap (f : FileSt) (b : Blocks) (h : f.Abs b) (hw : b.Wf) (off : Nat) (ha : off % b.bs = 0) :
    mmapRead f.data b.bs off = (f.read b.bs (some off)).2 := mmapRead_file_sim f b h hw off ha

/-- any disciplined sequence of storage calls gives the same results and the same bytes on both -/
theorem C15_equiv (ops : List SOp) (f : FileSt) (m : MemSt) (b : Blocks) (hf : f.Abs b) (hm : m.Abs b)
    (hw : b.Wf) (hd : b.AllDisciplined ops) :
    (f.runOps b.bs ops).2 = (m.runOps b.bs ops).2 ∧ (f.runOps b.bs ops).1.data = (m.runOps b.bs ops).1.data := by
  obtain ⟨h1, h2, h3, h4, _⟩ := back_ends_agree ops f m b hf hm hw hd
  exact ⟨h1.trans h2.symm, by rw [FileSt.Abs] at h3; rw [MemSt.Abs] at h4; rw [h3, h4]⟩

/-- the hazard behind D2: a read *at the cursor* is not a function of the bytes — only explicit-offset
    reads are back-end independent -/
theorem C15_cursor_hazard : ∃ f₁ f₂ : FileSt, f₁.data = f₂.data ∧ f₁.pos ≠ f₂.pos ∧ (f₁.read 2 none).2 ≠ (f₂.read 2 none).2 :=
  FileSt.cursor_read_depends_on_pos

section Full
open Traph State Layout
/-! ### the bridge (Proofs/StorageNoZero, StorageBridge, StorageImages): the storage calls the index issues, fed to the
    file machine and to the memory machine -/

/-- THE PROPERTY, for every history whatsoever (any configuration, any requests incl. malformed ones, `clear` and reopen anywhere): (a) answers and reports do not depend on the back-end (one model; the ghost log is never read); (b) after every single storage call and after every request the file back-end and the memory back-end hold identical bytes, equal to the codec image of the index state, and every write call answered the same on both; (c) the memory-mapped reader, the file reader and the memory reader return the same block at every block offset: the encoded cell / stub / header of the state -/
theorem C15_backends (cfg : Config) (dflt : Rule) (rules : List (Bytes × Rule)) (ops : List Op) :
    let fr := (State.fresh cfg dflt rules []).1
    let es := historyEvents cfg dflt rules ops
    -- (a)
    (∀ log : List Write,
      sb_answers (State.fresh cfg dflt rules log).1 ops = sb_answers fr ops ∧
      (State.fresh cfg dflt rules log).2 = (State.fresh cfg dflt rules []).2 ∧
      (State.fresh cfg dflt rules log).1.run ops = (fr.run ops).addLog log) ∧
    -- (b) after every single storage call
    (∀ k : Nat, ∀ i : sb_StoreId,
      ((sb_fileOf (es.take k)).1.get i).data = ((sb_memOf (es.take k)).1.get i).data ∧
      ((sb_fileOf (es.take k)).1.get i).data = (replayE (es.take k)).sb_image i ∧
      (sb_fileOf (es.take k)).2 = (sb_memOf (es.take k)).2) ∧
    -- (b) after every request
    (∀ n : Nat,
      let sn := fr.run (ops.take n)
      let en := historyEvents cfg dflt rules (ops.take n)
      en = es.take en.length ∧
      (sb_fileOf en).1.trie.data = encodeTrie sn ∧ (sb_memOf en).1.trie.data = encodeTrie sn ∧
      (sb_fileOf en).1.links.data = encodeLinks sn ∧ (sb_memOf en).1.links.data = encodeLinks sn) ∧
    -- (c) the memory-mapped reader, after every request
    (∀ n b : Nat,
      let sn := fr.run (ops.take n)
      let en := historyEvents cfg dflt rules (ops.take n)
      (∀ i : sb_StoreId,
        mmapRead ((sb_fileOf en).1.get i).data i.bs (b * i.bs) = (((sb_fileOf en).1.get i).read i.bs (some (b * i.bs))).2 ∧
        mmapRead ((sb_fileOf en).1.get i).data i.bs (b * i.bs) = ((sb_memOf en).1.get i).read i.bs (b * i.bs)) ∧
      (0 < b → b < sn.trie.size →
        mmapRead (sb_fileOf en).1.trie.data trieBlock (b * trieBlock) = some (encodeCell (sn.cell b))) ∧
      (∀ x, 0 < b → sn.links[b]? = some x →
        mmapRead (sb_fileOf en).1.links.data linkBlock (b * linkBlock) = some (encodeStub x)) ∧
      mmapRead (sb_fileOf en).1.trie.data trieBlock 0 = some (encodeTrieHeader sn.hdrId) ∧
      mmapRead (sb_fileOf en).1.links.data linkBlock 0 = some encodeLinkHeader) :=
  Traph.C15_backends cfg dflt rules ops

/-- the calls of every clear-free history satisfy the call discipline under which the three storage machines were shown equivalent (whole blocks, headers first, rewrites inside the file, never block 0 of the trie) -/
theorem C15_discipline_noclear (cfg : Config) (dflt : Rule) (rules : List (Bytes × Rule)) (ops : List Op)
    (hfree : ∀ op ∈ ops, op.isClear = false) (st : sb_StoreId) :
    let s := (State.fresh cfg dflt rules []).1.run ops
    let calls := sb_opsOf st s.log.reverse
    (⟨st.bs, []⟩ : Blocks).AllDisciplined calls ∧
    (({} : FileSt).runOps st.bs calls).2 = (({} : MemSt).runOps st.bs calls).2 ∧
    (({} : FileSt).runOps st.bs calls).1.data = s.files.sb_image st ∧
    (({} : MemSt).runOps st.bs calls).1.data = s.files.sb_image st :=
  Traph.C15_discipline_noclear cfg dflt rules ops hfree st

/-- multi-block stems: writing a node of any stem length appends exactly its head block and its tail blocks to the image, the same bytes on both back-ends -/
theorem C15_writeNew_image (s : State) (h0 : 0 < s.trie.size) (stem : Bytes) (p : Nat) (c : Bool) :
    encodeTrie (s.writeNew stem p c).1 =
      encodeTrie s ++ encodeCell (headCell stem p c) ++ ((tailsOf stem).map encodeCell).flatten :=
  Traph.C15_writeNew_image s h0 stem p c

end Full

end Traph.Props

import Proofs.Small
import Proofs.ForPrefixes
import Proofs.LinkLists
import Proofs.Windup
import Proofs.WeLinks
import Proofs.HeadlinesAll
/-! C08 — per-webentity link queries, in full (Proofs/LinkInv, WeLinks): in every reachable state the answer of
    `get_webentity_pagelinks` for any switch combination is exactly the page links whose source page belongs to W
    and whose target passes the internal/outbound test, plus (inbound) those whose target belongs to W and
    whose source does not, each with its multiplicity and each once (`C08_links`, `C08_switches`); the cited /
    citing sets are exactly the resolutions of the other ends (`C08_links`, 4th clause). The other end is
    resolved by winding its block up (`windupWe` = longest-prefix resolution, Proofs/Windup + LinkInv: parent
    pointers are right and every stub target is a page in every reachable state). Per-page lemmas kept below. -/
namespace Traph.Props
open Traph State

theorem C08_refuses_no_switch (s : State) (w : Nat) (ps : List Bytes) :
    s.webentityPagelinks w ps false false false = .error .traph := rfl

/-- outgoing part, per source page: exactly the targets of the page's out-list that pass the switch
    test, each with its multiplicity -/
theorem C08_out_of_page (s : State) (w b : Nat) (lru : Bytes) (incInt incOut : Bool) (l : PageLink) :
    l ∈ s.outLinksOfPage w b lru incInt incOut ↔
      (s.cell b).out ≠ 0 ∧ ∃ t n, (t, n) ∈ s.weighted (s.cell b).out ∧
        ((incOut = true ∧ s.windupWe t ≠ w) ∨ (incInt = true ∧ s.windupWe t = w)) ∧ l = (lru, s.windup t, n) := by
  unfold outLinksOfPage
  by_cases h0 : (s.cell b).out ≠ 0 <;> by_cases hsw : (incOut || incInt) = true
  · simp only [h0, hsw, ne_eq, not_false_eq_true, decide_true, Bool.and_self, if_true, List.mem_filterMap, true_and]
    constructor
    · rintro ⟨⟨t, n⟩, hm, hx⟩
      split at hx
      · rename_i hc; cases hx
        refine ⟨t, n, hm, ?_, rfl⟩
        simpa using hc
      · cases hx
    · rintro ⟨t, n, hm, hc, rfl⟩
      refine ⟨(t, n), hm, ?_⟩
      rcases hc with ⟨ho, hne⟩ | ⟨hi, he⟩
      · simp [ho, hne]
      · simp [hi, he]
  · have : incOut = false ∧ incInt = false := by cases incOut <;> cases incInt <;> simp_all
    simp [this.1, this.2]
  · simp at h0; simp [h0]
  · simp at h0; simp [h0]

/-- weights are multiplicities and each target appears once per source page -/
theorem C08_weight_is_multiplicity (s : State) (head t n : Nat) :
    (t, n) ∈ s.weighted head ↔ (t ∈ s.walk head ∧ n = count t (s.walk head)) := weighted_spec s head t n

/-- the cited / citing answers are sets -/
theorem C08_cited_is_set (s : State) (ps : List Bytes) (out : Bool) (l : List Nat) (h : s.citedWebentities ps out = .ok l) :
    StrictAsc l := by
  unfold citedWebentities at h
  cases hf : s.forPrefixes ps (fun n p => ((s.weDfs n p none).filter (fun bl => (s.cell bl.1).flags.page)).flatMap (fun bl =>
      let c := s.cell bl.1
      let head := if out then c.out else c.inn
      if head ≠ 0 then (s.deduped head).map (fun t => s.windupWe t) else [])) with
  | error e => rw [hf] at h; cases h
  | ok xs => rw [hf] at h; cases h; exact sortDedup_sorted _

/-- the webentity found by walking UP from a link end is the top-down resolution of that end's LRU, and the
    LRU reported for it is its own path: the switch test of `C08_out_of_page` is the property's test -/
theorem C08_end_resolution {s : State} {t : T} (h : Shape s t) (hp : ParOk s t 0) {p : LRU} {b : Nat}
    (hb : (p, b) ∈ t.entries s []) : s.windupWe b = (s.followLru p).2.we ∧ s.windup b = p.flatten :=
  ⟨windupWe_eq_followLru h hp hb, windup_eq h hp hb⟩

/-! ### the requests themselves, in every reachable state (Proofs/LinkInv, WeLinks) -/

/-- THE PROPERTY: for every reachable state, webentity `w` asked with a full prefix list and every switch combination: all switches off is refused with the library's own error; otherwise the answer is exactly the page links `(src, tgt, weight)` with `src` a page of `w` and `tgt` passing the internal/outbound test, or (inbound) `tgt` a page of `w` and `src` not resolving to `w`, weight = multiplicity in the page's list, each pair once; other ends are indexed pages; cited / citing sets are sorted duplicate-free and contain exactly the resolutions of the other ends (0 standing for none, `w` itself when it has internal links, as the library does); the degree triple is their sizes -/
theorem C08_links (cfg : Config) (dflt : Rule) (rules : List (Bytes × Rule)) (ops : List Op)
    (hrules : ∀ ar ∈ rules, lruIter ar.1 ≠ [])
    (hop : ∀ op ∈ ops, ∀ d rs, op ≠ .clear d rs) (hwf : ∀ op ∈ ops, OpWf op)
    (hok : NoKeyErr (State.fresh cfg dflt rules []).1 ops)
    (s : State) (hs : s = (State.fresh cfg dflt rules []).1.run ops)
    (w : Nat) (ps : List Bytes) (hf : FullPrefixList s w ps) :
    (∀ incIn incInt incOut : Bool,
      (incIn = false ∧ incInt = false ∧ incOut = false →
        s.webentityPagelinks w ps incIn incInt incOut = .error .traph) ∧
      ((incIn || incInt || incOut) = true →
        ∃ l, s.webentityPagelinks w ps incIn incInt incOut = .ok l ∧
          (∀ src tgt k, (src, tgt, k) ∈ l ↔
            (OutLink s src tgt k ∧ s.retrieveWebentity src = .ok w ∧ SwitchOut s w incInt incOut tgt) ∨
            (incIn = true ∧ InLink s src tgt k ∧ s.retrieveWebentity tgt = .ok w ∧
              s.retrieveWebentity src ≠ .ok w)) ∧
          ((ps.map lruIter).Nodup → (l.map wlEnds).Nodup))) ∧
    (∀ src tgt k, OutLink s src tgt k → ∃ c, NodeOf s tgt c ∧ (s.cell c).flags.page = true) ∧
    (∀ src tgt k, InLink s src tgt k → ∃ c, NodeOf s src c ∧ (s.cell c).flags.page = true) ∧
    (∀ out : Bool, ∃ l, s.citedWebentities ps out = .ok l ∧ StrictAsc l ∧
      ∀ x, x ∈ l ↔ ∃ own other k, s.retrieveWebentity own = .ok w ∧
        ((out = true ∧ OutLink s own other k) ∨ (out = false ∧ InLink s other own k)) ∧ x = weOf s other) ∧
    (∃ cited citing, s.citedWebentities ps true = .ok cited ∧ s.citedWebentities ps false = .ok citing ∧
      s.webentityDegrees ps = .ok [citing.length, cited.length, citing.length + cited.length]) :=
  Traph.C08_reachable cfg dflt rules ops hrules hop hwf hok s hs w ps hf

/-- the three classes internal / outbound / inbound are pairwise disjoint and every switch combination returns the union of the classes asked for -/
theorem C08_switches (cfg : Config) (dflt : Rule) (rules : List (Bytes × Rule)) (ops : List Op)
    (hrules : ∀ ar ∈ rules, lruIter ar.1 ≠ [])
    (hop : ∀ op ∈ ops, ∀ d rs, op ≠ .clear d rs) (hwf : ∀ op ∈ ops, OpWf op)
    (hok : NoKeyErr (State.fresh cfg dflt rules []).1 ops)
    (s : State) (hs : s = (State.fresh cfg dflt rules []).1.run ops)
    (w : Nat) (ps : List Bytes) (hf : FullPrefixList s w ps) :
    ∃ lInt lOut lIn, s.webentityPagelinks w ps false true false = .ok lInt ∧
      s.webentityPagelinks w ps false false true = .ok lOut ∧
      s.webentityPagelinks w ps true false false = .ok lIn ∧
      (∀ x, x ∈ lInt → x ∉ lOut) ∧ (∀ x, x ∈ lInt → x ∉ lIn) ∧ (∀ x, x ∈ lOut → x ∉ lIn) ∧
      ∀ (incIn incInt incOut : Bool) (l : List PageLink), s.webentityPagelinks w ps incIn incInt incOut = .ok l →
        ∀ x, x ∈ l ↔ (incInt = true ∧ x ∈ lInt) ∨ (incOut = true ∧ x ∈ lOut) ∨ (incIn = true ∧ x ∈ lIn) :=
  Traph.C08_switches_reachable cfg dflt rules ops hrules hop hwf hok s hs w ps hf

section EveryHistory
open Traph State Pag Layout
/-! ### every history (Proofs/Discipline, SinceClear, ReachableAll, HeadlinesAll) -/

/-- EVERY HISTORY, `clear` and `reopen` included, no request assumed away: the only hypotheses are that byte strings cut into at least one stem (`OpWf`), rule anchors are whole LRUs (`rulesCanonical`, `Canon`) and the caller re-supplies on `reopen` the rules the index carries, as the API requires (`Disciplined`); `clear` acts as a reset (`sinceClear`).  -/
theorem C08_all {s : State} (hs : Reachable s)
    (w : Nat) (ps : List Bytes) (hf : FullPrefixList s w ps) :
    (∀ incIn incInt incOut : Bool,
      (incIn = false ∧ incInt = false ∧ incOut = false →
        s.webentityPagelinks w ps incIn incInt incOut = .error .traph) ∧
      ((incIn || incInt || incOut) = true →
        ∃ l, s.webentityPagelinks w ps incIn incInt incOut = .ok l ∧
          (∀ src tgt k, (src, tgt, k) ∈ l ↔
            (OutLink s src tgt k ∧ s.retrieveWebentity src = .ok w ∧ SwitchOut s w incInt incOut tgt) ∨
            (incIn = true ∧ InLink s src tgt k ∧ s.retrieveWebentity tgt = .ok w ∧
              s.retrieveWebentity src ≠ .ok w)) ∧
          ((ps.map lruIter).Nodup → (l.map wlEnds).Nodup))) ∧
    (∀ src tgt k, OutLink s src tgt k → ∃ c, NodeOf s tgt c ∧ (s.cell c).flags.page = true) ∧
    (∀ src tgt k, InLink s src tgt k → ∃ c, NodeOf s src c ∧ (s.cell c).flags.page = true) ∧
    (∀ out : Bool, ∃ l, s.citedWebentities ps out = .ok l ∧ StrictAsc l ∧
      ∀ x, x ∈ l ↔ ∃ own other k, s.retrieveWebentity own = .ok w ∧
        ((out = true ∧ OutLink s own other k) ∨ (out = false ∧ InLink s other own k)) ∧ x = weOf s other) ∧
    (∃ cited citing, s.citedWebentities ps true = .ok cited ∧ s.citedWebentities ps false = .ok citing ∧
      s.webentityDegrees ps = .ok [citing.length, cited.length, citing.length + cited.length]) :=
  Traph.C08_all hs w ps hf

end EveryHistory

end Traph.Props

import Proofs.Small
import Proofs.ForPrefixes
import Proofs.LinkLists
import Proofs.Windup
/-! C08 — per-webentity link queries. Proved so far: every returned link comes from a page of the
    webentity walk, carries the multiplicity of its target in that page's list, passes exactly the
    switch test stated by the property (internal: target resolves to W; outbound: elsewhere or nowhere;
    inbound: source does not resolve to W), each target once per page; cited/citing sets are sorted
    duplicate-free sets of resolved ends; no switch at all is refused. The identification of
    `windupWe` with longest-prefix resolution is under construction (Proofs/Shape*). -/
namespace Traph.Props
open Traph State

theorem C08_refuses_no_switch (s : State) (w : Nat) (ps : List Bytes) :
    s.webentityPagelinks w ps false false false = .error .traph := rfl

/-- outgoing part, per source page: exactly the targets of the page's out-list that pass the switch
    test, each with its multiplicity -/
theorem C08_out_of_page (s : State) (w b : Nat) (lru : Bytes) (incInt incOut : Bool) (l : PageLink) :
    l ∈ s.outLinksOfPage w b lru incInt incOut ↔
      (s.cell b).out ≠ 0 ∧ ∃ t n, (t, n) ∈ s.weighted (s.cell b).out ∧
        ((incOut = true ∧ s.windupWe t ≠ w) ∨ (incInt = true ∧ s.windupWe t = w)) ∧ l = (lru, s.windup t, n) := by
  unfold outLinksOfPage
  by_cases h0 : (s.cell b).out ≠ 0 <;> by_cases hsw : (incOut || incInt) = true
  · simp only [h0, hsw, ne_eq, not_false_eq_true, decide_true, Bool.and_self, if_true, List.mem_filterMap, true_and]
    constructor
    · rintro ⟨⟨t, n⟩, hm, hx⟩
      split at hx
      · rename_i hc; cases hx
        refine ⟨t, n, hm, ?_, rfl⟩
        simpa using hc
      · cases hx
    · rintro ⟨t, n, hm, hc, rfl⟩
      refine ⟨(t, n), hm, ?_⟩
      rcases hc with ⟨ho, hne⟩ | ⟨hi, he⟩
      · simp [ho, hne]
      · simp [hi, he]
  · have : incOut = false ∧ incInt = false := by cases incOut <;> cases incInt <;> simp_all
    simp [this.1, this.2]
  · simp at h0; simp [h0]
  · simp at h0; simp [h0]

/-- weights are multiplicities and each target appears once per source page -/
theorem C08_weight_is_multiplicity (s : State) (head t n : Nat) :
    (t, n) ∈ s.weighted head ↔ (t ∈ s.walk head ∧ n = count t (s.walk head)) := weighted_spec s head t n

/-- the cited / citing answers are sets -/
theorem C08_cited_is_set (s : State) (ps : List Bytes) (out : Bool) (l : List Nat) (h : s.citedWebentities ps out = .ok l) :
    StrictAsc l := by
  unfold citedWebentities at h
  cases hf : s.forPrefixes ps (fun n p => ((s.weDfs n p none).filter (fun bl => (s.cell bl.1).flags.page)).flatMap (fun bl =>
      let c := s.cell bl.1
      let head := if out then c.out else c.inn
      if head ≠ 0 then (s.deduped head).map (fun t => s.windupWe t) else [])) with
  | error e => rw [hf] at h; cases h
  | ok xs => rw [hf] at h; cases h; exact sortDedup_sorted _

/-- the webentity found by walking UP from a link end is the top-down resolution of that end's LRU, and the
    LRU reported for it is its own path: the switch test of `C08_out_of_page` is the property's test -/
theorem C08_end_resolution {s : State} {t : T} (h : Shape s t) (hp : ParOk s t 0) {p : LRU} {b : Nat}
    (hb : (p, b) ∈ t.entries s []) : s.windupWe b = (s.followLru p).2.we ∧ s.windup b = p.flatten :=
  ⟨windupWe_eq_followLru h hp hb, windup_eq h hp hb⟩

end Traph.Props

import Proofs.Small
import Proofs.ForPrefixes
import Proofs.MarksOps
import Proofs.HeadlinesAll
/-! C13 — hierarchy queries. Proved so far: the answers are duplicate-free sorted sets, never contain
    the queried webentity or "no webentity", and every member is the id of a cell met on the parent chain
    (resp. in the pruned DFS) of one of the given prefixes; an unknown prefix is refused with the
    library's own error. That the pruned DFS meets *every* attached descendant (the pruning mark
    invariant I5) is under construction in Proofs/Shape*. -/
namespace Traph.Props
open Traph State

theorem C13_parents_sound (s : State) (w : Nat) (ps : List Bytes) (l : List Nat)
    (h : s.parentWebentities w ps = .ok l) (x : Nat) :
    x ∈ l ↔ x ≠ 0 ∧ x ≠ w ∧ ∃ p ∈ ps, ∃ n, s.lruNode (lruIter p) = some n ∧ ∃ a ∈ s.parents n, (s.cell a).we = x := by
  unfold parentWebentities at h
  cases hf : s.forPrefixes ps (fun n _ => ((s.parents n).map (fun p => (s.cell p).we)).filter (fun w' => w' ≠ 0 && w' ≠ w)) with
  | error e => rw [hf] at h; cases h
  | ok xs =>
    rw [hf] at h
    cases h
    rw [mem_sortDedup, forPrefixes_mem s ps _ xs hf]
    constructor
    · rintro ⟨p, hp, n, hn, hx⟩
      simp only [List.mem_filter, List.mem_map, Bool.and_eq_true, bne_iff_ne, ne_eq, decide_eq_true_eq] at hx
      obtain ⟨⟨a, ha, rfl⟩, h0, hw⟩ := hx
      exact ⟨h0, hw, p, hp, n, hn, a, ha, rfl⟩
    · rintro ⟨h0, hw, p, hp, n, hn, a, ha, rfl⟩
      refine ⟨p, hp, n, hn, ?_⟩
      simp only [List.mem_filter, List.mem_map, Bool.and_eq_true, bne_iff_ne, ne_eq, decide_eq_true_eq]
      exact ⟨⟨a, ha, rfl⟩, h0, hw⟩

theorem C13_children_sound (s : State) (w : Nat) (ps : List Bytes) (l : List Nat)
    (h : s.childWebentities w ps = .ok l) (x : Nat) :
    x ∈ l ↔ x ≠ 0 ∧ x ≠ w ∧ ∃ p ∈ ps, ∃ n, s.lruNode (lruIter p) = some n ∧
      ∃ bl ∈ s.dfsIter (some (n, p)) true, (s.cell bl.1).we = x := by
  unfold childWebentities at h
  cases hf : s.forPrefixes ps (fun n p => ((s.dfsIter (some (n, p)) true).map (fun bl => (s.cell bl.1).we)).filter
      (fun w' => w' ≠ 0 && w' ≠ w)) with
  | error e => rw [hf] at h; cases h
  | ok xs =>
    rw [hf] at h
    cases h
    rw [mem_sortDedup, forPrefixes_mem s ps _ xs hf]
    constructor
    · rintro ⟨p, hp, n, hn, hx⟩
      simp only [List.mem_filter, List.mem_map, Bool.and_eq_true, bne_iff_ne, ne_eq, decide_eq_true_eq] at hx
      obtain ⟨⟨a, ha, rfl⟩, h0, hw⟩ := hx
      exact ⟨h0, hw, p, hp, n, hn, a, ha, rfl⟩
    · rintro ⟨h0, hw, p, hp, n, hn, a, ha, rfl⟩
      refine ⟨p, hp, n, hn, ?_⟩
      simp only [List.mem_filter, List.mem_map, Bool.and_eq_true, bne_iff_ne, ne_eq, decide_eq_true_eq]
      exact ⟨⟨a, ha, rfl⟩, h0, hw⟩

/-! #### the pruning never hides a child — for every reachable state -/

/-- THE MARK INVARIANT is an invariant of every write request (including `clear`): in every state reached from
    a fresh index by any history, a node still marked "no child webentities" has no webentity anywhere below
    it — however the prefixes came to exist (explicit, automatic and rule-driven creation, additions, moves) -/
theorem C13_mark_invariant (cfg : Config) (dflt : Rule) (rules : List (Bytes × Rule)) (ops : List Op) :
    MInv ((State.fresh cfg dflt rules).1.run ops) := run_minv ops _ (minv_fresh cfg dflt rules [])

/-- CHILDREN, EXACT: in every reachable state the answer of `get_webentity_child_webentities` is exactly the
    set of ids other than `w` attached to a stored LRU extending one of the given prefixes, at any depth -/
theorem C13_children (cfg : Config) (dflt : Rule) (rules : List (Bytes × Rule)) (ops : List Op)
    (w : Nat) (ps : List Bytes) (hps : ∀ p ∈ ps, lruIter p ≠ []) (l : List Nat) :
    let s := (State.fresh cfg dflt rules).1.run ops
    s.childWebentities w ps = .ok l →
    ∃ t, Shape s t ∧ ∀ x, x ∈ l ↔ x ≠ 0 ∧ x ≠ w ∧ ∃ p ∈ ps, ∃ q b, (q, b) ∈ t.entries s [] ∧
      lruIter p <+: q ∧ (s.cell b).we = x := C13_reachable_api cfg dflt rules ops w ps hps l

/-- the mechanism: `add_lru(…, flag_can_have_child_webentities=True)` unmarks every proper ancestor of the
    path, existing or new — stated without any ghost state, through the look-up itself -/
theorem C13_unmarks {s : State} {t : T} (h : Shape s t) (hm : MarkOk s t) (stems : LRU) (hne : stems ≠ []) :
    ∀ k, 0 < k → k < stems.length → ∀ b, (s.addLru stems true).1.lruNode (stems.take k) = some b →
      ((s.addLru stems true).1.cell b).flags.noChild = false :=
  addLru_true_unmarks_lruNode h hm stems hne

/-- answers are sets: strictly ascending, hence duplicate-free -/
theorem C13_answers_are_sets (s : State) (w : Nat) (ps : List Bytes) (l : List Nat) :
    (s.parentWebentities w ps = .ok l ∨ s.childWebentities w ps = .ok l) → StrictAsc l := by
  rintro (h | h)
  · unfold parentWebentities at h
    cases hf : s.forPrefixes ps (fun n _ => ((s.parents n).map (fun p => (s.cell p).we)).filter (fun w' => w' ≠ 0 && w' ≠ w)) with
    | error e => rw [hf] at h; cases h
    | ok xs => rw [hf] at h; cases h; exact sortDedup_sorted _
  · unfold childWebentities at h
    cases hf : s.forPrefixes ps (fun n p => ((s.dfsIter (some (n, p)) true).map (fun bl => (s.cell bl.1).we)).filter
        (fun w' => w' ≠ 0 && w' ≠ w)) with
    | error e => rw [hf] at h; cases h
    | ok xs => rw [hf] at h; cases h; exact sortDedup_sorted _

/-- an unknown prefix is refused with the library's own error -/
theorem C13_unknown_prefix (s : State) (w : Nat) (ps : List Bytes) (e : Err)
    (h : s.parentWebentities w ps = .error e ∨ s.childWebentities w ps = .error e) :
    e = .traph ∧ ∃ p ∈ ps, s.lruNode (lruIter p) = none := by
  rcases h with h | h
  · unfold parentWebentities at h
    cases hf : s.forPrefixes ps (fun n _ => ((s.parents n).map (fun p => (s.cell p).we)).filter (fun w' => w' ≠ 0 && w' ≠ w)) with
    | error e' => rw [hf] at h; cases h; exact forPrefixes_err s ps _ _ hf
    | ok xs => rw [hf] at h; cases h
  · unfold childWebentities at h
    cases hf : s.forPrefixes ps (fun n p => ((s.dfsIter (some (n, p)) true).map (fun bl => (s.cell bl.1).we)).filter
        (fun w' => w' ≠ 0 && w' ≠ w)) with
    | error e' => rw [hf] at h; cases h; exact forPrefixes_err s ps _ _ hf
    | ok xs => rw [hf] at h; cases h

section EveryHistory
open Traph State Pag Layout
/-! ### every history (Proofs/Discipline, SinceClear, ReachableAll, HeadlinesAll) -/

/-- EVERY HISTORY, `clear` and `reopen` included, no request assumed away: the only hypotheses are that byte strings cut into at least one stem (`OpWf`), rule anchors are whole LRUs (`rulesCanonical`, `Canon`) and the caller re-supplies on `reopen` the rules the index carries, as the API requires (`Disciplined`); `clear` acts as a reset (`sinceClear`).  -/
theorem C13_all {s : State} (hs : Reachable s) :
    ∃ t, Shape s t ∧ MarkOk s t ∧
      (∀ a ∈ t.addrs, ∀ (lru : Bytes) (w : Nat),
        ∃ l c r, Rep s (.node a l c r) ∧ (∀ x ∈ c.addrs, x ∈ t.addrs) ∧
          ∀ x, (x ≠ 0 ∧ x ≠ w ∧ ∃ b ∈ a :: c.addrs, (s.cell b).we = x) ↔
               (x ≠ 0 ∧ x ≠ w ∧ ∃ bl ∈ s.dfsIter (some (a, lru)) true, (s.cell bl.1).we = x)) ∧
      (∀ (w : Nat) (ps : List Bytes), (∀ p ∈ ps, lruIter p ≠ []) → ∀ l : List Nat,
        s.childWebentities w ps = .ok l →
        ∀ x, x ∈ l ↔ x ≠ 0 ∧ x ≠ w ∧ ∃ p ∈ ps, ∃ q b, (q, b) ∈ t.entries s [] ∧
          lruIter p <+: q ∧ (s.cell b).we = x) :=
  Traph.C13_all hs

end EveryHistory

end Traph.Props

import Proofs.Chunks
import Proofs.LinkLists
import Proofs.SizesGrowth
import Proofs.SizesLinks
import Proofs.SizesRun
import Proofs.HeadlinesAll
/-! C19 — storage growth is exactly accounted for. Arithmetic core for every stem length; a new node
    takes exactly `blocksFor stem` blocks; `n` link ends take exactly `n` stubs; the accounting invariant
    `SizeOk` is preserved by every insertion. HISTORY LEVEL (Proofs/Known*, SizesRun): after any history
    the trie holds one header block plus `blocksFor(last stem)` blocks per known LRU, the known LRUs being
    the stem-prefix closure of everything the requests named (`C19_trie_history`); the link store holds one
    header stub plus two stubs per submitted link, self-links and repeats included, empty target lists
    costing nothing (`C19_links_history`); sizes never decrease without `clear` (`C19_monotone`); a request
    naming only known LRUs and submitting no link changes neither size (`C19_idempotent_request`); every
    request grows the trie by exactly the blocks of the LRUs it names that were not known (`C19_request_growth`). -/
namespace Traph.Props
open Traph State

/-- chunking a non-empty string into pieces of `n` gives `⌈len/n⌉` pieces — for every length -/
theorem C19_chunks (n : Nat) (hn : 0 < n) (s : Bytes) (hs : s ≠ []) : (chunks n s).length = (s.length + n - 1) / n :=
  chunks_length n hn s hs

theorem C19_chunks_lossless (n : Nat) (hn : 0 < n) (s : Bytes) : (chunks n s).flatten = s := chunks_flatten n hn s

/-- one node = one block per 74 bytes of its stem, nothing more (the orphan block of D1 is gone) -/
theorem C19_node_blocks (s : State) (stem : Bytes) (p : Nat) (c : Bool) :
    (s.writeNew stem p c).1.trie.size = s.trie.size + blocksFor stem ∧ (s.writeNew stem p c).1.links = s.links :=
  ⟨writeNew_size s stem p c, (writeNew_rest s stem p c).1⟩

/-- `n` link ends = `n` stubs, and the trie does not grow -/
theorem C19_stubs (s : State) (hwf : LinksWf s) (tail : Nat) (ht : tail < s.links.size) (targets : List Nat) :
    (s.addStubsGo tail targets).1.links.size = s.links.size + targets.length ∧
    (s.addStubsGo tail targets).1.trie = s.trie :=
  ⟨addStubsGo_size s hwf tail ht targets, addStubsGo_trie s hwf tail ht targets⟩

/-! #### exact accounting over insertions -/

/-- THE ACCOUNTING INVARIANT `SizeOk`: the trie store holds one header block plus, for every stored
    stem-prefix, the blocks of its last stem — and nothing else (no unreferenced block). It holds initially and
    every `add_lru` preserves it, together with the shape invariant -/
theorem C19_trie (s : State) (t : T) (h : Shape s t) (hz : SizeOk s t) (stems : LRU) (hne : stems ≠ []) (flag : Bool) :
    ∃ t', Grow stems s t (s.addLru stems flag).1 t' ∧ SizeOk (s.addLru stems flag).1 t' ∧
      (stems, (s.addLru stems flag).2.1) ∈ t'.entries (s.addLru stems flag).1 [] := addLru_sizeOk h hz stems hne flag

theorem C19_trie_init : SizeOk ({} : State) .nil := sizeOk_init

/-- exact growth: an insertion allocates blocks for exactly the stem-prefixes that were not stored before
    (the stored ones are the first `k`), `⌈len/74⌉` each -/
theorem C19_growth {s : State} {t : T} (h : Shape s t) (stems : LRU) (hne : stems ≠ []) (flag : Bool) :
    ∃ k, k ≤ stems.length ∧
      (∀ j, 0 < j → j ≤ stems.length → ((∃ b, (stems.take j, b) ∈ t.entries s []) ↔ j ≤ k)) ∧
      (s.addLru stems flag).1.trie.size = s.trie.size + ((stems.drop k).map blocksFor).sum :=
  addLru_growth h stems hne flag

/-- re-submitting a known prefix, page or anchor never grows the trie store and returns the same block -/
theorem C19_idempotent {s : State} {t : T} (h : Shape s t) (stems : LRU) (hne : stems ≠ []) (flag : Bool) (b : Nat)
    (hb : (stems, b) ∈ t.entries s []) :
    (s.addLru stems flag).1.trie.size = s.trie.size ∧ (s.addLru stems flag).2.1 = b :=
  addLru_known_no_growth h stems hne flag b hb

theorem C19_idempotent_page {s : State} {t : T} (h : Shape s t) (stems : LRU) (hne : stems ≠ []) (crawled : Bool) (b : Nat)
    (hb : (stems, b) ∈ t.entries s []) :
    (s.addPageTrie stems crawled).1.trie.size = s.trie.size ∧ (s.addPageTrie stems crawled).2.1 = b :=
  addPageTrie_known_no_growth h stems hne crawled b hb

/-- the link store grows by exactly two stubs per submitted link, whatever else the request does -/
theorem C19_links (s : State) (pairs : List (Bytes × Bytes)) (r : Report) (hok : (s.addLinks pairs).2 = .ok r) :
    (s.addLinks pairs).1.links.size = s.links.size + 2 * pairs.length := addLinks_links_size s pairs r hok

example : blocksFor (List.replicate 75 65) = 2 ∧ blocksFor (List.replicate 148 65) = 2 ∧ blocksFor (List.replicate 149 65) = 3 := by decide

/-- HISTORY LEVEL, trie: header + Σ blocksFor(last stem) over the known LRUs = the non-empty stem-prefixes of
    the constructor-rule anchors and of everything named by the requests (`K` any duplicate-free listing) -/
theorem C19_trie_history (cfg : Config) (dflt : Rule) (rules : List (Bytes × Rule)) (ops : List Op)
    (hop : ∀ op ∈ ops, ∀ d rs, op ≠ .clear d rs)
    (hok : NoKeyErr (State.fresh cfg dflt rules []).1 ops)
    (K : List LRU) (hnd : K.Nodup)
    (hK : ∀ p, p ∈ K ↔ Covered (anchors rules ++ (State.fresh cfg dflt rules []).1.namedRun ops) p) :
    ((State.fresh cfg dflt rules []).1.run ops).trie.size = 1 + (K.map lruBlocks).sum :=
  Traph.C19_trie_history cfg dflt rules ops hop hok K hnd hK

/-- HISTORY LEVEL, link store: header stub + two stubs per submitted link -/
theorem C19_links_history (cfg : Config) (dflt : Rule) (rules : List (Bytes × Rule)) (ops : List Op)
    (hop : ∀ op ∈ ops, ∀ d rs, op ≠ .clear d rs)
    (hok : NoKeyErr (State.fresh cfg dflt rules []).1 ops) :
    ((State.fresh cfg dflt rules []).1.run ops).links.size = 1 + 2 * linksSubmitted ops :=
  Traph.C19_links_history cfg dflt rules ops hop hok

/-- sizes never decrease along a history without `clear` (aborted requests included) -/
theorem C19_monotone (s : State) (ops : List Op) (hl : Live s) (hop : ∀ op ∈ ops, ∀ d rs, op ≠ .clear d rs) :
    s.trie.size ≤ (s.run ops).trie.size ∧ s.links.size ≤ (s.run ops).links.size :=
  Traph.C19_monotone s ops hl hop

/-- any request (of any kind) naming only known LRUs and submitting no link leaves both files as long as they were -/
theorem C19_idempotent_request {s : State} {t : T} (g : Good s t) (op : Op) (hop : ∀ d rs, op ≠ .clear d rs)
    (hne : (s.step op).2 ≠ .err (.other "KeyError"))
    (hknown : ∀ l ∈ s.named op, l ≠ [] → Known s t l) (hlinks : op.nlinks = 0) :
    (s.step op).1.trie.size = s.trie.size ∧ (s.step op).1.links.size = s.links.size :=
  C19_idempotent_step g op hop hne hknown hlinks

/-- exact growth per request: the blocks of the named LRUs (and their stem-prefixes) that were not known -/
theorem C19_request_growth {s : State} {t : T} (g : Good s t) (op : Op) (hop : ∀ d rs, op ≠ .clear d rs)
    (hne : (s.step op).2 ≠ .err (.other "KeyError"))
    (N : List LRU) (hnd : N.Nodup) (hN : ∀ p, p ∈ N ↔ Covered (s.named op) p ∧ ¬ Known s t p) :
    (s.step op).1.trie.size = s.trie.size + (N.map lruBlocks).sum ∧
    (s.step op).1.links.size = s.links.size + 2 * op.nlinks :=
  ⟨C19_step_growth g op hop hne N hnd hN, links_step s op hop hne⟩

section EveryHistory
open Traph State Pag Layout
/-! ### every history (Proofs/Discipline, SinceClear, ReachableAll, HeadlinesAll) -/

/-- EVERY HISTORY, `clear` and `reopen` included, no request assumed away: the only hypotheses are that byte strings cut into at least one stem (`OpWf`), rule anchors are whole LRUs (`rulesCanonical`, `Canon`) and the caller re-supplies on `reopen` the rules the index carries, as the API requires (`Disciplined`); `clear` acts as a reset (`sinceClear`).  -/
theorem C19_all (cfg : Config) (dflt : Rule) (rules : List (Bytes × Rule)) (ops : List Op)
    (hr : rulesCanonical rules) (hd : Disciplined (State.fresh cfg dflt rules []).1 ops) :
    ((State.fresh cfg dflt rules []).1.run ops).trie.size =
      1 + ((prefixClosure ((State.fresh cfg dflt rules []).1.namedSince (anchors rules) ops)).map lruBlocks).sum ∧
    ((State.fresh cfg dflt rules []).1.run ops).links.size = 1 + 2 * linksSince 0 ops :=
  Traph.C19_all cfg dflt rules ops hr hd

end EveryHistory

end Traph.Props

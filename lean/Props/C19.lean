import Proofs.Chunks
import Proofs.LinkLists
/-! C19 — storage growth is exactly accounted for. Arithmetic core for every stem length; a new node
    takes exactly `blocksFor stem` blocks; `n` link ends take exactly `n` stubs. The whole-history sum
    needs "allocation only on missing stems" (Proofs/Shape*, in progress). -/
namespace Traph.Props
open Traph State

/-- chunking a non-empty string into pieces of `n` gives `⌈len/n⌉` pieces — for every length -/
theorem C19_chunks (n : Nat) (hn : 0 < n) (s : Bytes) (hs : s ≠ []) : (chunks n s).length = (s.length + n - 1) / n :=
  chunks_length n hn s hs

theorem C19_chunks_lossless (n : Nat) (hn : 0 < n) (s : Bytes) : (chunks n s).flatten = s := chunks_flatten n hn s

/-- one node = one block per 74 bytes of its stem, nothing more (the orphan block of D1 is gone) -/
theorem C19_node_blocks (s : State) (stem : Bytes) (p : Nat) (c : Bool) :
    (s.writeNew stem p c).1.trie.size = s.trie.size + blocksFor stem ∧ (s.writeNew stem p c).1.links = s.links :=
  ⟨writeNew_size s stem p c, (writeNew_rest s stem p c).1⟩

/-- `n` link ends = `n` stubs, and the trie does not grow -/
theorem C19_stubs (s : State) (hwf : LinksWf s) (tail : Nat) (ht : tail < s.links.size) (targets : List Nat) :
    (s.addStubsGo tail targets).1.links.size = s.links.size + targets.length ∧
    (s.addStubsGo tail targets).1.trie = s.trie :=
  ⟨addStubsGo_size s hwf tail ht targets, addStubsGo_trie s hwf tail ht targets⟩

example : blocksFor (List.replicate 75 65) = 2 ∧ blocksFor (List.replicate 148 65) = 2 ∧ blocksFor (List.replicate 149 65) = 3 := by decide

end Traph.Props

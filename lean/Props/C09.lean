import Proofs.Tokens
import Proofs.Pagination
import Proofs.PagApi
import Proofs.PagLater
import Proofs.HeadlinesAll
/-! C09 — page pagination: token text round-trips for every (prefix index, path); paths built from
    L/C/R steps are injective and read back digit by digit. The traversal is strictly ascending; resuming from any item returns exactly the later items
    (Proofs/Pagination). The lift over whole histories (`Shape` of every reachable state) is Proofs/PageSet. -/
namespace Traph.Props
open Traph

/-- tokens round-trip through their text encoding for every (prefix index, path) -/
theorem C09_token_roundtrip (i path : Nat) : parseToken (buildToken i path) = some (i, path) :=
  parseToken_buildToken i path

/-- a path is the base-4 number of its L/C/R steps (digits 1–3), and `int_to_base4` reads the steps back -/
theorem C09_path_digits (ops : List Nat) (h : ∀ d ∈ ops, d = 1 ∨ d = 2 ∨ d = 3) (hne : ops ≠ []) :
    intToBase4 (ops.foldl base4Append 0) = ops.map digitChar := intToBase4_path ops h hne

/-- two different step sequences never share a path number: a token denotes one tree position -/
theorem C09_path_injective (o₁ o₂ : List Nat) (h₁ : ∀ d ∈ o₁, d = 1 ∨ d = 2 ∨ d = 3)
    (h₂ : ∀ d ∈ o₂, d = 1 ∨ d = 2 ∨ d = 3) : o₁.foldl base4Append 0 = o₂.foldl base4Append 0 → o₁ = o₂ :=
  path_injective o₁ o₂ h₁ h₂

/-! #### ordered, complete, duplicate-free, resumable (for every tree satisfying the shape invariant whose
     stems are well formed: closed by the separator, no separator inside) -/

/-- ascending LRU order within a prefix: the in-order walk of a webentity is strictly ascending in the
    byte order of the full LRUs — hence also duplicate-free -/
theorem C09_ascending {s : State} (start : Nat) (t : T) (lo hi : Option Stem) (lru : Bytes) (path : Nat)
    (ho : OrdT s t lo hi) (hw : AllWf s t) :
    ((t.weInorder s start lru path).map (·.2.1)).Pairwise (fun a b => lexLt a b = true) :=
  weInorder_sorted start t lo hi lru path ho hw

/-- every item of the walk can serve as a resume point: its path number is unique in the walk and
    `follow_path` leads back to exactly its LRU (no traversal exception for a token the index issued) -/
theorem C09_token_denotes {s : State} {a : Nat} {l c r : T} (hr : Rep s (.node a l c r)) (lru : Bytes)
    {b : Nat} {cur : Bytes} {p : Nat} (h : (b, cur, p) ∈ (T.node a l c r).weInorder s a lru 0) :
    s.followPath (if p = 0 then [] else intToBase4 p) a lru = some cur := followPath_weInorder hr lru h

theorem C09_paths_distinct {s : State} (start : Nat) (t : T) (lru : Bytes) (path : Nat) :
    ((t.weInorder s start lru path).map (·.2.2)).Nodup := weInorder_paths_nodup start t lru path

/-- RESUME: feeding back the token of item `(b0, cur0, p0)` yields exactly the items of the un-paginated
    walk that sort after it — the pruning by `can_follow_path` never drops a later item, the strict
    comparison never repeats an earlier one -/
theorem C09_resume {s : State} {a : Nat} {l c r : T} {lo hi : Option Stem}
    (hr : Rep s (.node a l c r)) (ho : OrdT s (.node a l c r) lo hi) (hw : AllWf s (.node a l c r))
    (hsz : (T.node a l c r).size ≤ s.trie.size) (startLru : Bytes) {b0 : Nat} {cur0 : Bytes} {p0 : Nat}
    (hmem : (b0, cur0, p0) ∈ (T.node a l c r).weInorder s a (lruDirname startLru) 0) :
    s.weInorder a startLru (some p0)
      = some (((T.node a l c r).weInorder s a (lruDirname startLru) 0).filter (fun it => lexLt cur0 it.2.1)) :=
  weInorder_resume hr ho hw hsz startLru hmem

/-- nothing repeated, nothing skipped: the un-paginated walk is (items before the token's) ++ token's item
    ++ (the resumed walk) -/
theorem C09_no_repeat_no_skip {s : State} {a : Nat} {l c r : T} {lo hi : Option Stem}
    (hr : Rep s (.node a l c r)) (ho : OrdT s (.node a l c r) lo hi) (hw : AllWf s (.node a l c r))
    (lru : Bytes) {b0 : Nat} {cur0 : Bytes} {p0 : Nat}
    (hmem : (b0, cur0, p0) ∈ (T.node a l c r).weInorder s a lru 0) (fuel : Nat) (hf : (T.node a l c r).height ≤ fuel) :
    ∃ pre, (T.node a l c r).weInorder s a lru 0
        = pre ++ (b0, cur0, p0) :: s.inorderGo a (some (if p0 = 0 then [] else intToBase4 p0, cur0)) fuel a lru 0 ∧
      ∀ it ∈ pre, lexLt it.2.1 cur0 = true :=
  resume_no_repeat_no_skip hr ho hw lru hmem fuel hf

example : parseToken (buildToken 3 (([2, 1, 3] : List Nat).foldl base4Append 0)) = some (3, 39) := by decide

section Episodes
open Traph State Pag
/-! ### the request itself: whole episodes, every reachable state (Proofs/PagGeneric, PagWalk, PagApi, PagLater) -/

/-- THE PROPERTY at the API level: in every reachable state, for every prefix list, crawled-only switch and count ≥ 1, the chunks of an episode concatenate to the in-order page sequence, a rearrangement of the unpaginated answer; ascending within each prefix; every non-final chunk has exactly `count` pages and a token, the last says done; resumable at any item -/
theorem C09_episode (cfg : Config) (dflt : Rule) (rules : List (Bytes × Rule)) (ops : List Op)
    (hrules : ∀ ar ∈ rules, lruIter ar.1 ≠ [])
    (hop : ∀ op ∈ ops, ∀ d rs, op ≠ .clear d rs) (hwf : ∀ op ∈ ops, OpWf op)
    (hok : NoKeyErr (State.fresh cfg dflt rules []).1 ops)
    (s : State) (hs : s = (State.fresh cfg dflt rules []).1.run ops)
    (ps : List Bytes) (all : List (Bytes × Bool)) (hall : s.webentityPages ps = .ok all)
    (crawledOnly : Bool) (count : Nat) (hc : 1 ≤ count) :
    (∃ chunks : List PageChunk,
      PageEpisode s ps crawledOnly count none chunks ∧
      episodePages s ps crawledOnly count ((pageSeq s ps crawledOnly).length / count + 1) none = some chunks ∧
      chunks.flatMap (·.pages) = ps.flatMap (pagesOfPrefix s crawledOnly) ∧
      (ps.flatMap (pagesOfPrefix s crawledOnly)).Perm (if crawledOnly then all.filter (·.2) else all) ∧
      (∀ ch ∈ chunks, ch.count = ch.pages.length ∧ ch.crawled = crawledCount ch.pages) ∧
      (∀ ch ∈ chunks.dropLast, ch.done = false ∧ ch.pages.length = count ∧ ch.token.isSome = true) ∧
      (∃ l, chunks.getLast? = some l ∧ l.done = true ∧ l.token = none ∧ l.pages.length ≤ count)) ∧
    (∀ p ∈ ps, ((pagesOfPrefix s crawledOnly p).map (·.1)).Pairwise (fun a b => lexLt a b = true)) ∧
    (∀ pre x post, gItems s (enumFrom 0 ps) = pre ++ x :: post → ∀ count', 1 ≤ count' →
      ∃ chunks, PageEpisode s ps crawledOnly count' (some (buildToken x.1 x.2.2.2)) chunks ∧
        chunks.flatMap (·.pages) = post.flatMap (fun y => pgOut s crawledOnly (y.2.1, y.2.2.1))) :=
  Traph.C09_reachable cfg dflt rules ops hrules hop hwf hok s hs ps all hall crawledOnly count hc

/-- issued tokens are tokens of items of the walk -/
theorem C09_issued_tokens {s : State} {t : T} (h : Shape s t) (hi : Inv s t) {ps : List Bytes}
    {all : List (Bytes × Bool)} (hall : s.webentityPages ps = .ok all) (crawledOnly : Bool)
    (count : Nat) (hc : 1 ≤ count)
    {chunks : List PageChunk} (hep : PageEpisode s ps crawledOnly count none chunks)
    {ch : PageChunk} (hch : ch ∈ chunks) {tk : Bytes} (htk : ch.token = some tk) :
    ∃ pre x post, gItems s (enumFrom 0 ps) = pre ++ x :: post ∧ (s.cell x.2.1).flags.page = true ∧
      tk = buildToken x.1 x.2.2.2 :=
  Traph.C09_issued_tokens h hi hall crawledOnly count hc hep hch htk

/-- a token issued before, fed back after any `clear`-free history of writes (pages inserted between two calls), still resumes with exactly the current pages sorting after it -/
theorem C09_resume_after_run {s : State} {t : T} (h : Shape s t) (hi : Inv s t) (hlive : Live s)
    (ops : List Op) (hop : ∀ op ∈ ops, ∀ d rs, op ≠ .clear d rs) (hwf : ∀ op ∈ ops, OpWf op)
    (hok : NoKeyErr s ops) {ps : List Bytes} {all : List (Bytes × Bool)}
    (hall : s.webentityPages ps = .ok all) (crawledOnly : Bool) (count : Nat) (hc : 1 ≤ count)
    (pre : List GX) (x : GX) (post : List GX) (hG : gItems s (enumFrom 0 ps) = pre ++ x :: post) :
    ∃ p tl chunks, ps.drop x.1 = p :: tl ∧
      PageEpisode (s.run ops) ps crawledOnly count (some (buildToken x.1 x.2.2.2)) chunks ∧
      chunks.flatMap (·.pages)
        = ((walkOf (s.run ops) p).filter (fun y => lexLt x.2.2.1 y.2.1)).flatMap
            (fun it => pgOut (s.run ops) crawledOnly (it.1, it.2.1))
          ++ tl.flatMap (pagesOfPrefix (s.run ops) crawledOnly) ∧
      (∀ ch ∈ chunks.dropLast, ch.pages.length = count) :=
  Traph.C09_resume_after_run h hi hlive ops hop hwf hok hall crawledOnly count hc pre x post hG

end Episodes

section EveryHistory
open Traph State Pag Layout
/-! ### every history (Proofs/Discipline, SinceClear, ReachableAll, HeadlinesAll) -/

/-- EVERY HISTORY, `clear` and `reopen` included, no request assumed away: the only hypotheses are that byte strings cut into at least one stem (`OpWf`), rule anchors are whole LRUs (`rulesCanonical`, `Canon`) and the caller re-supplies on `reopen` the rules the index carries, as the API requires (`Disciplined`); `clear` acts as a reset (`sinceClear`).  -/
theorem C09_all {s : State} (hs : Reachable s)
    (ps : List Bytes) (all : List (Bytes × Bool)) (hall : s.webentityPages ps = .ok all)
    (crawledOnly : Bool) (count : Nat) (hc : 1 ≤ count) :
    (∃ chunks : List PageChunk,
      PageEpisode s ps crawledOnly count none chunks ∧
      episodePages s ps crawledOnly count ((pageSeq s ps crawledOnly).length / count + 1) none = some chunks ∧
      chunks.flatMap (·.pages) = ps.flatMap (pagesOfPrefix s crawledOnly) ∧
      (ps.flatMap (pagesOfPrefix s crawledOnly)).Perm (if crawledOnly then all.filter (·.2) else all) ∧
      (∀ ch ∈ chunks, ch.count = ch.pages.length ∧ ch.crawled = crawledCount ch.pages) ∧
      (∀ ch ∈ chunks.dropLast, ch.done = false ∧ ch.pages.length = count ∧ ch.token.isSome = true) ∧
      (∃ l, chunks.getLast? = some l ∧ l.done = true ∧ l.token = none ∧ l.pages.length ≤ count)) ∧
    (∀ p ∈ ps, ((pagesOfPrefix s crawledOnly p).map (·.1)).Pairwise (fun a b => lexLt a b = true)) ∧
    (∀ pre x post, gItems s (enumFrom 0 ps) = pre ++ x :: post → ∀ count', 1 ≤ count' →
      ∃ chunks, PageEpisode s ps crawledOnly count' (some (buildToken x.1 x.2.2.2)) chunks ∧
        chunks.flatMap (·.pages) = post.flatMap (fun y => pgOut s crawledOnly (y.2.1, y.2.2.1))) :=
  Traph.C09_all hs ps all hall crawledOnly count hc

end EveryHistory

end Traph.Props

import Proofs.Tokens
/-! C09 — page pagination: token text round-trips for every (prefix index, path); paths built from
    L/C/R steps are injective and read back digit by digit. (The traversal theorems are in progress —
    see DESIGN §7 C09.) -/
namespace Traph.Props
open Traph

/-- tokens round-trip through their text encoding for every (prefix index, path) -/
theorem C09_token_roundtrip (i path : Nat) : parseToken (buildToken i path) = some (i, path) :=
  parseToken_buildToken i path

/-- a path is the base-4 number of its L/C/R steps (digits 1–3), and `int_to_base4` reads the steps back -/
theorem C09_path_digits (ops : List Nat) (h : ∀ d ∈ ops, d = 1 ∨ d = 2 ∨ d = 3) (hne : ops ≠ []) :
    intToBase4 (ops.foldl base4Append 0) = ops.map digitChar := intToBase4_path ops h hne

/-- two different step sequences never share a path number: a token denotes one tree position -/
theorem C09_path_injective (o₁ o₂ : List Nat) (h₁ : ∀ d ∈ o₁, d = 1 ∨ d = 2 ∨ d = 3)
    (h₂ : ∀ d ∈ o₂, d = 1 ∨ d = 2 ∨ d = 3) : o₁.foldl base4Append 0 = o₂.foldl base4Append 0 → o₁ = o₂ :=
  path_injective o₁ o₂ h₁ h₂

example : parseToken (buildToken 3 (([2, 1, 3] : List Nat).foldl base4Append 0)) = some (3, 39) := by decide

end Traph.Props

import Proofs.Codec
import Proofs.Chunks
import Proofs.FrameOps
import Proofs.DescendSpec
import Proofs.Traverse
import Proofs.Windup
import Proofs.KnownRun
import Proofs.HeadlinesAll
/-! C02 — stored LRUs read back byte-identical, any stem length; locate / wind up / traverse agree in every
    reachable state; and (history level, Proofs/Known*) an LRU can be located iff it is a non-empty
    stem-prefix of an LRU named by an earlier write request or of a constructor-rule anchor
    (`C02_known`, `C02_known_locate`, with `clear` as a reset: `C02_known_since`). "Named" is computed
    from the request and its own write report (`State.named`): its argument LRUs plus the prefixes the
    report announces for automatically created webentities. -/
namespace Traph.Props
open Traph State

/-- a well-formed block survives `struct.pack`/`unpack` -/
theorem C02_bytes_cell (c : Cell) (h : c.Wf) : decodeCell (encodeCell c) = c := decodeCell_encodeCell c h

/-- a stem of any length (1 … several blocks, including exact multiples of the payload) is read back
    byte-identical from the blocks `write()` produced -/
theorem C02_bytes_stem (s : State) (stem : Bytes) (parent : Nat) (canHave : Bool) :
    (s.writeNew stem parent canHave).1.stemAt s.trie.size = stem := stemAt_writeNew' s stem parent canHave

/-- …and occupies exactly `⌈len/74⌉` blocks (1 for short stems) -/
theorem C02_blocks (s : State) (stem : Bytes) (parent : Nat) (canHave : Bool) :
    (s.writeNew stem parent canHave).1.trie.size = s.trie.size + blocksFor stem := writeNew_size s stem parent canHave

/-- inserting a new node leaves the stem of every existing node as it was (no tail chain is open at
    the end of the store) -/
theorem C02_old_stems (s : State) (stem : Bytes) (p : Nat) (c : Bool) (i : Nat) (hi : i < s.trie.size)
    (hlast : (s.cell (s.trie.size - 1)).flags.hasTail = false) :
    (s.writeNew stem p c).1.stemAt i = s.stemAt i := stemAt_writeNew_other s stem p c i hi hlast

/-- `add_lru` never moves or rewrites the stem bytes, the parent pointer or a set tree pointer of an
    existing block (heap order) and returns an existing block -/
theorem C02_addLru_monotone (s : State) (stems : LRU) (flag : Bool) (h0 : 0 < s.trie.size) (hne : stems ≠ []) :
    s ⊑ (s.addLru stems flag).1 ∧ (s.addLru stems flag).2.1 < (s.addLru stems flag).1.trie.size :=
  addLru_le s stems flag h0 hne

/-! #### the three access paths agree (for every state satisfying the shape invariant `Shape`, which
     `add_lru` preserves — Proofs/Insert) -/

/-- top-down look-up finds exactly the LRUs of the finite map denoted by the tree, at their block -/
theorem C02_locate {s : State} {t : T} (h : Shape s t) (stems : LRU) (hne : stems ≠ []) (b : Nat) :
    s.lruNode stems = some b ↔ (stems, b) ∈ t.entries s [] := lruNode_iff_entries h stems hne b

/-- no LRU is stored twice: a path determines its block -/
theorem C02_no_duplicates {s : State} {t : T} (h : Shape s t) (p : LRU) (b₁ b₂ : Nat)
    (h₁ : (p, b₁) ∈ t.entries s []) (h₂ : (p, b₂) ∈ t.entries s []) : b₁ = b₂ :=
  entries_path_injective h.ord h.nodup h₁ h₂

/-- the full traversal is the structural pre-order of the tree: it meets every node exactly once… -/
theorem C02_traversal {s : State} {t : T} (h : Shape s t) :
    s.dfsIter none false = t.pre s [] ∧ ((s.dfsIter none false).map (·.1)).Nodup ∧
    ∀ a, a ∈ (s.dfsIter none false).map (·.1) ↔ a ∈ t.addrs :=
  ⟨dfsIter_root h, dfsIter_nodup h, dfsIter_mem h⟩

/-- …and the blocks it meets are exactly the blocks of the finite map -/
theorem C02_traversal_covers_map {s : State} {t : T} (_h : Shape s t) :
    ((t.entries s []).map (·.2)).Perm t.addrs := entries_addrs_perm t []

/-- bottom-up reconstruction from the located entry agrees byte for byte with the path -/
theorem C02_windup {s : State} {t : T} (h : Shape s t) (hp : ParOk s t 0) {p : LRU} {b : Nat}
    (hb : (p, b) ∈ t.entries s []) : s.windup b = p.flatten := windup_eq h hp hb

/-- and right after an insertion: the block `add_lru` returns winds up to the inserted LRU -/
theorem C02_insert_then_windup {s : State} {t : T} (h : Shape s t) (hp : ParOk s t 0) (stems : LRU) (hne : stems ≠ [])
    (flag : Bool) : (s.addLru stems flag).1.windup (s.addLru stems flag).2.1 = stems.flatten :=
  (addLru_windup h hp stems hne flag).1

/-- `add_lru` preserves the invariant, returns the block of the LRU, adds exactly its missing
    stem-prefixes (at fresh blocks) and keeps every old entry and stem -/
theorem C02_inv {s : State} {t : T} (h : Shape s t) (stems : LRU) (flag : Bool) (hne : stems ≠ []) :
    let s' := (s.addLru stems flag).1
    let n  := (s.addLru stems flag).2.1
    ∃ t', Shape s' t' ∧ (stems, n) ∈ t'.entries s' [] ∧
      (∀ p b, (p, b) ∈ t.entries s [] → (p, b) ∈ t'.entries s' []) ∧
      (∀ p b, (p, b) ∈ t'.entries s' [] → (p, b) ∈ t.entries s [] ∨
          (s.trie.size ≤ b ∧ ∃ k, 0 < k ∧ k ≤ stems.length ∧ p = stems.take k)) ∧
      (∀ a, a < s.trie.size → s'.stemAt a = s.stemAt a) := addLru_shape h stems flag hne

theorem C02_inv_init : Shape ({} : State) .nil := shape_init

/-- non-vacuity: lengths 74, 75, 148, 149 are instances, not cases -/
example : ∀ n ∈ [1, 73, 74, 75, 147, 148, 149, 222, 223], blocksFor (List.replicate n 65) = (n + 73) / 74 := by decide

/-- HISTORY LEVEL: on a fresh index, after any history of writes (no `clear`; `NoKeyErr`: no request aborted
    by the library's KeyError mid-way), the stored LRUs are exactly the non-empty stem-prefixes of the
    constructor-rule anchors and of the LRUs named by the requests; the accounting and shape invariants hold -/
theorem C02_known (cfg : Config) (dflt : Rule) (rules : List (Bytes × Rule)) (ops : List Op)
    (hop : ∀ op ∈ ops, ∀ d rs, op ≠ .clear d rs)
    (hok : NoKeyErr (State.fresh cfg dflt rules []).1 ops) :
    ∃ t, Good ((State.fresh cfg dflt rules []).1.run ops) t ∧
      ∀ p, Known ((State.fresh cfg dflt rules []).1.run ops) t p ↔
        Covered (anchors rules ++ (State.fresh cfg dflt rules []).1.namedRun ops) p :=
  Traph.C02_known cfg dflt rules ops hop hok

/-- the same through the library's own look-up (`lru_node`), no ghost tree in the statement -/
theorem C02_known_locate (cfg : Config) (dflt : Rule) (rules : List (Bytes × Rule)) (ops : List Op)
    (hop : ∀ op ∈ ops, ∀ d rs, op ≠ .clear d rs)
    (hok : NoKeyErr (State.fresh cfg dflt rules []).1 ops) (p : LRU) (hp : p ≠ []) :
    (∃ b, ((State.fresh cfg dflt rules []).1.run ops).lruNode p = some b) ↔
      ∃ l ∈ anchors rules ++ (State.fresh cfg dflt rules []).1.namedRun ops, p <+: l :=
  C02_known_lruNode cfg dflt rules ops hop hok p hp

/-- shape, accounting and stem well-formedness hold in EVERY reachable state, aborted requests and `clear`
    included (no hypothesis on the history) -/
theorem C02_good_always (cfg : Config) (dflt : Rule) (rules : List (Bytes × Rule)) (ops : List Op) :
    ∃ t, Good ((State.fresh cfg dflt rules []).1.run ops) t := good_run_any cfg dflt rules ops

section EveryHistory
open Traph State Pag Layout
/-! ### every history (Proofs/Discipline, SinceClear, ReachableAll, HeadlinesAll) -/

/-- EVERY HISTORY, `clear` and `reopen` included, no request assumed away: the only hypotheses are that byte strings cut into at least one stem (`OpWf`), rule anchors are whole LRUs (`rulesCanonical`, `Canon`) and the caller re-supplies on `reopen` the rules the index carries, as the API requires (`Disciplined`); `clear` acts as a reset (`sinceClear`).  -/
theorem C02_known_all (cfg : Config) (dflt : Rule) (rules : List (Bytes × Rule)) (ops : List Op)
    (hr : rulesCanonical rules) (hd : Disciplined (State.fresh cfg dflt rules []).1 ops) :
    ∃ t, Good ((State.fresh cfg dflt rules []).1.run ops) t ∧
      ∀ p, Known ((State.fresh cfg dflt rules []).1.run ops) t p ↔
        Covered ((State.fresh cfg dflt rules []).1.namedSince (anchors rules) ops) p :=
  Traph.C02_known_all cfg dflt rules ops hr hd

end EveryHistory

end Traph.Props

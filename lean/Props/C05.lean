import Proofs.ForPrefixes
/-! C05 — webentity page sets. Proved so far: the answer is, prefix by prefix in the given order, the
    pages met by the webentity walk of that prefix with their current crawled marks; the crawled-only
    variant is exactly the filter by the mark; an unknown prefix is refused with the library's own
    error. That the walk from prefix `p` meets page `x` iff `p` is the longest attached prefix of `x`
    (partition) is under construction in Proofs/Shape*. -/
namespace Traph.Props
open Traph State

theorem C05_pages_sound (s : State) (ps : List Bytes) (l : List (Bytes × Bool)) (h : s.webentityPages ps = .ok l)
    (x : Bytes × Bool) :
    x ∈ l ↔ ∃ p ∈ ps, ∃ n, s.lruNode (lruIter p) = some n ∧
      ∃ bl ∈ s.weDfs n p none, (s.cell bl.1).flags.page = true ∧ x = (bl.2, (s.cell bl.1).flags.crawled) := by
  unfold webentityPages at h
  rw [forPrefixes_mem s ps _ l h]
  constructor
  · rintro ⟨p, hp, n, hn, hx⟩
    simp only [List.mem_map, List.mem_filter] at hx
    obtain ⟨bl, ⟨hbl, hpg⟩, rfl⟩ := hx
    exact ⟨p, hp, n, hn, bl, hbl, hpg, rfl⟩
  · rintro ⟨p, hp, n, hn, bl, hbl, hpg, rfl⟩
    exact ⟨p, hp, n, hn, by simp only [List.mem_map, List.mem_filter]; exact ⟨bl, ⟨hbl, hpg⟩, rfl⟩⟩

/-- the crawled-only variant is the same answer filtered by the page's crawled mark -/
theorem C05_crawled_is_filter (s : State) (ps : List Bytes) :
    s.webentityCrawledPages ps = (s.webentityPages ps).map (fun l => l.filter (·.2)) := rfl

theorem C05_unknown_prefix (s : State) (ps : List Bytes) (e : Err) (h : s.webentityPages ps = .error e) :
    e = .traph ∧ ∃ p ∈ ps, s.lruNode (lruIter p) = none := forPrefixes_err s ps _ e h

end Traph.Props

import Proofs.ForPrefixes
import Proofs.Resolve
import Proofs.PagesApi
import Proofs.HeadlinesAll
/-! C05 — webentity page sets, in full (Proofs/PagesApi): in every reachable state, asking webentity `w`
    with its full current prefix list (`FullPrefixList`: any order, the list `webentity_prefix_iter` yields
    qualifies, `C05_prefix_list_exists`) answers exactly the indexed pages whose resolution is `w`, with
    their current crawled marks (`C05_partition`); each page once when no prefix is given twice, and in
    general as many times as its defining prefix was given (`C05_count_law`); a page listed under `w` is
    listed under no other webentity, a page without webentity under none; pages below a nested webentity's
    prefix are excluded (`C05_nested`); the crawled-only answer is the filter by the mark (`C05_crawled`).
    The per-prefix walk lemmas the proof is built from are kept below. -/
namespace Traph.Props
open Traph State

theorem C05_pages_sound (s : State) (ps : List Bytes) (l : List (Bytes × Bool)) (h : s.webentityPages ps = .ok l)
    (x : Bytes × Bool) :
    x ∈ l ↔ ∃ p ∈ ps, ∃ n, s.lruNode (lruIter p) = some n ∧
      ∃ bl ∈ s.weDfs n p none, (s.cell bl.1).flags.page = true ∧ x = (bl.2, (s.cell bl.1).flags.crawled) := by
  unfold webentityPages at h
  rw [forPrefixes_mem s ps _ l h]
  constructor
  · rintro ⟨p, hp, n, hn, hx⟩
    simp only [List.mem_map, List.mem_filter] at hx
    obtain ⟨bl, ⟨hbl, hpg⟩, rfl⟩ := hx
    exact ⟨p, hp, n, hn, bl, hbl, hpg, rfl⟩
  · rintro ⟨p, hp, n, hn, bl, hbl, hpg, rfl⟩
    exact ⟨p, hp, n, hn, by simp only [List.mem_map, List.mem_filter]; exact ⟨bl, ⟨hbl, hpg⟩, rfl⟩⟩

/-- the crawled-only variant is the same answer filtered by the page's crawled mark -/
theorem C05_crawled_is_filter (s : State) (ps : List Bytes) :
    s.webentityCrawledPages ps = (s.webentityPages ps).map (fun l => l.filter (·.2)) := rfl

theorem C05_unknown_prefix (s : State) (ps : List Bytes) (e : Err) (h : s.webentityPages ps = .error e) :
    e = .traph ∧ ∃ p ∈ ps, s.lruNode (lruIter p) = none := forPrefixes_err s ps _ e h

/-- PARTITION CORE: the walk started at a prefix node meets a block below it iff no cell on the way from
    just below the prefix down to that block (inclusive) carries a webentity — i.e. iff the prefix is
    the longest attached prefix of that block's LRU; the LRU it reports is the block's own -/
theorem C05_walk_exact {s : State} {a : Nat} {l c r : T} (hr : Rep s (.node a l c r))
    (hsz : (T.node a l c r).size ≤ s.trie.size) {lo hi : Option Stem} (hord : OrdT s (.node a l c r) lo hi)
    (hnd : (T.node a l c r).addrs.Nodup) (startLru : Bytes) (b : Nat) (lru : Bytes) :
    (b, lru) ∈ s.weDfs a startLru none ↔
      (b = a ∧ lru = lruDirname startLru ++ s.stemAt a) ∨
      ∃ q, q ≠ [] ∧ (q, b) ∈ c.entries s [] ∧ lru = lruDirname startLru ++ s.stemAt a ++ q.flatten ∧
        (∀ k, 0 < k → k ≤ q.length → ∀ b', (q.take k, b') ∈ c.entries s [] → (s.cell b').we = 0) :=
  weDfs_mem_iff hr hsz hord hnd startLru b lru

/-- pages below a nested webentity's prefix are excluded from the enclosing one: a block is met iff the
    resolution of its path below the start node is "none" -/
theorem C05_nested_excluded {s : State} {a : Nat} {l c r : T} {lo hi : Option Stem}
    (hord : OrdT s (.node a l c r) lo hi) (hnd : (T.node a l c r).addrs.Nodup) (lru0 : Bytes)
    {q : LRU} {b : Nat} (hq : (q, b) ∈ c.entries s []) :
    (∃ lru, (b, lru) ∈ (T.node a l c r).wePre s a lru0) ↔ c.resolveAlong s q 0 = 0 :=
  C05_walk_is_resolution' hord hnd lru0 hq

/-- THE PROPERTY, for every reachable state (any history of writes from a fresh index, any rules, any
    configuration; `NoKeyErr` names the requests the library itself aborts with KeyError mid-way) and every
    webentity `w` asked with a full prefix list `ps` in any order -/
theorem C05_partition (cfg : Config) (dflt : Rule) (rules : List (Bytes × Rule)) (ops : List Op)
    (hrules : ∀ ar ∈ rules, lruIter ar.1 ≠ [])
    (hop : ∀ op ∈ ops, ∀ d rs, op ≠ .clear d rs) (hwf : ∀ op ∈ ops, OpWf op)
    (hok : NoKeyErr (State.fresh cfg dflt rules []).1 ops)
    (s : State) (hs : s = (State.fresh cfg dflt rules []).1.run ops) :
    ∃ t, Shape s t ∧ Inv s t ∧
      (∀ w ps, FullPrefixList s w ps →
        ∃ l, s.webentityPages ps = .ok l ∧
          (∀ lru c, (lru, c) ∈ l ↔
            lru = (lruIter lru).flatten ∧ IsPage s t (lruIter lru) ∧ s.retrieveWebentity lru = .ok w ∧
              (c = true ↔ IsCrawled s t (lruIter lru))) ∧
          ((ps.map lruIter).Nodup → (l.map (·.1)).Nodup) ∧
          (∀ lru c, (lru, c) ∈ l → ∃ P, P <+: lruIter lru ∧ IsPrefixOf s w P ∧
            (l.map (·.1)).count lru = (ps.map lruIter).count P) ∧
          (∀ X, IsPage s t X → s.retrieveWebentity X.flatten = .ok w → ∃ c, (X.flatten, c) ∈ l) ∧
          (∀ lru c, (lru, c) ∈ l → ∀ w' ps' l', FullPrefixList s w' ps' → s.webentityPages ps' = .ok l' →
            (∃ c', (lru, c') ∈ l') → w' = w) ∧
          (∀ lru e, s.retrieveWebentity lru = .error e → ∀ c, (lru, c) ∉ l) ∧
          s.webentityCrawledPages ps = .ok (l.filter (·.2)) ∧
          (∀ lru c, (lru, c) ∈ l.filter (·.2) ↔
            c = true ∧ lru = (lruIter lru).flatten ∧ IsCrawled s t (lruIter lru) ∧
              s.retrieveWebentity lru = .ok w)) ∧
      (∀ w, w ≠ 0 → FullPrefixList s w (prefixesOf s w) ∧ ((prefixesOf s w).map lruIter).Nodup) :=
  C05_reachable cfg dflt rules ops hrules hop hwf hok s hs

/-- the same with no ghost tree in the statement: membership is phrased with the model's own
    `lru_node`, block flags and `retrieve_webentity` -/
theorem C05_partition_model (cfg : Config) (dflt : Rule) (rules : List (Bytes × Rule)) (ops : List Op)
    (hrules : ∀ ar ∈ rules, lruIter ar.1 ≠ [])
    (hop : ∀ op ∈ ops, ∀ d rs, op ≠ .clear d rs) (hwf : ∀ op ∈ ops, OpWf op)
    (hok : NoKeyErr (State.fresh cfg dflt rules []).1 ops)
    (s : State) (hs : s = (State.fresh cfg dflt rules []).1.run ops)
    (w : Nat) (ps : List Bytes) (hf : FullPrefixList s w ps) :
    ∃ l, s.webentityPages ps = .ok l ∧
      (∀ lru c, (lru, c) ∈ l ↔
        lru = (lruIter lru).flatten ∧ s.retrieveWebentity lru = .ok w ∧
          ∃ b, s.lruNode (lruIter lru) = some b ∧ (s.cell b).flags.page = true ∧
            c = (s.cell b).flags.crawled) ∧
      ((ps.map lruIter).Nodup → (l.map (·.1)).Nodup) ∧
      s.webentityCrawledPages ps = .ok (l.filter (·.2)) :=
  C05_reachable_model cfg dflt rules ops hrules hop hwf hok s hs w ps hf

/-- pages below a nested webentity's prefix are excluded from the enclosing one: if a listed page lies
    below a prefix `Q` of another webentity `v`, then some prefix of `w` lies between `Q` and the page -/
theorem C05_nested {s : State} {t : T} (h : Shape s t) (hi : Inv s t) {w : Nat} {ps : List Bytes}
    (hf : FullPrefixList s w ps) {l : List (Bytes × Bool)} (hl : s.webentityPages ps = .ok l)
    {lru : Bytes} {c : Bool} (hm : (lru, c) ∈ l) {v : Nat} (hv : v ≠ 0) {Q : LRU}
    (hQ : IsPrefixOf s v Q) (hQX : Q <+: lruIter lru) :
    ∃ P, IsPrefixOf s w P ∧ Q <+: P ∧ P <+: lruIter lru :=
  Traph.C05_nested h hi hf hl hm hv hQ hQX

section EveryHistory
open Traph State Pag Layout
/-! ### every history (Proofs/Discipline, SinceClear, ReachableAll, HeadlinesAll) -/

/-- EVERY HISTORY, `clear` and `reopen` included, no request assumed away: the only hypotheses are that byte strings cut into at least one stem (`OpWf`), rule anchors are whole LRUs (`rulesCanonical`, `Canon`) and the caller re-supplies on `reopen` the rules the index carries, as the API requires (`Disciplined`); `clear` acts as a reset (`sinceClear`).  -/
theorem C05_all {s : State} (hs : Reachable s) :
    ∃ t, Shape s t ∧ Inv s t ∧
      (∀ w ps, FullPrefixList s w ps →
        ∃ l, s.webentityPages ps = .ok l ∧
          (∀ lru c, (lru, c) ∈ l ↔
            lru = (lruIter lru).flatten ∧ IsPage s t (lruIter lru) ∧ s.retrieveWebentity lru = .ok w ∧
              (c = true ↔ IsCrawled s t (lruIter lru))) ∧
          ((ps.map lruIter).Nodup → (l.map (·.1)).Nodup) ∧
          (∀ lru c, (lru, c) ∈ l → ∃ P, P <+: lruIter lru ∧ IsPrefixOf s w P ∧
            (l.map (·.1)).count lru = (ps.map lruIter).count P) ∧
          (∀ X, IsPage s t X → s.retrieveWebentity X.flatten = .ok w → ∃ c, (X.flatten, c) ∈ l) ∧
          (∀ lru c, (lru, c) ∈ l → ∀ w' ps' l', FullPrefixList s w' ps' → s.webentityPages ps' = .ok l' →
            (∃ c', (lru, c') ∈ l') → w' = w) ∧
          (∀ lru e, s.retrieveWebentity lru = .error e → ∀ c, (lru, c) ∉ l) ∧
          s.webentityCrawledPages ps = .ok (l.filter (·.2)) ∧
          (∀ lru c, (lru, c) ∈ l.filter (·.2) ↔
            c = true ∧ lru = (lruIter lru).flatten ∧ IsCrawled s t (lruIter lru) ∧
              s.retrieveWebentity lru = .ok w)) ∧
      (∀ w, w ≠ 0 → FullPrefixList s w (prefixesOf s w) ∧ ((prefixesOf s w).map lruIter).Nodup) :=
  Traph.C05_all hs

end EveryHistory

end Traph.Props

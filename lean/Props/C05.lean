import Proofs.ForPrefixes
import Proofs.Resolve
/-! C05 — webentity page sets. Proved so far: the answer is, prefix by prefix in the given order, the
    pages met by the webentity walk of that prefix with their current crawled marks; the crawled-only
    variant is exactly the filter by the mark; an unknown prefix is refused with the library's own
    error. That the walk from prefix `p` meets page `x` iff `p` is the longest attached prefix of `x`
    (partition) is under construction in Proofs/Shape*. -/
namespace Traph.Props
open Traph State

theorem C05_pages_sound (s : State) (ps : List Bytes) (l : List (Bytes × Bool)) (h : s.webentityPages ps = .ok l)
    (x : Bytes × Bool) :
    x ∈ l ↔ ∃ p ∈ ps, ∃ n, s.lruNode (lruIter p) = some n ∧
      ∃ bl ∈ s.weDfs n p none, (s.cell bl.1).flags.page = true ∧ x = (bl.2, (s.cell bl.1).flags.crawled) := by
  unfold webentityPages at h
  rw [forPrefixes_mem s ps _ l h]
  constructor
  · rintro ⟨p, hp, n, hn, hx⟩
    simp only [List.mem_map, List.mem_filter] at hx
    obtain ⟨bl, ⟨hbl, hpg⟩, rfl⟩ := hx
    exact ⟨p, hp, n, hn, bl, hbl, hpg, rfl⟩
  · rintro ⟨p, hp, n, hn, bl, hbl, hpg, rfl⟩
    exact ⟨p, hp, n, hn, by simp only [List.mem_map, List.mem_filter]; exact ⟨bl, ⟨hbl, hpg⟩, rfl⟩⟩

/-- the crawled-only variant is the same answer filtered by the page's crawled mark -/
theorem C05_crawled_is_filter (s : State) (ps : List Bytes) :
    s.webentityCrawledPages ps = (s.webentityPages ps).map (fun l => l.filter (·.2)) := rfl

theorem C05_unknown_prefix (s : State) (ps : List Bytes) (e : Err) (h : s.webentityPages ps = .error e) :
    e = .traph ∧ ∃ p ∈ ps, s.lruNode (lruIter p) = none := forPrefixes_err s ps _ e h

/-- PARTITION CORE: the walk started at a prefix node meets a block below it iff no cell on the way from
    just below the prefix down to that block (inclusive) carries a webentity — i.e. iff the prefix is
    the longest attached prefix of that block's LRU; the LRU it reports is the block's own -/
theorem C05_walk_exact {s : State} {a : Nat} {l c r : T} (hr : Rep s (.node a l c r))
    (hsz : (T.node a l c r).size ≤ s.trie.size) {lo hi : Option Stem} (hord : OrdT s (.node a l c r) lo hi)
    (hnd : (T.node a l c r).addrs.Nodup) (startLru : Bytes) (b : Nat) (lru : Bytes) :
    (b, lru) ∈ s.weDfs a startLru none ↔
      (b = a ∧ lru = lruDirname startLru ++ s.stemAt a) ∨
      ∃ q, q ≠ [] ∧ (q, b) ∈ c.entries s [] ∧ lru = lruDirname startLru ++ s.stemAt a ++ q.flatten ∧
        (∀ k, 0 < k → k ≤ q.length → ∀ b', (q.take k, b') ∈ c.entries s [] → (s.cell b').we = 0) :=
  weDfs_mem_iff hr hsz hord hnd startLru b lru

/-- pages below a nested webentity's prefix are excluded from the enclosing one: a block is met iff the
    resolution of its path below the start node is "none" -/
theorem C05_nested_excluded {s : State} {a : Nat} {l c r : T} {lo hi : Option Stem}
    (hord : OrdT s (.node a l c r) lo hi) (hnd : (T.node a l c r).addrs.Nodup) (lru0 : Bytes)
    {q : LRU} {b : Nat} (hq : (q, b) ∈ c.entries s []) :
    (∃ lru, (b, lru) ∈ (T.node a l c r).wePre s a lru0) ↔ c.resolveAlong s q 0 = 0 :=
  C05_walk_is_resolution' hord hnd lru0 hq

end Traph.Props

import Proofs.Codec
import Proofs.Reopen
import Proofs.ReopenEverywhere
/-! C11 — close/reopen preserves everything; clear empties everything. The files *are* the state:
    decoding the two images returns the block arrays; both images are whole numbers of blocks; the
    model's `reopen` touches nothing but the RAM rules; `clear d rs` is literally a fresh index. -/
namespace Traph.Props
open Traph State

theorem C11_roundtrip_trie (s : State) (h : s.WfImage) :
    decodeTrieImage (encodeTrie s) = (s.hdrId, (({} : Cell) :: s.trie.toList.drop 1).toArray) :=
  decodeTrieImage_encodeTrie s h

theorem C11_roundtrip_links (s : State) (h : s.WfImage) :
    decodeLinksImage (encodeLinks s) = (({} : Stub) :: s.links.toList.drop 1).toArray :=
  decodeLinksImage_encodeLinks s h

/-- files are whole numbers of blocks -/
theorem C11_whole_blocks (s : State) (h : s.WfImage) :
    (encodeTrie s).length % Layout.trieBlock = 0 ∧ (encodeLinks s).length % Layout.linkBlock = 0 := by
  rw [encodeTrie_length s h, encodeLinks_length s h]
  exact ⟨Nat.mul_mod_left _ _, Nat.mul_mod_left _ _⟩

/-- reopening writes nothing: both stores and the id counter are exactly as they were -/
theorem C11_reopen_stores (s : State) (d : Rule) (rs : List (Bytes × Rule)) :
    (s.reopen d rs).trie = s.trie ∧ (s.reopen d rs).links = s.links ∧ (s.reopen d rs).hdrId = s.hdrId ∧
    (s.reopen d rs).log = s.log := ⟨rfl, rfl, rfl, rfl⟩

/-- any number of close/reopen cycles with the same rules is the same as one -/
theorem C11_reopen_idempotent (s : State) (d : Rule) (rs : List (Bytes × Rule)) :
    ((s.reopen d rs).reopen d rs) = s.reopen d rs := rfl

/-- clearing with both arguments yields exactly the index a fresh construction with them yields
    (up to the ghost write log, which continues) -/
theorem C11_clear_is_fresh (s : State) (d : Rule) (rs : List (Bytes × Rule)) :
    s.clear (some d) (some rs) = State.fresh s.cfg d rs s.log := rfl

/-- closing and reopening with the same rules re-supplied gives back the very same index state; hence a
    history with reopen requests inserted at any positions, any number of times, evolves exactly as the
    history without them -/
theorem C11_reopen_same (s : State) (h : (s.rules.map (·.1)).Nodup) : s.reopen s.dflt s.rules = s := reopen_same s h

theorem C11_reopen_anywhere (s : State) (h : (s.rules.map (·.1)).Nodup) (ops : List Op) :
    (s.reopen s.dflt s.rules).run ops = s.run ops := by rw [reopen_same s h]

example : (({} : State).reopen .domain []).trie.size = 1 := by decide

section Full
open Traph State Layout
/-! ### the property in full (Proofs/ObsEquiv*, ReopenEverywhere): observational equivalence `≃ₒ` = same files, id counter,
    configuration, default rule and the same rule CONTENT in RAM (order of the dict and the ghost log ignored) -/

/-- THE PROPERTY: take any history `ops` from any state `s` and insert close/reopen requests at any positions, any number of times, each re-supplying the same rule content as the index holds at that moment (in any order, repetitions allowed: `Reopened`). Then the final indexes are observationally equal, the answers of the original requests are the same, the storage writes are the same (a reopen writes nothing), both file images are byte-identical, and every read-only request answers the same -/
theorem C11_reopen_everywhere (s : State) (ops : List Op) (ops' : List (Bool × Op)) (hi : Reopened s ops ops') :
    s.run ops ≃ₒ s.run (oe_unmark ops') ∧
    s.oe_origAnswers ops' = s.transcript ops ∧
    s.oe_runWrites (oe_unmark ops') = s.oe_runWrites ops ∧
    (s.run (oe_unmark ops')).log = (s.run ops).log ∧
    encodeTrie (s.run (oe_unmark ops')) = encodeTrie (s.run ops) ∧
    encodeLinks (s.run (oe_unmark ops')) = encodeLinks (s.run ops) ∧
    ∀ q, (s.run (oe_unmark ops')).ask q = (s.run ops).ask q :=
  Traph.C11_reopen_everywhere s ops ops' hi

/-- …and the two indexes continue to evolve identically under any further requests (answers, writes, equivalence) -/
theorem C11_reopen_continues (s : State) (ops : List Op) (ops' : List (Bool × Op)) (hi : Reopened s ops ops')
    (more : List Op) :
    (s.run (oe_unmark ops')).transcript more = (s.run ops).transcript more ∧
    (s.run (oe_unmark ops')).oe_runWrites more = (s.run ops).oe_runWrites more ∧
    (s.run ops).run more ≃ₒ (s.run (oe_unmark ops')).run more :=
  Traph.C11_reopen_continues s ops ops' hi more

/-- both files are whole numbers of blocks — in EVERY state, no hypothesis (the encoders are fixed-width) -/
theorem C11_whole_blocks_always (s : State) :
    (encodeTrie s).length = s.trie.size * Layout.trieBlock ∧ (encodeLinks s).length = s.links.size * Layout.linkBlock ∧
    (encodeTrie s).length % Layout.trieBlock = 0 ∧ (encodeLinks s).length % Layout.linkBlock = 0 :=
  Traph.C11_whole_blocks_always s

/-- `clear` with rules given, inserted at any position: from then on the index is indistinguishable from a freshly created one holding those rules — same answer to the clear, same answers and writes afterwards, byte-identical files, same read-only answers -/
theorem C11_clear_everywhere (s : State) (pre post : List Op) (d : Option Rule) (rs : List (Bytes × Rule)) :
    let c := s.run pre
    let f := (State.fresh s.cfg (d.getD c.dflt) rs []).1
    (c.step (.clear d (some rs))).2 = Ans.ofExcept (fun _ => .unit) (State.fresh s.cfg (d.getD c.dflt) rs []).2 ∧
    f.run post ≃ₒ s.run (pre ++ .clear d (some rs) :: post) ∧
    (c.step (.clear d (some rs))).1.transcript post = f.transcript post ∧
    (c.step (.clear d (some rs))).1.oe_runWrites post = f.oe_runWrites post ∧
    encodeTrie (s.run (pre ++ .clear d (some rs) :: post)) = encodeTrie (f.run post) ∧
    encodeLinks (s.run (pre ++ .clear d (some rs) :: post)) = encodeLinks (f.run post) ∧
    ∀ q, (s.run (pre ++ .clear d (some rs) :: post)).ask q = (f.run post).ask q :=
  Traph.C11_clear_everywhere s pre post d rs

/-- `clear` WITHOUT rules keeps the RAM rule dict while the trie flags are gone (interpretation A-6): it is equivalent to a fresh index iff the dict was empty -/
theorem C11_clear_without_rules (s : State) (d : Option Rule) :
    (State.fresh s.cfg (d.getD s.dflt) [] []).1 ≃ₒ (s.clear d none).1 ↔ ∀ k, dictGet? s.rules k = none :=
  Traph.clear_none_equiv_iff s d

/-- in every reachable state, reopening with the very same rules is the identity and with any permutation of them an equivalence -/
theorem C11_reopen_reachable {s : State} (h : Reachable s) :
    s.reopen s.dflt s.rules = s ∧ ∀ rs, rs.Perm s.rules → s ≃ₒ s.reopen s.dflt rs :=
  Traph.C11_reopen_reachable h

end Full

end Traph.Props

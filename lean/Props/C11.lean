import Proofs.Codec
import Proofs.Reopen
/-! C11 — close/reopen preserves everything; clear empties everything. The files *are* the state:
    decoding the two images returns the block arrays; both images are whole numbers of blocks; the
    model's `reopen` touches nothing but the RAM rules; `clear d rs` is literally a fresh index. -/
namespace Traph.Props
open Traph State

theorem C11_roundtrip_trie (s : State) (h : s.WfImage) :
    decodeTrieImage (encodeTrie s) = (s.hdrId, (({} : Cell) :: s.trie.toList.drop 1).toArray) :=
  decodeTrieImage_encodeTrie s h

theorem C11_roundtrip_links (s : State) (h : s.WfImage) :
    decodeLinksImage (encodeLinks s) = (({} : Stub) :: s.links.toList.drop 1).toArray :=
  decodeLinksImage_encodeLinks s h

/-- files are whole numbers of blocks -/
theorem C11_whole_blocks (s : State) (h : s.WfImage) :
    (encodeTrie s).length % Layout.trieBlock = 0 ∧ (encodeLinks s).length % Layout.linkBlock = 0 := by
  rw [encodeTrie_length s h, encodeLinks_length s h]
  exact ⟨Nat.mul_mod_left _ _, Nat.mul_mod_left _ _⟩

/-- reopening writes nothing: both stores and the id counter are exactly as they were -/
theorem C11_reopen_stores (s : State) (d : Rule) (rs : List (Bytes × Rule)) :
    (s.reopen d rs).trie = s.trie ∧ (s.reopen d rs).links = s.links ∧ (s.reopen d rs).hdrId = s.hdrId ∧
    (s.reopen d rs).log = s.log := ⟨rfl, rfl, rfl, rfl⟩

/-- any number of close/reopen cycles with the same rules is the same as one -/
theorem C11_reopen_idempotent (s : State) (d : Rule) (rs : List (Bytes × Rule)) :
    ((s.reopen d rs).reopen d rs) = s.reopen d rs := rfl

/-- clearing with both arguments yields exactly the index a fresh construction with them yields
    (up to the ghost write log, which continues) -/
theorem C11_clear_is_fresh (s : State) (d : Rule) (rs : List (Bytes × Rule)) :
    s.clear (some d) (some rs) = State.fresh s.cfg d rs s.log := rfl

/-- closing and reopening with the same rules re-supplied gives back the very same index state; hence a
    history with reopen requests inserted at any positions, any number of times, evolves exactly as the
    history without them -/
theorem C11_reopen_same (s : State) (h : (s.rules.map (·.1)).Nodup) : s.reopen s.dflt s.rules = s := reopen_same s h

theorem C11_reopen_anywhere (s : State) (h : (s.rules.map (·.1)).Nodup) (ops : List Op) :
    (s.reopen s.dflt s.rules).run ops = s.run ops := by rw [reopen_same s h]

example : (({} : State).reopen .domain []).trie.size = 1 := by decide

end Traph.Props

import Proofs.PageSet
import Proofs.HeadlinesAll
/-! C01 — page set fidelity, in full: for every history of write requests (without `clear`, which starts a
    new index) on a fresh index with any constructor rules, over well-formed LRUs (each submitted byte
    string cuts into at least one stem), with the rules re-supplied as the API requires (no request
    aborts with KeyError):

    * the pages of the final state are exactly the LRUs submitted as pages — directly, as link ends, as
      crawl-batch sources and targets (`Op.pages`) — none lost, none invented (`C01_pages`);
    * `pages_iter` lists exactly their flattened byte strings, each once (`C01_pagesIter`);
    * a page is crawled only if some submission may mark it and is crawled if some submission must mark it
      (`C01_crawled`; reading A-1 of DESIGN §8 for `add_pages(crawled=False)`);
    * every write report counts exactly the distinct LRUs of the request that were not pages before
      (`C01_report`).

    Behind it: `Shape` (ghost tree represented, strict BST order on full stems, no duplicate block) is an
    invariant of every request (`C01_shape_invariant`), insertion returns *the* block of the LRU
    (Proofs/Insert), look-up finds it (Proofs/DescendSpec), the traversal meets every block once
    (Proofs/Traverse). Webentity, prefix and rule edits leave the page set alone (they are `Keeps` steps). -/
namespace Traph.Props
open Traph State

/-- the shape invariant holds in every reachable state -/
theorem C01_shape_invariant (cfg : Config) (dflt : Rule) (rules : List (Bytes × Rule)) (ops : List Op)
    (hop : ∀ op ∈ ops, ∀ d rs, op ≠ .clear d rs) :
    ∃ t, Shape ((State.fresh cfg dflt rules []).1.run ops) t := shape_run cfg dflt rules ops hop

/-- no page lost, none invented -/
theorem C01_pages (cfg : Config) (dflt : Rule) (rules : List (Bytes × Rule)) (ops : List Op)
    (hrules : ∀ ar ∈ rules, lruIter ar.1 ≠ [])
    (hop : ∀ op ∈ ops, ∀ d rs, op ≠ .clear d rs) (hwf : ∀ op ∈ ops, OpWf op)
    (hok : NoKeyErr (State.fresh cfg dflt rules []).1 ops) :
    ∃ t, Shape ((State.fresh cfg dflt rules []).1.run ops) t ∧
      ∀ p, IsPage ((State.fresh cfg dflt rules []).1.run ops) t p ↔ ∃ op ∈ ops, ∃ x ∈ op.pages, x.1 = p :=
  Traph.C01_pages cfg dflt rules ops hrules hop hwf hok

/-- the full page enumeration reports exactly the submitted LRUs, byte-identical, each once -/
theorem C01_enumeration (cfg : Config) (dflt : Rule) (rules : List (Bytes × Rule)) (ops : List Op)
    (hrules : ∀ ar ∈ rules, lruIter ar.1 ≠ [])
    (hop : ∀ op ∈ ops, ∀ d rs, op ≠ .clear d rs) (hwf : ∀ op ∈ ops, OpWf op)
    (hok : NoKeyErr (State.fresh cfg dflt rules []).1 ops) :
    (∀ lru, (∃ c, (lru, c) ∈ ((State.fresh cfg dflt rules []).1.run ops).pagesIter) ↔
        ∃ op ∈ ops, ∃ x ∈ op.pages, lru = x.1.flatten) ∧
    ((((State.fresh cfg dflt rules []).1.run ops).pagesIter).map (·.1)).Nodup :=
  C01_pagesIter cfg dflt rules ops hrules hop hwf hok

/-- crawled marks: only if some submission may mark, and whenever some submission must mark -/
theorem C01_crawled (cfg : Config) (dflt : Rule) (rules : List (Bytes × Rule)) (ops : List Op)
    (hrules : ∀ ar ∈ rules, lruIter ar.1 ≠ [])
    (hop : ∀ op ∈ ops, ∀ d rs, op ≠ .clear d rs) (hwf : ∀ op ∈ ops, OpWf op)
    (hok : NoKeyErr (State.fresh cfg dflt rules []).1 ops) :
    ∃ t, Shape ((State.fresh cfg dflt rules []).1.run ops) t ∧
      ∀ p, (IsCrawled ((State.fresh cfg dflt rules []).1.run ops) t p →
              ∃ op ∈ ops, ∃ x ∈ op.pages, x.1 = p ∧ x.2.2 = true) ∧
           ((∃ op ∈ ops, ∃ x ∈ op.pages, x.1 = p ∧ x.2.1 = true) →
              IsCrawled ((State.fresh cfg dflt rules []).1.run ops) t p) :=
  Traph.C01_crawled cfg dflt rules ops hrules hop hwf hok

open Classical in
/-- every write report counts exactly the pages that were new -/
theorem C01_report (cfg : Config) (dflt : Rule) (rules : List (Bytes × Rule)) (ops : List Op)
    (hrules : ∀ ar ∈ rules, lruIter ar.1 ≠ [])
    (hop : ∀ op ∈ ops, ∀ d rs, op ≠ .clear d rs) (hwf : ∀ op ∈ ops, OpWf op)
    (hok : NoKeyErr (State.fresh cfg dflt rules []).1 ops)
    (op : Op) (hop' : ∀ d rs, op ≠ .clear d rs) (hwf' : OpWf op) (r : Report)
    (hr : (((State.fresh cfg dflt rules []).1.run ops).step op).2 = .report r) :
    ∃ t, Shape ((State.fresh cfg dflt rules []).1.run ops) t ∧
      r.pages = ((op.pages.map (·.1)).eraseDups.filter
        (fun p => decide (¬ IsPage ((State.fresh cfg dflt rules []).1.run ops) t p))).length :=
  C01_report_run cfg dflt rules ops hrules hop hwf hok op hop' hwf' r hr

/-- re-submitting a known page changes nothing but possibly its crawled mark: the page set is the same
    and the report counts 0 (one step of the above; stated on the trie insertion) -/
theorem C01_resubmit (s : State) (stems : LRU) (crawled : Bool) (h0 : 0 < s.trie.size) (hne : stems ≠ [])
    (i : Nat) (c : Cell) (hc : s.trie[i]? = some c) (hp : c.flags.page = true) :
    ∃ c', (s.addPageTrie stems crawled).1.trie[i]? = some c' ∧ c'.flags.page = true ∧ c'.chunk = c.chunk ∧
      c'.parent = c.parent ∧ (c.flags.crawled = true → c'.flags.crawled = true) := by
  obtain ⟨c', hc', hle⟩ := (addPageTrie_le s stems crawled h0 hne).1.cells i c hc
  exact ⟨c', hc', hle.page hp, hle.chunk, hle.parent, hle.crawled⟩

/-- non-vacuity: a two-request history meeting every hypothesis -/
example : OpWf (.addPage [97, 124, 98, 124] true) ∧ OpWf (.addLinks [([97, 124], [99, 124])]) := by
  constructor <;> simp [OpWf, lruIter, lruIterGo, Layout.sep]

section EveryHistory
open Traph State Pag Layout
/-! ### every history (Proofs/Discipline, SinceClear, ReachableAll, HeadlinesAll) -/

/-- EVERY HISTORY, `clear` and `reopen` included, no request assumed away: the only hypotheses are that byte strings cut into at least one stem (`OpWf`), rule anchors are whole LRUs (`rulesCanonical`, `Canon`) and the caller re-supplies on `reopen` the rules the index carries, as the API requires (`Disciplined`); `clear` acts as a reset (`sinceClear`).  -/
theorem C01_pages_all (cfg : Config) (dflt : Rule) (rules : List (Bytes × Rule)) (ops : List Op)
    (hr : rulesCanonical rules) (hwf : ∀ op ∈ sinceClear ops, OpWf op)
    (hd : Disciplined (State.fresh cfg dflt rules []).1 ops) :
    ∃ t, Shape ((State.fresh cfg dflt rules []).1.run ops) t ∧
      ∀ p, IsPage ((State.fresh cfg dflt rules []).1.run ops) t p ↔
        ∃ op ∈ sinceClear ops, ∃ x ∈ op.pages, x.1 = p :=
  Traph.C01_pages_all cfg dflt rules ops hr hwf hd

/-- the same for the next clause of the property -/
theorem C01_crawled_all (cfg : Config) (dflt : Rule) (rules : List (Bytes × Rule)) (ops : List Op)
    (hr : rulesCanonical rules) (hwf : ∀ op ∈ sinceClear ops, OpWf op)
    (hd : Disciplined (State.fresh cfg dflt rules []).1 ops) :
    ∃ t, Shape ((State.fresh cfg dflt rules []).1.run ops) t ∧
      ∀ p, (IsCrawled ((State.fresh cfg dflt rules []).1.run ops) t p →
              ∃ op ∈ sinceClear ops, ∃ x ∈ op.pages, x.1 = p ∧ x.2.2 = true) ∧
           ((∃ op ∈ sinceClear ops, ∃ x ∈ op.pages, x.1 = p ∧ x.2.1 = true) →
              IsCrawled ((State.fresh cfg dflt rules []).1.run ops) t p) :=
  Traph.C01_crawled_all cfg dflt rules ops hr hwf hd

/-- the same for the next clause of the property -/
theorem C01_enumeration_all (cfg : Config) (dflt : Rule) (rules : List (Bytes × Rule)) (ops : List Op)
    (hr : rulesCanonical rules) (hwf : ∀ op ∈ sinceClear ops, OpWf op)
    (hd : Disciplined (State.fresh cfg dflt rules []).1 ops) :
    (∀ lru, (∃ c, (lru, c) ∈ ((State.fresh cfg dflt rules []).1.run ops).pagesIter) ↔
        ∃ op ∈ sinceClear ops, ∃ x ∈ op.pages, lru = x.1.flatten) ∧
    ((((State.fresh cfg dflt rules []).1.run ops).pagesIter).map (·.1)).Nodup :=
  Traph.C01_enumeration_all cfg dflt rules ops hr hwf hd

/-- the same for the next clause of the property -/
theorem C01_invariants_all {s : State} (h : Reachable s) :
    ∃ t, Shape s t ∧ Inv s t ∧ SizeOk s t ∧ ParOk s t 0 ∧ MarkOk s t ∧ LkOk s t [] ∧ LinksOk s ∧ RulesOk s ∧
      Whole s ∧ HeaderStub s ∧ ∃ L, Graph s t L :=
  Traph.reachable_invariants h

end EveryHistory

end Traph.Props

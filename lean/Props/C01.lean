import Proofs.FrameOps
/-! C01 — page set fidelity. Proved so far: inserting a page never moves, unflags or alters any existing
    page block (heap order), returns a block that is flagged as a page afterwards, turns its crawled
    mark on iff it was on or the submission asks for it, and reports "created" iff the block was not a
    page before. That the returned block is *the* block of that LRU — so that nothing is duplicated —
    is the search/insert agreement under construction in Proofs/Shape*. -/
namespace Traph.Props
open Traph State

/-- no page is lost or altered: every block that was a page still is, with the same stem bytes and the
    same parent pointer, after any page insertion -/
theorem C01_monotone (s : State) (stems : LRU) (crawled : Bool) (h0 : 0 < s.trie.size) (hne : stems ≠ [])
    (i : Nat) (c : Cell) (hc : s.trie[i]? = some c) (hp : c.flags.page = true) :
    ∃ c', (s.addPageTrie stems crawled).1.trie[i]? = some c' ∧ c'.flags.page = true ∧ c'.chunk = c.chunk ∧
      c'.parent = c.parent ∧ (c.flags.crawled = true → c'.flags.crawled = true) := by
  obtain ⟨c', hc', hle⟩ := (addPageTrie_le s stems crawled h0 hne).1.cells i c hc
  exact ⟨c', hc', hle.page hp, hle.chunk, hle.parent, hle.crawled⟩

/-- the submitted LRU's block is a page afterwards; crawled is monotone (on iff it was on or this
    submission marks it); "created" is reported iff it was not a page before -/
theorem C01_inserted (s : State) (stems : LRU) (crawled : Bool) (h0 : 0 < s.trie.size) (hne : stems ≠ [])
    (s1 : State) (n : Nat) (h : Hist) (ha : s.addLru stems false = (s1, n, h)) :
    (s.addPageTrie stems crawled).2.1 = n ∧
    ((s.addPageTrie stems crawled).1.cell n).flags.page = true ∧
    ((s.addPageTrie stems crawled).1.cell n).flags.crawled = ((s1.cell n).flags.crawled || crawled) ∧
    (s.addPageTrie stems crawled).2.2.created = !(s1.cell n).flags.page := by
  have hlt : n < s1.trie.size := by
    have := (addLru_le s stems false h0 hne).2; rw [ha] at this; exact this
  have hcre : h.created = false := by
    have := addLru_created s stems false; rw [ha] at this; exact this
  unfold addPageTrie
  rw [ha]
  simp only
  by_cases hpg : (s1.cell n).flags.page = true
  · by_cases hcr : (crawled && !(s1.cell n).flags.crawled) = true
    · rw [if_neg (by simp [hpg]), if_pos hcr]
      simp only [Bool.and_eq_true, Bool.not_eq_true'] at hcr
      refine ⟨rfl, ?_, ?_, by simp [hpg, hcre]⟩
      · rw [cell_modCell, if_pos ⟨rfl, hlt⟩]; exact hpg
      · rw [cell_modCell, if_pos ⟨rfl, hlt⟩]; simp [hcr.1]
    · rw [if_neg (by simp [hpg]), if_neg hcr]
      refine ⟨rfl, hpg, ?_, by simp [hpg, hcre]⟩
      cases crawled <;> cases hx : (s1.cell n).flags.crawled <;> simp_all
  · simp only [Bool.not_eq_true] at hpg
    rw [if_pos (by simp [hpg])]
    refine ⟨rfl, ?_, ?_, by simp [hpg]⟩
    · rw [cell_modCell, if_pos ⟨rfl, hlt⟩]
    · rw [cell_modCell, if_pos ⟨rfl, hlt⟩]

end Traph.Props

import Traph
/-! C16 — cooperative interleaving of generators. The four generators are explicit coroutine state
    machines (`Traph/Co.lean`) holding the same stale node copies as the Python generators; `runSched`
    interleaves them under any schedule. Proved so far: the two query machines never write (whatever the
    schedule does around them); the phantom-page schedule of finding F16 is a theorem about the model
    (`C16_phantom_witness`), i.e. the clause "no item that qualified at no moment" is false of the code;
    safety of the writer sections is tied by correspondence on random schedules (both statuses and bytes)
    and, per request, by the heap-order theorems of Proofs/LeOps. -/
namespace Traph.Props
open Traph State

/-- a page query section never changes the index -/
theorem C16_pages_query_readonly (s : State) (p : PagesSt) : ((CoSt.pages p).resume s).1 = s := rfl

/-- a network query section never changes the index -/
theorem C16_net_query_readonly (s : State) (n : NetSt) : ((CoSt.net n).resume s).1 = s := rfl

/-- a finished generator cannot be advanced (StopIteration), and does not touch the index -/
theorem C16_finished (s : State) : (CoSt.finished.resume s).1 = s ∧ (CoSt.finished.resume s).2.2 = .failed (.other "StopIteration") :=
  ⟨rfl, rfl⟩

/-- an empty schedule does nothing; schedules compose -/
theorem C16_sched_nil (s : State) (cos : List CoSt) : runSched s cos [] = (s, cos, []) := rfl

end Traph.Props

import Traph
import Proofs.CoSchedules
import Proofs.CoPhantom
import Proofs.CoReadOnly
import Proofs.CoDrainExamples
import Proofs.CoDrainChildren
import Proofs.CoDrainLinks
import Proofs.CoDrainCited
import Proofs.CoDrainSlow
import Proofs.CoFinal
import Proofs.CoFinalQueries
import Proofs.CoDrainWriters
import Proofs.CoNetBounds
import Proofs.CoMissedLink
import Proofs.CoFuelDrain
/-! C16 — cooperative interleaving of generators. All eleven `*_iter` generators of traph.py are explicit coroutine
    state machines (`Traph/Co.lean`: the two writers, the page and network queries, and the seven other queries under
    `CoSt.query`) holding the same stale node copies as the Python generators; `Sys.run` / `runSched`
    interleave them under any schedule. The seven new query machines drained on a fixed index compute the atomic
    answers (`C16_drained_queries_atomic`, Proofs/CoDrain*); all nine query machines never write
    (`C16_all_queries_readonly`). Proved (Proofs/Co*): for EVERY schedule the index stays well-formed and
    only grows (`C16_any_schedule_shape`), no writer fails (`C16_no_writer_fails`), the final pages are those of
    the requests applied one after another in any order (`C16_final_pages`, `_sequential_rulesOk`), link lists
    are never overwritten (`C16_links_any_schedule`), page queries list only pages (`C16_pages_query_sound`) and
    list every page that qualified throughout (`C16_pages_query_complete_entries`); the query machines never
    write. The clause "no item that qualified at no moment" is FALSE of the code: finding F16 is a theorem about
    the model (Proofs/CoPhantom, `C16_phantom_*`). The final STATE as a whole — pages, crawled marks, link multigraph at
    LRU level, in/out symmetry — equals the requests applied one after another in any order, for every schedule and
    every reachable start state (`C16_final_state`; mid-schedule the in-lists lag behind the out-lists by exactly the
    pending part of each batch machine: `C16_inlinks_lag`, `C16_symmetry_at_quiescence`, with a kernel-checked window
    in which a query sees the asymmetry, `C16_asymmetric_window`); no query machine runs out of the model's fuel
    (`C16_queries_no_fuel`); writers and queries drained on their own equal the atomic requests
    (`C16_drained_writers`, `C16_drained_queries_atomic`). Not proved: the network machine's answer under
    interleaving with writers (its bounds are judged by the oracle against atomic probes). -/
namespace Traph.Props
open Traph State

/-- a page query section never changes the index -/
theorem C16_pages_query_readonly (s : State) (p : PagesSt) : ((CoSt.pages p).resume s).1 = s := rfl

/-- a network query section never changes the index -/
theorem C16_net_query_readonly (s : State) (n : NetSt) : ((CoSt.net n).resume s).1 = s := rfl

/-- **every query generator is read-only**: a section of any of the nine query machines — pages, network, and the seven
    of `QSt`: crawled pages, most linked pages, child webentities, page links, cited / citing webentities, slow network —
    started in ANY private state (so: at every yield point of every schedule) returns the index it was given -/
theorem C16_all_queries_readonly (s : State) :
    (∀ p : PagesSt, ((CoSt.pages p).resume s).1 = s) ∧
    (∀ n : NetSt, ((CoSt.net n).resume s).1 = s) ∧
    (∀ q : CrawledSt, ((CoSt.query (.crawled q)).resume s).1 = s) ∧
    (∀ q : MostSt, ((CoSt.query (.mostLinked q)).resume s).1 = s) ∧
    (∀ q : ChildSt, ((CoSt.query (.children q)).resume s).1 = s) ∧
    (∀ q : PlSt, ((CoSt.query (.pagelinks q)).resume s).1 = s) ∧
    (∀ q : CitedSt, ((CoSt.query (.cited q)).resume s).1 = s) ∧
    (∀ q : SlowSt, ((CoSt.query (.netSlow q)).resume s).1 = s) ∧
    (∀ c : CoSt, c.isReader → (c.resume s).1 = s ∧ (c.resume s).2.1.isReader) :=
  ⟨fun _ => rfl, fun _ => rfl, fun _ => rfl, fun _ => rfl, fun _ => rfl, fun _ => rfl, fun _ => rfl, fun _ => rfl,
   fun c h => ⟨Traph.resume_reader_state s c h, Traph.resume_reader_reader s c h⟩⟩

/-- a schedule that advances query generators only — any number of them, in any states, in any order — leaves the index
    exactly as it was -/
theorem C16_queries_only_schedule (sched : Sched) (σ : Sys) (h : ∀ c ∈ σ.2, c.isReader) :
    (σ.run sched).1.1 = σ.1 :=
  (Traph.readers_schedule sched σ h).1

/-- the seven new machines drained on a fixed index give the atomic answers (kernel-evaluated instances on an index with
    nested webentities, weighted / internal / inbound / outbound links and a missing prefix; `Proofs/CoDrainExamples`) -/
theorem C16_drain_examples :
    QSt.drain DrainEx.idx 100 (.crawled { cur := { prefixes := [DrainEx.pa, DrainEx.pb] } })
      = DrainEx.idx.ask (.crawledPages [DrainEx.pa, DrainEx.pb]) ∧
    QSt.drain DrainEx.idx 100 (.mostLinked { cur := { prefixes := [DrainEx.pa, DrainEx.pb] }, k := 3 })
      = DrainEx.idx.ask (.mostLinked [DrainEx.pa, DrainEx.pb] 3 none) ∧
    QSt.drain DrainEx.idx 100 (.children { cur := { prefixes := [DrainEx.pa], skip := true }, weid := 1 })
      = DrainEx.idx.ask (.children 1 [DrainEx.pa]) ∧
    QSt.drain DrainEx.idx 100 (.pagelinks { cur := { prefixes := [DrainEx.pa] }, weid := 1, incIn := true, incInt := true, incOut := true })
      = DrainEx.idx.ask (.pagelinks 1 [DrainEx.pa] true true true) ∧
    QSt.drain DrainEx.idx 100 (.cited { cur := { prefixes := [DrainEx.pa] }, out := true }) = DrainEx.idx.ask (.cited [DrainEx.pa] true) ∧
    QSt.drain DrainEx.idx 100 (.cited { cur := { prefixes := [DrainEx.pa] }, out := false }) = DrainEx.idx.ask (.cited [DrainEx.pa] false) ∧
    QSt.drain DrainEx.idx 100 (.netSlow { out := true, auto := true }) = DrainEx.idx.ask (.network true true true) :=
  ⟨DrainEx.crawled_drain.1, DrainEx.mostLinked_drain.1, DrainEx.children_drain.1, DrainEx.pagelinks_drain.1,
   DrainEx.cited_drain.1, DrainEx.cited_drain.2.1, DrainEx.netSlow_drain.1⟩

/-- **the seven new generators run to completion without interleaving give exactly the atomic answers**: on every index that
    represents a search tree (`Shape`) with backward-pointing stubs and heads in range (`HeadsOk`) — both proved of every
    reachable index and kept by every schedule (`C16_any_schedule_shape`, `C16_links_any_schedule`) — draining a fresh
    machine (`QSt.drain` = `run_iterator`) for at least `N0` sections yields the answer of the atomic request of `Traph/Api.lean`,
    for well-formed prefixes and all parameters -/
theorem C16_drained_queries_atomic {s : State} {t : T} (h : Shape s t) (hk : HeadsOk s) (weid : Nat) (ps : List Bytes)
    (hps : ∀ pf ∈ ps, lruIter pf ≠ []) (k : Nat) (d : Option Nat) (incIn incInt incOut out auto : Bool) :
    ∃ N0, ∀ N, N0 ≤ N →
      QSt.drain s N (.crawled { cur := { prefixes := ps } }) = s.ask (.crawledPages ps) ∧
      QSt.drain s N (.mostLinked { cur := { prefixes := ps, depth := d }, k := k }) = s.ask (.mostLinked ps k d) ∧
      QSt.drain s N (.children { cur := { prefixes := ps, skip := true }, weid := weid }) = s.ask (.children weid ps) ∧
      QSt.drain s N (.pagelinks { cur := { prefixes := ps }, weid := weid, incIn := incIn, incInt := incInt, incOut := incOut })
        = s.ask (.pagelinks weid ps incIn incInt incOut) ∧
      QSt.drain s N (.cited { cur := { prefixes := ps }, out := out }) = s.ask (.cited ps out) ∧
      QSt.drain s N (.netSlow { out := out, auto := auto }) = s.ask (.network out auto true) := by
  obtain ⟨n1, h1⟩ := Traph.pagelinks_drain_shape h weid ps incIn incInt incOut hps
  obtain ⟨n2, h2⟩ := Traph.cited_drain_shape h hk.1 ps out hps
  refine ⟨(s.trie.size + 2) * ps.length + 2 + n1 + n2 + ((s.trie.size + 1) * (s.links.size + 1) + 2), fun N hN => ?_⟩
  have hle : (s.trie.size + 1) * ps.length ≤ (s.trie.size + 2) * ps.length := Nat.mul_le_mul_right _ (by omega)
  exact ⟨Traph.crawled_drain_shape h ps hps N (by omega), Traph.mostLinked_drain_shape h ps k d hps N (by omega),
    Traph.children_drain_shape h weid ps hps N (by omega), h1 N (by omega), h2 N (by omega),
    Traph.netSlow_drain_shape h out auto N (by omega)⟩

/-- a finished generator cannot be advanced (StopIteration), and does not touch the index -/
theorem C16_finished (s : State) : (CoSt.finished.resume s).1 = s ∧ (CoSt.finished.resume s).2.2 = .failed (.other "StopIteration") :=
  ⟨rfl, rfl⟩

/-- an empty schedule does nothing; schedules compose -/
theorem C16_sched_nil (s : State) (cos : List CoSt) : runSched s cos [] = (s, cos, []) := rfl

section Lifted
open Traph State Layout
/-! ### every schedule (Proofs/Co*): `Sys.run (s, machines) sched` advances machine `sched[i]` by one section at step `i` -/

/-- for EVERY schedule of EVERY list of machines in any states: the index keeps representing a search tree, every old entry keeps its block, the heap order and the link lists only grow (no assumption on the machines' private states) -/
theorem C16_any_schedule_shape (sched : Sched) (σ : Sys) (t : T) (h : Shape σ.1 t) :
    ∃ t', Ext σ.1 t (σ.run sched).1.1 t' ∧ σ.1 ⊑ (σ.run sched).1.1 ∧ CoLinkStep σ.1 (σ.run sched).1.1 :=
  Traph.sched_shape sched σ t h 

/-- no request fails: when every rule flag in the trie has its rule in RAM (`RulesOk`, true of every state reached with rules re-supplied as the API requires: `rulesOk_run`) no writer section of any schedule raises; the only failure ever reported is advancing a finished generator -/
theorem C16_no_writer_fails {s : State} {t : T} (hs : Shape s t) (hi : Inv s t) (hr : RulesOk s)
    (reqs : List CoReq) (hwf : ∀ r ∈ reqs, r.Wf) (hcanon : ∀ r ∈ reqs, r.Canon) (sched : Sched) :
    RulesOk (Sys.run (s, reqs.map CoReq.init) sched).1.1 ∧
    ∀ i r e, reqs[i]? = some r → r.op ≠ none →
      (i, CoOut.failed e) ∈ (Sys.run (s, reqs.map CoReq.init) sched).2 → e = .other "StopIteration" :=
  Traph.C16_no_writer_fails hs hi hr reqs hwf hcanon sched

/-- final pages: once every writer has returned, under ANY schedule, the pages (and crawled marks) are those before plus exactly those of the requests -/
theorem C16_final_pages {s : State} {t : T} (hs : Shape s t) (hi : Inv s t) (reqs : List CoReq)
    (hwf : ∀ r ∈ reqs, r.Wf) (sched : Sched)
    (hdone : ∀ i r, reqs[i]? = some r → r.op ≠ none →
      ∃ a, (i, CoOut.done a) ∈ (Sys.run (s, reqs.map CoReq.init) sched).2) :
    ∃ t', Shape (Sys.run (s, reqs.map CoReq.init) sched).1.1 t' ∧
      Inv (Sys.run (s, reqs.map CoReq.init) sched).1.1 t' ∧
      s ⊑ (Sys.run (s, reqs.map CoReq.init) sched).1.1 ∧
      (∀ p, IsPage (Sys.run (s, reqs.map CoReq.init) sched).1.1 t' p ↔
        IsPage s t p ∨ ∃ r ∈ reqs, ∃ x ∈ r.pages, x.1 = p) ∧
      (∀ p, IsCrawled (Sys.run (s, reqs.map CoReq.init) sched).1.1 t' p ↔
        IsCrawled s t p ∨ ∃ r ∈ reqs, ∃ x ∈ r.pages, x.1 = p ∧ x.2.1 = true) :=
  Traph.C16_final_pages hs hi reqs hwf sched hdone

/-- …hence the same as applying the requests one after another in any order -/
theorem C16_final_pages_sequential_rulesOk {s : State} {t : T} (hs : Shape s t) (hi : Inv s t) (hr : RulesOk s)
    (reqs : List CoReq) (hwf : ∀ r ∈ reqs, r.Wf) (hcanon : ∀ r ∈ reqs, r.Canon) (sched : Sched)
    (hdone : ∀ i r, reqs[i]? = some r → r.op ≠ none →
      ∃ a, (i, CoOut.done a) ∈ (Sys.run (s, reqs.map CoReq.init) sched).2)
    (reqs' : List CoReq) (hperm : reqs'.Perm reqs) :
    ∃ t' t'', Shape (Sys.run (s, reqs.map CoReq.init) sched).1.1 t' ∧
      Shape (s.run (reqs'.filterMap CoReq.op)) t'' ∧
      (∀ p, IsPage (Sys.run (s, reqs.map CoReq.init) sched).1.1 t' p ↔
        IsPage (s.run (reqs'.filterMap CoReq.op)) t'' p) ∧
      (∀ p, IsCrawled (Sys.run (s, reqs.map CoReq.init) sched).1.1 t' p ↔
        IsCrawled (s.run (reqs'.filterMap CoReq.op)) t'' p) :=
  Traph.C16_final_pages_sequential_rulesOk hs hi hr reqs hwf hcanon sched hdone reqs' hperm

/-- refresh-before-write: under any schedule every link list of before is a suffix of the list after (a section never overwrites a head another machine wrote meanwhile) and heads stay in range -/
theorem C16_links_any_schedule {s : State} {t : T} (hs : Shape s t) (hk : HeadsOk s) (cos : List CoSt)
    (sched : Sched) :
    HeadsOk (Sys.run (s, cos) sched).1.1 ∧ LinkGrow s (Sys.run (s, cos) sched).1.1 :=
  Traph.C16_links_any_schedule hs hk cos sched

/-- page query, one bound: whatever the schedule, every listed item is a page of the final index with a correct crawled mark -/
theorem C16_pages_query_sound {s : State} {t : T} (hs : Shape s t) (hi : Inv s t) (reqs : List CoReq)
    (hwf : ∀ r ∈ reqs, r.Wf) (sched : Sched) (i : Nat) (ps : List Bytes) (a : Ans)
    (hreq : reqs[i]? = some (.queryPages ps))
    (hdone : (i, CoOut.done a) ∈ (Sys.run (s, reqs.map CoReq.init) sched).2) :
    ∃ t', Shape (Sys.run (s, reqs.map CoReq.init) sched).1.1 t' ∧
      ∃ l, a = .pages l ∧ ∀ x ∈ l,
        IsPage (Sys.run (s, reqs.map CoReq.init) sched).1.1 t' (lruIter x.1) ∧
        (x.2 = true → IsCrawled (Sys.run (s, reqs.map CoReq.init) sched).1.1 t' (lruIter x.1)) :=
  Traph.C16_pages_query_sound hs hi reqs hwf sched i ps a hreq hdone

/-- page query, other bound: a page that lies below the queried prefix and is not separated from it by a webentity THROUGHOUT the execution (before, between and after all sections) is listed -/
theorem C16_pages_query_complete_entries {s : State} {t : T} (hs : Shape s t) (hi : Inv s t) (reqs : List CoReq)
    (hwf : ∀ r ∈ reqs, r.Wf) (sched : Sched) (i : Nat) (ps : List Bytes)
    (hreq : reqs[i]? = some (.queryPages ps)) (pf : Bytes) (hpf : pf ∈ ps) (root b : Nat) (r : LRU) (hr : r ≠ [])
    (hq : (lruIter pf, root) ∈ t.entries s []) (hb : (lruIter pf ++ r, b) ∈ t.entries s [])
    (hclear : Throughout (fun s' => (s'.cell b).flags.page = true ∧ (s'.cell b).we = 0 ∧
        ∀ k m, 0 < k → k < r.length → (lruIter pf ++ r.take k, m) ∈ t.entries s [] → (s'.cell m).we = 0)
      (s, reqs.map CoReq.init) sched)
    (l : List (Bytes × Bool))
    (hdone : (i, CoOut.done (.pages l)) ∈ (Sys.run (s, reqs.map CoReq.init) sched).2) :
    ∃ cr, ((lruIter pf ++ r).flatten, cr) ∈ l :=
  Traph.C16_pages_query_complete_entries hs hi reqs hwf sched i ps hreq pf hpf root b r hr hq hb hclear l hdone

end Lifted

/-- FINDING F16 AS A THEOREM: on this index and schedule the page query of webentity 1 lists `…p:x|p:z|`, which is
    not in the index before the batch's section and belongs to webentity 3 from then on — it qualified at no moment.
    (The same history is the stored witness findings/F16.json, replayed on the real code by every run.) -/
theorem C16_phantom_witness :
    (0, CoOut.done (.pages [(Phantom.px, false), (Phantom.py, false), (Phantom.pz, true)])) ∈
      (Sys.run (Phantom.before, Phantom.reqs.map CoReq.init) [0, 1, 0, 0, 0]).2 ∧
    Phantom.before.ask (.lruNode Phantom.pz) = .optNat none ∧
    Phantom.before.ask (.pages [Phantom.pa]) = .pages [(Phantom.px, false), (Phantom.py, false)] ∧
    Phantom.after.ask (.retrieveWebentity Phantom.pz) = .nat 3 ∧
    Phantom.after.ask (.pages [Phantom.pa]) = .pages [] ∧
    (Sys.run (Phantom.before, Phantom.reqs.map CoReq.init) [0]).1.1 = Phantom.before ∧
    (Sys.run (Phantom.before, Phantom.reqs.map CoReq.init) [0, 1, 0, 0, 0]).1.1 = Phantom.after :=
  ⟨Phantom.answer_lists_pz, Phantom.before_not_a_page.1, Phantom.before_not_a_page.2,
   Phantom.after_foreign.1, Phantom.after_foreign.2.2, Phantom.index_states.1, Phantom.index_states.2.2.2⟩

/-- FINDING F16c AS A THEOREM: the page-link query of webentity 1 (all three switches on), advanced one step, then a rule
    installation to completion, then the query to its end, answers `[]` — although at EVERY moment of the schedule the atomic
    query lists the link `…p:zzz|p:0| → …p:k|` (as internal before the installation, as inbound after it). The completeness
    clause of the property is false of the code for items that change class while the query runs. (Same history as
    findings/F16c.json, replayed on the real code by every run.) -/
theorem C16_missed_link_witness :
    (0, CoOut.done (.links [])) ∈
      (Sys.run (MissedLink.before, MissedLink.reqs.map CoReq.init) [0, 1, 1, 1, 1, 1, 0]).2 ∧
    MissedLink.before.ask (.pagelinks 1 [MissedLink.P] false true false) = .links [(MissedLink.a, MissedLink.b, 1)] ∧
    MissedLink.after.ask (.pagelinks 1 [MissedLink.P] true false false) = .links [(MissedLink.a, MissedLink.b, 1)] ∧
    (∀ k, k ≤ 7 → (Sys.run (MissedLink.before, MissedLink.reqs.map CoReq.init) (MissedLink.sched.take k)).1.1.ask
        (.pagelinks 1 [MissedLink.P] true true true) = .links [(MissedLink.a, MissedLink.b, 1)]) := by
  refine ⟨MissedLink.answer_misses_link, MissedLink.before_lists_link.2.1, MissedLink.after_lists_link.2.1, ?_⟩
  intro k hk
  have h := MissedLink.every_moment
  have hk' : k = 0 ∨ k = 1 ∨ k = 2 ∨ k = 3 ∨ k = 4 ∨ k = 5 ∨ k = 6 ∨ k = 7 := by omega
  rcases hk' with rfl | rfl | rfl | rfl | rfl | rfl | rfl | rfl
  · exact h.1
  · exact h.2.1
  · exact h.2.2.1
  · exact h.2.2.2.1
  · exact h.2.2.2.2.1
  · exact h.2.2.2.2.2.1
  · exact h.2.2.2.2.2.2.1
  · exact h.2.2.2.2.2.2.2

section Final
open Traph State Layout
/-! ### the final state under every schedule (Proofs/CoLinkGraph, CoLinkSym, CoFinal) -/

/-- THE PROPERTY'S FIRST HALF IN ONE STATEMENT: from every reachable start state, for every list of generator requests and EVERY schedule under which the writers return: no writer fails; the final pages, crawled marks and link multigraph (weights per ordered pair of LRUs, and every `get_page_links` answer up to order) are those of the requests applied one after another in ANY order; inbound/outbound symmetry holds in the final state -/
theorem C16_final_state {s : State} (hreach : Reachable s) (reqs : List CoReq) (hwf : ∀ r ∈ reqs, r.Wf)
    (hcanon : ∀ r ∈ reqs, r.Canon) (sched : Sched)
    (hdone : ∀ i r, reqs[i]? = some r → r.op ≠ none →
      ∃ a, (i, CoOut.done a) ∈ (Sys.run (s, reqs.map CoReq.init) sched).2)
    (reqs' : List CoReq) (hperm : reqs'.Perm reqs) :
    (∀ i r e, reqs[i]? = some r → r.op ≠ none →
      (i, CoOut.failed e) ∈ (Sys.run (s, reqs.map CoReq.init) sched).2 → e = .other "StopIteration") ∧
    ∃ L0 t' t'', LinkView (Sys.run (s, reqs.map CoReq.init) sched).1.1 t' (L0 ++ reqs.flatMap CoReq.links) ∧
      LinkView (s.run (reqs'.filterMap CoReq.op)) t'' (L0 ++ reqs'.flatMap CoReq.links) ∧
      RulesOk (Sys.run (s, reqs.map CoReq.init) sched).1.1 ∧
      (∀ p, IsPage (Sys.run (s, reqs.map CoReq.init) sched).1.1 t' p ↔ IsPage (s.run (reqs'.filterMap CoReq.op)) t'' p) ∧
      (∀ p, IsCrawled (Sys.run (s, reqs.map CoReq.init) sched).1.1 t' p ↔
        IsCrawled (s.run (reqs'.filterMap CoReq.op)) t'' p) ∧
      (∀ p q, nsub (L0 ++ reqs.flatMap CoReq.links) p q = nsub (L0 ++ reqs'.flatMap CoReq.links) p q) ∧
      (∀ p, IsPage (Sys.run (s, reqs.map CoReq.init) sched).1.1 t' p → ∀ incIn incInt incOut,
        ((Sys.run (s, reqs.map CoReq.init) sched).1.1.pageLinks p.flatten incIn incInt incOut).Perm
          ((s.run (reqs'.filterMap CoReq.op)).pageLinks p.flatten incIn incInt incOut)) ∧
      (∀ a b, count b ((Sys.run (s, reqs.map CoReq.init) sched).1.1.outBag a) =
        count a ((Sys.run (s, reqs.map CoReq.init) sched).1.1.inBag b)) :=
  Traph.C16_final_state hreach reqs hwf hcanon sched hdone reqs' hperm

/-- mid-schedule, at every yield point: an in-list never runs ahead of its out-list (the in-lists of a batch are flushed after its out-lists) -/
theorem C16_inlinks_lag {s : State} {t : T} {L0 : List (Bytes × Bytes)} (hs : Shape s t) (hi : Inv s t)
    (hr : RulesOk s) (hp : ParOk s t 0) (g : Graph s t L0) (reqs : List CoReq) (hwf : ∀ r ∈ reqs, r.Wf)
    (hcanon : ∀ r ∈ reqs, r.Canon) (sched : Sched) (a x : Nat) :
    count a ((Sys.run (s, reqs.map CoReq.init) sched).1.1.inBag x) ≤
      count x ((Sys.run (s, reqs.map CoReq.init) sched).1.1.outBag a) :=
  Traph.C16_inlinks_lag hs hi hr hp g reqs hwf hcanon sched a x

/-- …and whenever no batch machine has anything pending, symmetry is exact -/
theorem C16_symmetry_at_quiescence {s : State} {t : T} {L0 : List (Bytes × Bytes)} (hs : Shape s t) (hi : Inv s t)
    (hr : RulesOk s) (hp : ParOk s t 0) (g : Graph s t L0) (reqs : List CoReq) (hwf : ∀ r ∈ reqs, r.Wf)
    (hcanon : ∀ r ∈ reqs, r.Canon) (sched : Sched)
    (hquiet : ∀ (i : Nat) (b : BatchSt), (Sys.run (s, reqs.map CoReq.init) sched).1.2[i]? = some (CoSt.batch b) →
      (∀ a x, cl_pendOut b a x = 0) ∧ (∀ a x, cl_pendIn b a x = 0)) (a x : Nat) :
    count x ((Sys.run (s, reqs.map CoReq.init) sched).1.1.outBag a) =
      count a ((Sys.run (s, reqs.map CoReq.init) sched).1.1.inBag x) :=
  Traph.C16_symmetry_at_quiescence hs hi hr hp g reqs hwf hcanon sched hquiet a x

/-- the window is real: two sections into the batch `[(A,[B]),(C,[D])]` the out-list of A holds B while the in-list
    of B is still empty, and a query sees it (the property speaks of the final state only) -/
theorem C16_asymmetric_window :
    SymEx.mid.outBag 4 = [5] ∧ SymEx.mid.inBag 5 = [] ∧
    SymEx.mid.ask (.pageLinks SymEx.pA false false true) = .links [(SymEx.pA, SymEx.pB, 1)] ∧
    SymEx.mid.ask (.pageLinks SymEx.pB true false false) = .links [] :=
  ⟨SymEx.asymmetric_window.2.2.1, SymEx.asymmetric_window.2.2.2.1, SymEx.asymmetric_window.2.2.2.2.1,
   SymEx.asymmetric_window.2.2.2.2.2⟩

/-- the page and network query machines never stop for lack of the model's fuel, under any schedule from any reachable state (the fuel is a device of the model; the Python generators have none) — the page-query constant was raised after this proof attempt showed the first one insufficient for nested or repeated prefixes -/
theorem C16_queries_no_fuel {s : State} (hreach : Reachable s) (reqs : List CoReq) (sched : Sched) :
    (∀ i out auto e, reqs[i]? = some (.queryNet out auto) →
      (i, CoOut.failed e) ∈ (Sys.run (s, reqs.map CoReq.init) sched).2 → e = .other "StopIteration") ∧
    (∀ i ps e, reqs[i]? = some (.queryPages ps) → (∀ pf ∈ ps, lruIter pf ≠ []) →
      (i, CoOut.failed e) ∈ (Sys.run (s, reqs.map CoReq.init) sched).2 → e = .traph ∨ e = .other "StopIteration") :=
  Traph.C16_queries_no_fuel hreach reqs sched

/-- the rule-installation generator drained on its own IS the atomic request: same index, same write log, same report -/
theorem C16_drained_rule {s : State} {t : T} (h : Shape s t) (hi : Inv s t) (hz : SizeOk s t) (anchor : Bytes) (r : Rule)
    (hne : lruIter anchor ≠ []) (N : Nat)
    (hN : 8 * ((s.rulePrologue anchor r).1.trie.size + 2) * ((s.rulePrologue anchor r).1.trie.size + 2) < N) :
    CoSt.drainW N s (.rule (RuleSt.init anchor r)) =
      ((s.addRule anchor r true).1, some (cw_outcome (s.addRule anchor r true).2)) :=
  Traph.cw_rule_drain h hi hz anchor r hne N hN

/-- the crawl-batch generator drained on its own IS the atomic request (index, write log, report), when each LRU is spelled one way in the batch (with two spellings `a|` and `a|x` of one LRU the generator rewrites one block once more: witness `cw_witness`) -/
theorem C16_drained_batch {s : State} {t : T} (hs : Shape s t) (hi : Inv s t) (data : List (Bytes × List Bytes))
    (hwf : (CoReq.batch data).Wf)
    (hinj : ∀ l l', cw_lrus data l → cw_lrus data l' → lruIter l = lruIter l' → l = l') (N : Nat)
    (hN : 2 * (data.map (fun d => d.2.length)).sum < N) :
    CoSt.drainW N s (.batch (BatchSt.init data)) = ((s.batch data).1, some (cw_outcome (s.batch data).2)) :=
  Traph.cw_batch_drain_exact hs hi data hwf hinj N hN

/-- the page and network query generators drained on their own give the atomic answers -/
theorem C16_drained_pages_net {s : State} {t : T} (h : Shape s t) (hg : cf_SumOk s) (ps : List Bytes)
    (hwf : ∀ pf ∈ ps, lruIter pf ≠ []) (out auto : Bool) :
    ∃ N0, ∀ N, N0 ≤ N →
      cf_drain N s (.pages { prefixes := ps }) = s.ask (.pages ps) ∧
      cf_drain N s (.net { out := out, auto := auto }) = s.ask (.network out auto false) :=
  Traph.cf_drain_atomic h hg ps hwf out auto

end Final

section NetQuery
open Traph State Layout
/-! ### the network query under interleaving (Proofs/CoNetBounds) — the two bounds of the property's last clause -/

/-- NETWORK QUERY, ONE BOUND, EVERY SCHEDULE, EVERY REACHABLE START STATE: whatever writers run in between, the answer is
    backed by the FINAL index: `cnb_AnsFull` = there is a list of distinct page blocks, each recorded with an id carried by
    the block itself or a stem-prefix above it (`cnb_Rec`), such that every row and target key is a recorded id (self-links
    only with `include_auto`), rows are keyed once with one entry per target and positive weights, the tallies of a row count
    its recorded pages, and every weight `g[A][B]` is at most the number of links (with multiplicity) from recorded pages
    of id A to recorded pages of id B in the final link lists (`cnb_linkW`). (The id a page is recorded with can be one it
    carried at an earlier moment: that is finding F16, mechanism 2.) -/
theorem C16_net_query_sound {s : State} (hreach : Reachable s) (reqs : List CoReq) (sched : Sched)
    (i : Nat) (out auto : Bool) (hreq : reqs[i]? = some (.queryNet out auto)) (a : Ans)
    (hdone : (i, CoOut.done a) ∈ (Sys.run (s, reqs.map CoReq.init) sched).2) :
    ∃ t t', Shape s t ∧ Shape (Sys.run (s, reqs.map CoReq.init) sched).1.1 t' ∧
      (∀ p b, (p, b) ∈ t.entries s [] → (p, b) ∈ t'.entries (Sys.run (s, reqs.map CoReq.init) sched).1.1 []) ∧
      ∃ g, a = .net g ∧ cnb_AnsFull (Sys.run (s, reqs.map CoReq.init) sched).1.1 t' out auto g :=
  Traph.C16_net_query_sound_reachable hreach reqs sched i out auto hreq a hdone

/-- NETWORK QUERY, OTHER BOUND: a link whose two end pages exist from the start and resolve to the same webentities A and B
    THROUGHOUT the execution (`cnb_res` = the nearest non-zero id along the blocks of the page's stem-prefixes; A ≠ B unless
    `include_auto`) is counted: the answer has a row A with an entry B of at least the link's starting weight -/
theorem C16_net_query_complete {s : State} (hreach : Reachable s) (reqs : List CoReq) (sched : Sched)
    (i : Nat) (out auto : Bool) (hreq : reqs[i]? = some (.queryNet out auto))
    (pa pb : LRU) (a b A B : Nat) (nodesA nodesB : List Nat) (hpa0 : pa ≠ []) (hpb0 : pb ≠ [])
    (ha : s.lruNode pa = some a) (hb : s.lruNode pb = some b)
    (hpa : (s.cell a).flags.page = true) (hpb : (s.cell b).flags.page = true)
    (hnA : nodesA.length = pa.length ∧ ∀ k (hk : k < nodesA.length), s.lruNode (pa.take (k + 1)) = some nodesA[k])
    (hnB : nodesB.length = pb.length ∧ ∀ k (hk : k < nodesB.length), s.lruNode (pb.take (k + 1)) = some nodesB[k])
    (hA : A ≠ 0) (hB : B ≠ 0) (hauto : auto = true ∨ A ≠ B)
    (hlink : 0 < count b (cf_listOf s out a))
    (hthr : Throughout (fun s' => cnb_res s' 0 nodesA = A ∧ cnb_res s' 0 nodesB = B) (s, reqs.map CoReq.init) sched)
    (g : List NetRow) (hdone : (i, CoOut.done (.net g)) ∈ (Sys.run (s, reqs.map CoReq.init) sched).2) :
    ∃ r ∈ g, r.src = A ∧ ∃ w', (B, w') ∈ r.targets ∧ count b (cf_listOf s out a) ≤ w' :=
  Traph.C16_net_query_complete_reachable hreach reqs sched i out auto hreq pa pb a b A B nodesA nodesB hpa0 hpb0 ha hb hpa hpb hnA hnB hA hB hauto hlink hthr g hdone

end NetQuery

end Traph.Props

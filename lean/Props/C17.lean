import Proofs.Variations
/-! C17 — prefix variations form closed classes. Proved on the byte-level function the executable model
    runs (`lruVariations`, the mirror of `helpers.lru_variations`), for every LRU of the property's
    grammar `Lru17` (scheme, optional port, contiguous host stems not ending in two `www`, then stems
    that are not host stems — which may *contain* `s:http` or `h:`). -/
namespace Traph.Props
open Traph

/-- never fails: the model function is total (the code raised IndexError on zero host stems — D6) and
    lists the prefix itself first, for *every* byte string -/
theorem C17_head (b : Bytes) : (lruVariations b).head? = some b := Traph.C17_head b

/-- no entry twice -/
theorem C17_nodup (x : Lru17) (h : x.Wf) : (lruVariations x.bytes).Nodup := Traph.C17_nodup x h

/-- changes nothing but the scheme stem and a trailing `www` host stem -/
theorem C17_local (x : Lru17) (h : x.Wf) : ∀ y ∈ lruVariations x.bytes, ∃ x' : Lru17, x'.Wf ∧ x'.bytes = y ∧
    x'.port = x.port ∧ x'.rest = x.rest ∧
    (x'.scheme = x.scheme ∨ (x.scheme = http ∧ x'.scheme = https) ∨ (x.scheme = https ∧ x'.scheme = http)) ∧
    (x'.hosts = x.hosts ∨ x'.hosts = x.hosts ++ [www] ∨ x'.hosts ++ [www] = x.hosts) := Traph.C17_local x h

/-- closed: expanding any member yields the same set -/
theorem C17_closed (x : Lru17) (h : x.Wf) : ∀ y ∈ lruVariations x.bytes, (lruVariations y).Perm (lruVariations x.bytes) :=
  Traph.C17_closed x h

/-- the byte-level function is the stem-level specification on the grammar -/
theorem C17_bridge (x : Lru17) (h : x.Wf) : lruVariations x.bytes = x.variations.map Lru17.bytes :=
  lruVariations_bytes x h

/-- consequently the webentity created automatically owns the same class whichever member was seen first:
    the list handed to `__add_prefixes` for `y` is a permutation of the one for `x` -/
theorem C17_order_independent (x : Lru17) (h : x.Wf) (y : Bytes) (hy : y ∈ lruVariations x.bytes) (z : Bytes) :
    z ∈ lruVariations y ↔ z ∈ lruVariations x.bytes := (Traph.C17_closed x h y hy).mem_iff

end Traph.Props

import Proofs.TopK
import Proofs.LinkLists
/-! C20 — most-linked pages: the bounded heap keeps the `k` largest keys `(indegree, arrival)`; the
    answer is in non-increasing order of indegree and no omitted page has a larger indegree than a
    listed one. The reported indegree of a page *with* inbound links is the number of distinct sources
    (`Proofs/LinkLists: weighted_spec`); for a page nobody links to the code reports 1 (finding D4),
    which the model reproduces under `cfg.lonelyIndegreeOne`. -/
namespace Traph.Props
open Traph State

theorem C20_topk_length (k : Nat) (xs : List (Nat × Nat × Bytes)) (h : (xs.map (·.2.1)).Nodup) :
    (topK k xs).length = min k xs.length := topK_length k xs h

theorem C20_topk_sublist (k : Nat) (xs : List (Nat × Nat × Bytes)) (h : (xs.map (·.2.1)).Nodup) :
    ∃ dropped, (topK k xs ++ dropped).Perm xs := topK_sublist_perm k xs h

/-- no omitted page has a larger indegree than a listed one -/
theorem C20_topk_max (k : Nat) (xs : List (Nat × Nat × Bytes)) (h : (xs.map (·.2.1)).Nodup) :
    ∀ kept ∈ topK k xs, ∀ d, d ∈ xs → d ∉ topK k xs → d.1 ≤ kept.1 := topK_max_indegree k xs h

/-- the answer, best first, is in non-increasing order of indegree -/
theorem C20_order (k : Nat) (xs : List (Nat × Nat × Bytes)) (h : (xs.map (·.2.1)).Nodup) :
    ((topK k xs).reverse.map (·.1)).Pairwise (· ≥ ·) := topK_reverse_nonincreasing k xs h

/-- the hypothesis is met by the list `mostLinked` builds (arrival numbers 1,2,3,…) -/
theorem C20_arrivals (pages : List (Bytes × Nat)) :
    ((((enumFrom 1 pages).map (fun ip => (ip.2.2, ip.1, ip.2.1))).map (·.2.1))).Nodup := mostLinked_keys_nodup pages

/-- reported indegree of a page with an in-list = number of distinct sources -/
theorem C20_indegree_linked (s : State) (head : Nat) (h : head ≠ 0) :
    s.indegreeEntries head = (s.walk head).eraseDups.length := by
  unfold indegreeEntries
  rw [if_neg h, ← deduped_eq]
  simp [deduped]

/-- D4 as a theorem about the model configured like the unchanged code, and its repaired counterpart -/
theorem C20_lonely_witness (s : State) (h : s.cfg.lonelyIndegreeOne = true) : s.indegreeEntries 0 = 1 := by
  simp [indegreeEntries, h]
theorem C20_lonely_repaired (s : State) (h : s.cfg.lonelyIndegreeOne = false) : s.indegreeEntries 0 = 0 := by
  simp [indegreeEntries, h]

end Traph.Props

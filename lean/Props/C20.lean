import Proofs.TopK
import Proofs.LinkLists
import Proofs.MostLinked
import Proofs.HeadlinesAll
/-! C20 — most-linked pages: the bounded heap keeps the `k` largest keys `(indegree, arrival)`; the
    answer is in non-increasing order of indegree and no omitted page has a larger indegree than a
    listed one. The reported indegree of a page *with* inbound links is the number of distinct sources
    (`Proofs/LinkLists: weighted_spec`); for a page nobody links to the code reports 1 (finding D4),
    which the model reproduces under `cfg.lonelyIndegreeOne`. -/
namespace Traph.Props
open Traph State

theorem C20_topk_length (k : Nat) (xs : List (Nat × Nat × Bytes)) (h : (xs.map (·.2.1)).Nodup) :
    (topK k xs).length = min k xs.length := topK_length k xs h

theorem C20_topk_sublist (k : Nat) (xs : List (Nat × Nat × Bytes)) (h : (xs.map (·.2.1)).Nodup) :
    ∃ dropped, (topK k xs ++ dropped).Perm xs := topK_sublist_perm k xs h

/-- no omitted page has a larger indegree than a listed one -/
theorem C20_topk_max (k : Nat) (xs : List (Nat × Nat × Bytes)) (h : (xs.map (·.2.1)).Nodup) :
    ∀ kept ∈ topK k xs, ∀ d, d ∈ xs → d ∉ topK k xs → d.1 ≤ kept.1 := topK_max_indegree k xs h

/-- the answer, best first, is in non-increasing order of indegree -/
theorem C20_order (k : Nat) (xs : List (Nat × Nat × Bytes)) (h : (xs.map (·.2.1)).Nodup) :
    ((topK k xs).reverse.map (·.1)).Pairwise (· ≥ ·) := topK_reverse_nonincreasing k xs h

/-- the hypothesis is met by the list `mostLinked` builds (arrival numbers 1,2,3,…) -/
theorem C20_arrivals (pages : List (Bytes × Nat)) :
    ((((enumFrom 1 pages).map (fun ip => (ip.2.2, ip.1, ip.2.1))).map (·.2.1))).Nodup := mostLinked_keys_nodup pages

/-- reported indegree of a page with an in-list = number of distinct sources -/
theorem C20_indegree_linked (s : State) (head : Nat) (h : head ≠ 0) :
    s.indegreeEntries head = (s.walk head).eraseDups.length := by
  unfold indegreeEntries
  rw [if_neg h, ← deduped_eq]
  simp [deduped]

/-- D4 as a theorem about the model configured like the unchanged code, and its repaired counterpart -/
theorem C20_lonely_witness (s : State) (h : s.cfg.lonelyIndegreeOne = true) : s.indegreeEntries 0 = 1 := by
  simp [indegreeEntries, h]
theorem C20_lonely_repaired (s : State) (h : s.cfg.lonelyIndegreeOne = false) : s.indegreeEntries 0 = 0 := by
  simp [indegreeEntries, h]

/-! ### the request itself, in every reachable state (Proofs/TraverseDepth, MostLinked) -/

/-- THE PROPERTY: for every reachable state, webentity `w` asked with a full prefix list, every `k` (0 included) and depth limit: the answer is `rank k` of the candidate pages = the pages of `w` within the depth limit with their reported indegree; at most `k`, exactly min(k, #candidates); non-increasing; no omitted candidate has a larger reported indegree than a listed one; no page twice; reported indegree = number of distinct source blocks of the in-list, and for a page nobody links to 1 under the unchanged code (known finding D4: the header block decoded as one stub; it also changes which pages are listed) and 0 with the repair -/
theorem C20_answer (cfg : Config) (dflt : Rule) (rules : List (Bytes × Rule)) (ops : List Op)
    (hrules : ∀ ar ∈ rules, lruIter ar.1 ≠ [])
    (hop : ∀ op ∈ ops, ∀ d rs, op ≠ .clear d rs) (hwf : ∀ op ∈ ops, OpWf op)
    (hok : NoKeyErr (State.fresh cfg dflt rules []).1 ops)
    (s : State) (hs : s = (State.fresh cfg dflt rules []).1.run ops) :
    ∃ t, Shape s t ∧ Traph.Inv s t ∧
      (∀ w ps k depth, FullPrefixList s w ps →
        ∃ pages l, s.mostLinked ps k depth = .ok l ∧ l = rank k pages ∧
          (∀ lru m, (lru, m) ∈ pages ↔ IsCandidate s t w depth lru m) ∧
          ((ps.map lruIter).Nodup → (pages.map (·.1)).Nodup) ∧
          l.length = min k pages.length ∧
          (∃ dropped, (l ++ dropped).Perm pages ∧ ∀ x ∈ l, ∀ d ∈ dropped, d.2 ≤ x.2) ∧
          (∀ lru m, (lru, m) ∈ l → IsCandidate s t w depth lru m) ∧
          (l.map (·.2)).Pairwise (· ≥ ·) ∧
          (∀ lru m, IsCandidate s t w depth lru m → (lru, m) ∉ l → ∀ x ∈ l, m ≤ x.2) ∧
          ((ps.map lruIter).Nodup → (l.map (·.1)).Nodup)) ∧
      (∀ head, head ≠ 0 → s.indegreeEntries head = (s.walk head).eraseDups.length) ∧
      (s.cfg.lonelyIndegreeOne = true → s.indegreeEntries 0 = 1 ∧
        ∀ head, s.indegreeEntries head = (s.walk head).eraseDups.length) ∧
      (s.cfg.lonelyIndegreeOne = false → s.indegreeEntries 0 = 0) ∧
      (∀ w, w ≠ 0 → FullPrefixList s w (prefixesOf s w) ∧ ((prefixesOf s w).map lruIter).Nodup) :=
  Traph.C20_reachable cfg dflt rules ops hrules hop hwf hok s hs

section EveryHistory
open Traph State Pag Layout
/-! ### every history (Proofs/Discipline, SinceClear, ReachableAll, HeadlinesAll) -/

/-- EVERY HISTORY, `clear` and `reopen` included, no request assumed away: the only hypotheses are that byte strings cut into at least one stem (`OpWf`), rule anchors are whole LRUs (`rulesCanonical`, `Canon`) and the caller re-supplies on `reopen` the rules the index carries, as the API requires (`Disciplined`); `clear` acts as a reset (`sinceClear`).  -/
theorem C20_all {s : State} (hs : Reachable s) :
    ∃ t, Shape s t ∧ Traph.Inv s t ∧
      (∀ w ps k depth, FullPrefixList s w ps →
        ∃ pages l, s.mostLinked ps k depth = .ok l ∧ l = rank k pages ∧
          (∀ lru m, (lru, m) ∈ pages ↔ IsCandidate s t w depth lru m) ∧
          ((ps.map lruIter).Nodup → (pages.map (·.1)).Nodup) ∧
          l.length = min k pages.length ∧
          (∃ dropped, (l ++ dropped).Perm pages ∧ ∀ x ∈ l, ∀ d ∈ dropped, d.2 ≤ x.2) ∧
          (∀ lru m, (lru, m) ∈ l → IsCandidate s t w depth lru m) ∧
          (l.map (·.2)).Pairwise (· ≥ ·) ∧
          (∀ lru m, IsCandidate s t w depth lru m → (lru, m) ∉ l → ∀ x ∈ l, m ≤ x.2) ∧
          ((ps.map lruIter).Nodup → (l.map (·.1)).Nodup)) ∧
      (∀ head, head ≠ 0 → s.indegreeEntries head = (s.walk head).eraseDups.length) ∧
      (s.cfg.lonelyIndegreeOne = true → s.indegreeEntries 0 = 1 ∧
        ∀ head, s.indegreeEntries head = (s.walk head).eraseDups.length) ∧
      (s.cfg.lonelyIndegreeOne = false → s.indegreeEntries 0 = 0) ∧
      (∀ w, w ≠ 0 → FullPrefixList s w (prefixesOf s w) ∧ ((prefixesOf s w).map lruIter).Nodup) :=
  Traph.C20_all_reachable hs

end EveryHistory

end Traph.Props

import Proofs.Small
import Proofs.Resolve
/-! C04 — webentity resolution. Proved so far: resolving the webentity and resolving the defining prefix
    are two projections of one walk — one succeeds iff the other does, with the library's own error
    otherwise — and the defining prefix is an initial part of the query; the point query answers from
    the located block. Longest-prefix over net edits is under construction (Proofs/Shape*). -/
namespace Traph.Props
open Traph State

theorem C04_consistent (s : State) (lru : Bytes) (hne : lruIter lru ≠ [] → True) :
    (∃ w, s.retrieveWebentity lru = .ok w) ↔ (∃ p, s.retrievePrefix lru = .ok p ∨ (s.followLru (lruIter lru)).2.wePos = some 0) := by
  have hi := followLru_inv s (lruIter lru)
  unfold retrieveWebentity retrievePrefix
  rcases hf : s.followLru (lruIter lru) with ⟨n, h⟩
  rw [hf] at hi
  simp only at hi ⊢
  constructor
  · rintro ⟨w, hw⟩
    split at hw
    · cases hw
    · rename_i hne0
      have := hi.mp hne0
      cases hp : h.wePos with
      | none => exact absurd hp this
      | some p =>
        by_cases p0 : p = 0
        · exact ⟨[], Or.inr (by rw [p0])⟩
        · exact ⟨lru.take p, Or.inl (by simp [p0])⟩
  · rintro ⟨p, hp | hp⟩
    · cases hq : h.wePos with
      | none => rw [hq] at hp; cases hp
      | some q =>
        have : h.we ≠ 0 := hi.mpr (by rw [hq]; simp)
        exact ⟨h.we, by simp [this]⟩
    · have : h.we ≠ 0 := hi.mpr (by rw [hp]; simp)
      exact ⟨h.we, by simp [this]⟩

/-- LONGEST-PREFIX MATCH: for any LRU (indexed, partially indexed or absent) the resolved webentity is
    the id of the DEEPEST cell, among the cells of the stem-prefixes of the LRU that exist in the index,
    that carries one (`pathCells` are exactly those cells, top-down — `pathCells_entries`); 0 ("no
    webentity", answered as the library's own error) iff none does -/
theorem C04_resolve {s : State} {t : T} (h : Shape s t) (stems : LRU) (hne : stems ≠ []) :
    (s.followLru stems).2.we = lastWe ((t.pathCells s stems).map (fun c => (s.cell c.1).we)) :=
  followLru_we h stems hne

/-- the cells consulted are the nodes of the existing stem-prefixes of the query, in order -/
theorem C04_path_cells_are_prefixes {s : State} {t : T} (h : Shape s t) (stems : LRU) :
    ∀ k, k < (t.pathCells s stems).length →
      (stems.take (k + 1), ((t.pathCells s stems)[k]!).1) ∈ t.entries s [] := by
  intro k hk
  have := pathCells_entries (pre := []) h.ord h.nodup stems k hk
  simpa using this

/-- an indexed LRU is located by the same walk (the three resolution entry points share it) -/
theorem C04_indexed {s : State} {t : T} (h : Shape s t) (stems : LRU) (hne : stems ≠ []) (b : Nat)
    (hb : (stems, b) ∈ t.entries s []) : (s.followLru stems).1 = some b := C07_followLru_node h stems hne b hb

/-- failures of both resolutions are the library's own error -/
theorem C04_errors (s : State) (lru : Bytes) (e : Err) :
    (s.retrieveWebentity lru = .error e ∨ s.retrievePrefix lru = .error e) → e = .traph := by
  unfold retrieveWebentity retrievePrefix
  rcases s.followLru (lruIter lru) with ⟨n, h⟩
  simp only
  rintro (h1 | h1)
  · split at h1 <;> cases h1; rfl
  · split at h1
    · split at h1 <;> cases h1; rfl
    · cases h1; rfl

/-- the defining prefix is an initial segment of the queried LRU -/
theorem C04_prefix_of_query (s : State) (lru p : Bytes) (h : s.retrievePrefix lru = .ok p) : ∃ k, p = lru.take k := by
  unfold retrievePrefix at h
  rcases s.followLru (lruIter lru) with ⟨n, hh⟩
  simp only at h
  split at h
  · rename_i q _
    split at h
    · cases h
    · cases h; exact ⟨q, rfl⟩
  · cases h

/-- the point query answers the id stored at the located block, or refuses -/
theorem C04_point_query (s : State) (p : Bytes) (w : Nat) (h : s.webentityByPrefix p = .ok w) :
    ∃ n, s.lruNode (lruIter p) = some n ∧ (s.cell n).we = w ∧ w ≠ 0 := by
  unfold webentityByPrefix at h
  cases hn : s.lruNode (lruIter p) with
  | none => rw [hn] at h; cases h
  | some n =>
    rw [hn] at h
    simp only at h
    split at h
    · cases h
    · rename_i hne; cases h; exact ⟨n, rfl, rfl, by simpa using hne⟩

end Traph.Props

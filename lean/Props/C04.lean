import Proofs.Small
import Proofs.Resolve
import Proofs.WeMapRun
import Proofs.HeadlinesAll
import Proofs.DerivedOps
import Proofs.DerivedReach
/-! C04 — webentity resolution is longest-prefix match over the net prefix edits, in full: in every reachable
    state resolution returns the id at the longest stem-prefix of the query that carries one (`C04_resolve`,
    Proofs/Resolve), and over histories the attachment map is exactly the fold of the abstract edits
    (`C04_history_fresh`, `C04_history_edits`, Proofs/WeMap*); attaching an attached prefix is refused
    (`C04_refuse_attached`); a refused deletion changes nothing (`C04_delete`). -/
namespace Traph.Props
open Traph State

theorem C04_consistent (s : State) (lru : Bytes) (hne : lruIter lru ≠ [] → True) :
    (∃ w, s.retrieveWebentity lru = .ok w) ↔ (∃ p, s.retrievePrefix lru = .ok p ∨ (s.followLru (lruIter lru)).2.wePos = some 0) := by
  have hi := followLru_inv s (lruIter lru)
  unfold retrieveWebentity retrievePrefix
  rcases hf : s.followLru (lruIter lru) with ⟨n, h⟩
  rw [hf] at hi
  simp only at hi ⊢
  constructor
  · rintro ⟨w, hw⟩
    split at hw
    · cases hw
    · rename_i hne0
      have := hi.mp hne0
      cases hp : h.wePos with
      | none => exact absurd hp this
      | some p =>
        by_cases p0 : p = 0
        · exact ⟨[], Or.inr (by rw [p0])⟩
        · exact ⟨lru.take p, Or.inl (by simp [p0])⟩
  · rintro ⟨p, hp | hp⟩
    · cases hq : h.wePos with
      | none => rw [hq] at hp; cases hp
      | some q =>
        have : h.we ≠ 0 := hi.mpr (by rw [hq]; simp)
        exact ⟨h.we, by simp [this]⟩
    · have : h.we ≠ 0 := hi.mpr (by rw [hp]; simp)
      exact ⟨h.we, by simp [this]⟩

/-- LONGEST-PREFIX MATCH: for any LRU (indexed, partially indexed or absent) the resolved webentity is
    the id of the DEEPEST cell, among the cells of the stem-prefixes of the LRU that exist in the index,
    that carries one (`pathCells` are exactly those cells, top-down — `pathCells_entries`); 0 ("no
    webentity", answered as the library's own error) iff none does -/
theorem C04_resolve {s : State} {t : T} (h : Shape s t) (stems : LRU) (hne : stems ≠ []) :
    (s.followLru stems).2.we = lastWe ((t.pathCells s stems).map (fun c => (s.cell c.1).we)) :=
  followLru_we h stems hne

/-- the cells consulted are the nodes of the existing stem-prefixes of the query, in order -/
theorem C04_path_cells_are_prefixes {s : State} {t : T} (h : Shape s t) (stems : LRU) :
    ∀ k, k < (t.pathCells s stems).length →
      (stems.take (k + 1), ((t.pathCells s stems)[k]!).1) ∈ t.entries s [] := by
  intro k hk
  have := pathCells_entries (pre := []) h.ord h.nodup stems k hk
  simpa using this

/-- an indexed LRU is located by the same walk (the three resolution entry points share it) -/
theorem C04_indexed {s : State} {t : T} (h : Shape s t) (stems : LRU) (hne : stems ≠ []) (b : Nat)
    (hb : (stems, b) ∈ t.entries s []) : (s.followLru stems).1 = some b := C07_followLru_node h stems hne b hb

/-- failures of both resolutions are the library's own error -/
theorem C04_errors (s : State) (lru : Bytes) (e : Err) :
    (s.retrieveWebentity lru = .error e ∨ s.retrievePrefix lru = .error e) → e = .traph := by
  unfold retrieveWebentity retrievePrefix
  rcases s.followLru (lruIter lru) with ⟨n, h⟩
  simp only
  rintro (h1 | h1)
  · split at h1 <;> cases h1; rfl
  · split at h1
    · split at h1 <;> cases h1; rfl
    · cases h1; rfl

/-- the defining prefix is an initial segment of the queried LRU -/
theorem C04_prefix_of_query (s : State) (lru p : Bytes) (h : s.retrievePrefix lru = .ok p) : ∃ k, p = lru.take k := by
  unfold retrievePrefix at h
  rcases s.followLru (lruIter lru) with ⟨n, hh⟩
  simp only at h
  split at h
  · rename_i q _
    split at h
    · cases h
    · cases h; exact ⟨q, rfl⟩
  · cases h

/-- the point query answers the id stored at the located block, or refuses -/
theorem C04_point_query (s : State) (p : Bytes) (w : Nat) (h : s.webentityByPrefix p = .ok w) :
    ∃ n, s.lruNode (lruIter p) = some n ∧ (s.cell n).we = w ∧ w ≠ 0 := by
  unfold webentityByPrefix at h
  cases hn : s.lruNode (lruIter p) with
  | none => rw [hn] at h; cases h
  | some n =>
    rw [hn] at h
    simp only at h
    split at h
    · cases h
    · rename_i hne; cases h; exact ⟨n, rfl, rfl, by simpa using hne⟩

/-! ### history level (Proofs/WeMap*): "currently" = the net effect of the edits -/

/-- THE PROPERTY over histories: after any history from a fresh index, resolution of any query LRU (indexed or not) is longest-stem-prefix match in the map obtained by folding the abstract edits (`specOp`: add/remove/move/delete/create and the creations reported by page requests) over the transcript; it fails with the library's own error iff no stem-prefix is attached -/
theorem C04_history_fresh (cfg : Config) (dflt : Rule) (rules : List (Bytes × Rule)) (ops : List Op)
    (hop : ∀ op ∈ ops, ∀ d rs, op ≠ .clear d rs) (hwf : ∀ op ∈ ops, OpWfWe op)
    (hok : NoKeyErr (State.fresh cfg dflt rules []).1 ops) (q : Bytes) :
    let s0 := (State.fresh cfg dflt rules []).1
    let M := specFold (fun _ => 0) (s0.transcript ops)
    (∀ w, (s0.run ops).retrieveWebentity q = .ok w ↔
      ∃ k, LongestAt M (lruIter q) k ∧ w = M ((lruIter q).take k)) ∧
    (∀ e, (s0.run ops).retrieveWebentity q = .error e ↔ e = .traph ∧ NoneAt M (lruIter q)) ∧
    (∀ p, (s0.run ops).retrievePrefix q = .ok p ↔
      ∃ k, LongestAt M (lruIter q) k ∧ p = ((lruIter q).take k).flatten) ∧
    (∀ e, (s0.run ops).retrievePrefix q = .error e ↔ e = .traph ∧ NoneAt M (lruIter q)) :=
  Traph.C04_history_fresh cfg dflt rules ops hop hwf hok q

/-- the same against a pure, computable specification of the six explicit edit requests (map, id counter and answers) -/
theorem C04_history_edits {s : State} {t : T} (h : Shape s t) (ops : List Op)
    (he : ∀ op ∈ ops, IsEdit op) (hwf : ∀ op ∈ ops, OpWfWe op) (q : Bytes) :
    let M := (pureRun (s.weMap, s.hdrId) ops).1.1
    (∀ w, (s.run ops).retrieveWebentity q = .ok w ↔
      ∃ k, LongestAt M (lruIter q) k ∧ w = M ((lruIter q).take k)) ∧
    (∀ e, (s.run ops).retrieveWebentity q = .error e ↔ e = .traph ∧ NoneAt M (lruIter q)) ∧
    (∀ p, (s.run ops).retrievePrefix q = .ok p ↔
      ∃ k, LongestAt M (lruIter q) k ∧ p = ((lruIter q).take k).flatten) ∧
    (∀ e, (s.run ops).retrievePrefix q = .error e ↔ e = .traph ∧ NoneAt M (lruIter q)) :=
  Traph.C04_history_edits h ops he hwf q

/-- attaching a prefix that is already attached is refused with the library's own error and changes nothing; otherwise the map gains exactly that attachment -/
theorem C04_refuse_attached {s : State} {t : T} (h : Shape s t) (pfx : Bytes) (w : Nat) (hne : lruIter pfx ≠ []) :
    (s.weMap (lruIter pfx) ≠ 0 →
      (s.addPrefix pfx w).2 = .error .traph ∧ (s.addPrefix pfx w).1.weMap = s.weMap) ∧
    (s.weMap (lruIter pfx) = 0 →
      (s.addPrefix pfx w).2 = .ok () ∧ (s.addPrefix pfx w).1.weMap = mapSet s.weMap (lruIter pfx) w) :=
  Traph.addPrefix_spec h pfx w hne

/-- deletion: all listed prefixes detached at once, or refused with the state literally unchanged (validated before anything is written) -/
theorem C04_delete {s : State} {t : T} (h : Shape s t) (w : Nat) (ps : List Bytes)
    (hne : ∀ p ∈ ps, lruIter p ≠ []) :
    (deleteOk s.weMap w ps →
      (s.deleteWebentity w ps).2 = .ok () ∧
      (s.deleteWebentity w ps).1.weMap = mapSetAll s.weMap (ps.map lruIter) 0) ∧
    (¬ deleteOk s.weMap w ps →
      (s.deleteWebentity w ps).2 = .error .traph ∧ (s.deleteWebentity w ps).1 = s) :=
  Traph.deleteWebentity_spec h w ps hne

/-- `delete_webentity(…, check_for_corruption=False)` (not a constructor of `Op`; modelled as `deleteUnchecked` and run by
    the driver): when every listed prefix is in the index it IS the run of `remove_prefix_from_webentity(p)` over the
    distinct prefixes in order of first occurrence — same index, same write log — so every history theorem covers it -/
theorem C04_delete_unchecked {s : State} {t : T} (hs : Shape s t) (ps : List Bytes)
    (hloc : ∀ p ∈ ps, s.lruNode (lruIter p) ≠ none) :
    s.deleteUnchecked ps = (s.run ((dedupKeys ps).map (fun p => Op.removePrefix p none)), .ok ()) :=
  Traph.deleteUnchecked_eq_run hs ps hloc

/-- …and when some prefix is not in the index it fails with Python's AttributeError having detached exactly the distinct
    prefixes before the first such one (the unchecked deletion is not atomic) -/
theorem C04_delete_unchecked_fails {s : State} {t : T} (hs : Shape s t) (ps : List Bytes)
    (hmiss : ∃ p ∈ ps, s.lruNode (lruIter p) = none) :
    ∃ before p rest, dedupKeys ps = before ++ p :: rest ∧ s.lruNode (lruIter p) = none ∧
      (∀ q ∈ before, s.lruNode (lruIter q) ≠ none) ∧
      s.deleteUnchecked ps = (s.run (before.map (fun q => Op.removePrefix q none)), .error (.other "AttributeError")) :=
  Traph.deleteUnchecked_fail hs ps hmiss

/-- …and in either case the index it leaves is again a reachable one: every theorem about reachable states applies after an
    unchecked deletion, whatever prefixes it was given -/
theorem C04_delete_unchecked_reachable {s : State} (h : Reachable s) (ps : List Bytes) :
    Reachable (s.deleteUnchecked ps).1 := Traph.deleteUnchecked_reachable_any h ps

section EveryHistory
open Traph State Pag Layout
/-! ### every history (Proofs/Discipline, SinceClear, ReachableAll, HeadlinesAll) -/

/-- EVERY HISTORY, `clear` and `reopen` included, no request assumed away: the only hypotheses are that byte strings cut into at least one stem (`OpWf`), rule anchors are whole LRUs (`rulesCanonical`, `Canon`) and the caller re-supplies on `reopen` the rules the index carries, as the API requires (`Disciplined`); `clear` acts as a reset (`sinceClear`).  -/
theorem C04_history_all (cfg : Config) (dflt : Rule) (rules : List (Bytes × Rule)) (ops : List Op)
    (hr : rulesCanonical rules) (hwe : ∀ op ∈ sinceClear ops, OpWfWe op)
    (hd : Disciplined (State.fresh cfg dflt rules []).1 ops) (q : Bytes) :
    let s0 := (State.fresh cfg dflt rules []).1
    let M := specFold (fun _ => 0) (sinceClearT (s0.transcript ops))
    (∀ w, (s0.run ops).retrieveWebentity q = .ok w ↔
      ∃ k, LongestAt M (lruIter q) k ∧ w = M ((lruIter q).take k)) ∧
    (∀ e, (s0.run ops).retrieveWebentity q = .error e ↔ e = .traph ∧ NoneAt M (lruIter q)) ∧
    (∀ p, (s0.run ops).retrievePrefix q = .ok p ↔
      ∃ k, LongestAt M (lruIter q) k ∧ p = ((lruIter q).take k).flatten) ∧
    (∀ e, (s0.run ops).retrievePrefix q = .error e ↔ e = .traph ∧ NoneAt M (lruIter q)) :=
  Traph.C04_history_all cfg dflt rules ops hr hwe hd q

end EveryHistory

end Traph.Props

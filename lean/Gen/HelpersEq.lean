import Gen.Helpers
import Proofs.Tokens
import Proofs.Chunks
/-! The translation tie for `traph/helpers.py`: every function generated from the source by `gen/gen_helpers.py`
    (`Gen/Helpers.lean`, regenerated on every run) equals the hand-written model function the property theorems are
    about (`Traph/Helpers.lean`) — for every argument, with no exception raised where the model answers, and with an
    exception exactly where the model says `none`.  So `C17_*`, the token theorems of C09/C10 and the chunk
    arithmetic of C19/C02 are theorems about what helpers.py says now. -/
namespace Traph.Gen
open Traph

/-! ### https_variation / lru_variations -/

theorem https_variation_eq (lru : Bytes) : https_variation lru = .ok (httpsVariation lru) := by
  unfold https_variation httpsVariation
  simp only [Py.startswith, Py.replace1, sHttp, sHttps]
  by_cases h1 : startsWith lru [115, 58, 104, 116, 116, 112, 124] = true
  · simp [h1]; rfl
  · by_cases h2 : startsWith lru [115, 58, 104, 116, 116, 112, 115, 124] = true
    · simp [h1, h2]; rfl
    · simp [h1, h2]; rfl

theorem ge_replace1_snoc (b a new : Bytes) (c : Nat) :
    Py.replace1 b (a ++ [c]) new = replaceFirst (a ++ [c]) new b := by
  unfold Py.replace1
  cases a <;> simp

theorem ge_startsWith_append (p r : Bytes) : startsWith (p ++ r) p = true := by
  induction p with
  | nil => cases r <;> simp [startsWith]
  | cons a p ih => simp [startsWith, ih]

theorem ge_startsWith_eq (b p : Bytes) (h : startsWith b p = true) : b = p ++ b.drop p.length := by
  induction p generalizing b with
  | nil => simp
  | cons a p ih =>
    cases b with
    | nil => simp [startsWith] at h
    | cons x b =>
      simp [startsWith] at h
      simp [h.1]
      exact ih b h.2

theorem ge_hv_nonempty (lru v : Bytes) (h : httpsVariation lru = some v) : v.isEmpty = false := by
  unfold httpsVariation at h
  split at h
  · next h1 =>
    have := ge_startsWith_eq _ _ h1
    rw [this] at h
    simp [sHttp, sHttps, replaceFirst, startsWith] at h
    rw [← h]; rfl
  · split at h
    · next h1 =>
      have := ge_startsWith_eq _ _ h1
      rw [this] at h
      simp [sHttp, sHttps, replaceFirst, startsWith] at h
      rw [← h]; rfl
    · cases h

theorem lru_variations_eq (lru : Bytes) : lru_variations lru = .ok (lruVariations lru) := by
  unfold lru_variations lruVariations
  simp only [https_variation_eq, Py.split1, Py.startswith, Py.join, ge_replace1_snoc, Layout.sep, hPrefix, hWww]
  by_cases hl : lru.isEmpty = true
  · simp [hl]; rfl
  · cases hv : httpsVariation lru with
    | none => 
      simp only [bind, Except.bind, pure, Except.pure]
      obtain ⟨hosts, hH⟩ : ∃ hosts, hosts = List.filter (fun s => startsWith s [104,58]) (splitOn 124 lru) := ⟨_, rfl⟩
      simp only [← hH]
      clear hH
      rcases List.eq_nil_or_concat hosts with rfl | ⟨init, last, rfl⟩
      · simp [hl]
      · simp [hl, Py.last, Py.popLast]
        by_cases hi : init = []
        · simp [hi]
        · by_cases hw : last = [104, 58, 119, 119, 119]
          · by_cases hn : init.length = 1 <;> simp [hi, hw, hn]
          · simp [hi, hw]
    | some v =>
      have hne := ge_hv_nonempty lru v hv
      simp only [bind, Except.bind, pure, Except.pure]
      obtain ⟨hosts, hH⟩ : ∃ hosts, hosts = List.filter (fun s => startsWith s [104,58]) (splitOn 124 lru) := ⟨_, rfl⟩
      simp only [← hH]
      clear hH
      rcases List.eq_nil_or_concat hosts with rfl | ⟨init, last, rfl⟩
      · simp [hl, hne]
      · simp [hl, hne, Py.last, Py.popLast]
        by_cases hi : init = []
        · simp [hi]
        · by_cases hw : last = [104, 58, 119, 119, 119]
          · by_cases hn : init.length = 1 <;> simp [hi, hw, hn]
          · simp [hi, hw]

/-! ### lru_iter / lru_dirname -/

theorem ge_slice1 (b : Bytes) (i : Nat) : Py.slice b i (i+1) = (b.drop i).take 1 := by
  simp [Py.slice]

theorem ge_slice_succ (b : Bytes) (i j : Nat) (hij : i ≤ j) (hj : j < b.length) :
    Py.slice b i (j+1) = Py.slice b i j ++ [b[j]] := by
  unfold Py.slice
  have e : j + 1 - i = (j - i) + 1 := by omega
  rw [e, List.take_add_one]
  congr 1
  rw [List.getElem?_drop]
  have : i + (j - i) = j := by omega
  simp [this, hj]

theorem ge_slice_self (b : Bytes) (i : Nat) : Py.slice b i i = [] := by
  simp [Py.slice]

theorem ge_lru_iter_loop (lru : Bytes) : ∀ (k a : Nat) (out : List Bytes) (last : Nat),
    a + k = lru.length → last ≤ a →
    ∃ last', forIn (m := Py.M) (List.range' a k) (out, last) (fun i_ (__s : List Bytes × Nat) =>
        if (Py.slice lru i_ (i_ + 1) == [124]) = true then
          pure (ForInStep.yield (__s.fst ++ [Py.slice lru __s.snd (i_ + 1)], i_ + 1))
        else pure (ForInStep.yield (__s.fst, __s.snd)))
      = .ok (out ++ lruIterGo (lru.drop a) (Py.slice lru last a).reverse, last') := by
  intro k
  induction k with
  | zero =>
    intro a out last h1 h2
    refine ⟨last, ?_⟩
    have : lru.drop a = [] := List.drop_eq_nil_of_le (by omega)
    simp [this, lruIterGo]; rfl
  | succ k ih =>
    intro a out last h1 h2
    have ha : a < lru.length := by omega
    have hd : lru.drop a = lru[a] :: lru.drop (a+1) := List.drop_eq_getElem_cons ha
    simp only [List.range'_succ, List.forIn_cons]
    by_cases hc : lru[a] = 124
    · have hs : (Py.slice lru a (a + 1) == [124]) = true := by
        simp [ge_slice1, hd, hc]
      simp only [hs, if_true]
      obtain ⟨l', h'⟩ := ih (a+1) (out ++ [Py.slice lru last (a + 1)]) (a+1) (by omega) (by omega)
      refine ⟨l', ?_⟩
      simp only [pure_bind]
      rw [h', hd, ge_slice_self, ge_slice_succ lru last a h2 ha]
      simp [lruIterGo, hc, Layout.sep]
    · have hs : (Py.slice lru a (a + 1) == [124]) = false := by
        rw [ge_slice1, hd, List.take_succ_cons, List.take_zero]; simp [hc]
      simp only [hs, Bool.false_eq_true, if_false]
      obtain ⟨l', h'⟩ := ih (a+1) out last (by omega) (by omega)
      refine ⟨l', ?_⟩
      simp only [pure_bind]
      rw [h', hd, ge_slice_succ lru last a h2 ha]
      simp [lruIterGo, hc, Layout.sep]

theorem lru_iter_eq (lru : Bytes) : lru_iter lru = .ok (lruIter lru) := by
  simp only [lru_iter]
  obtain ⟨l', h'⟩ := ge_lru_iter_loop lru lru.length 0 [] 0 (by omega) (by omega)
  rw [List.range_eq_range', h']
  simp [ge_slice_self, lruIter]
  rfl

theorem lru_dirname_eq (lru : Bytes) : lru_dirname lru = .ok (lruDirname lru) := by
  simp only [lru_dirname, lru_iter_eq]
  rfl

/-! ### chunks -/

/-- the chunks, each flagged "is the last one" -/
def flagLast (cs : List Bytes) : List (Bool × Bytes) :=
  (List.range cs.length).zip cs |>.map (fun ic => (ic.1 + 1 == cs.length, ic.2))

theorem ge_chunks_loop (n nb : Nat) (s : Bytes) (hnb : 1 ≤ nb) : ∀ (l : List Nat) (out : List (Bool × Bytes)) (st : Nat),
    ∃ st', forIn (m := Py.M) l (out, st) (fun chunk_ (__s : List (Bool × Bytes) × Nat) => do
            let __do_lift ← Py.sub nb 1
            pure
                (ForInStep.yield
                  (__s.fst ++ [(chunk_ == __do_lift, Py.slice s (chunk_ * n) (chunk_ * n + n))], chunk_ * n)))
      = .ok (out ++ l.map (fun c => (c == nb - 1, Py.slice s (c * n) (c * n + n))), st') := by
  intro l
  have hsub : Py.sub nb 1 = pure (nb - 1) := by simp [Py.sub, hnb]; rfl
  simp only [hsub, pure_bind]
  induction l with
  | nil => intro out st; exact ⟨st, by simp; rfl⟩
  | cons c l ih =>
    intro out st
    obtain ⟨st', h⟩ := ih (out ++ [(c == nb - 1, Py.slice s (c * n) (c * n + n))]) (c * n)
    refine ⟨st', ?_⟩
    simp only [List.forIn_cons, pure_bind]
    rw [h]
    simp

theorem ge_slice_drop (s : Bytes) (n i j : Nat) : Py.slice (s.drop n) i j = Py.slice s (i + n) (j + n) := by
  unfold Py.slice
  rw [List.drop_drop, Nat.add_comm n i]
  congr 1
  omega

theorem ge_chunksGo_eq (n : Nat) (hn : 0 < n) : ∀ (fuel : Nat) (s : Bytes), s.length < fuel →
    chunksGo n fuel s = (List.range ((s.length + n - 1) / n)).map (fun c => Py.slice s (c * n) (c * n + n))
  | 0, s, h => by omega
  | fuel + 1, [], _ => by
    rw [chunksGo_nil]
    have : ([] : Bytes).length + n - 1 = n - 1 := by simp
    rw [this, Nat.div_eq_of_lt (by omega)]; rfl
  | fuel + 1, a :: t, h => by
    rw [chunksGo_cons, ge_chunksGo_eq n hn fuel _ (by simp only [List.length_drop, List.length_cons] at *; omega),
      List.length_drop, ceil_step n (a :: t).length hn (by simp), List.range_succ_eq_map, List.map_cons, List.map_map]
    congr 1
    · simp [Py.slice]
    · apply List.map_congr_left
      intro c _
      simp only [Function.comp, ge_slice_drop, Nat.succ_mul]

theorem ge_zip_map {α β} (g : α → β) : ∀ l : List α, l.zip (l.map g) = l.map (fun x => (x, g x))
  | [] => rfl
  | a :: l => by simp [ge_zip_map g l]

theorem ge_flagLast_map (nb : Nat) (g : Nat → Bytes) :
    flagLast ((List.range nb).map g) = (List.range nb).map (fun c => (c == nb - 1, g c)) := by
  unfold flagLast
  simp only [List.length_map, List.length_range, ge_zip_map, List.map_map]
  apply List.map_congr_left
  intro c hc
  have : c < nb := List.mem_range.mp hc
  simp only [Function.comp]
  have : (c + 1 == nb) = (c == nb - 1) := by
    rw [Bool.eq_iff_iff]; simp only [beq_iff_eq]; omega
  rw [this]

theorem detailed_chunks_iter_eq (n : Nat) (s : Bytes) (hn : 0 < n) :
    detailed_chunks_iter n s = .ok (flagLast (chunks n s)) := by
  simp only [detailed_chunks_iter]
  by_cases h : s.length ≤ n
  · simp [h, chunks, flagLast]; rfl
  · have hnb : 1 ≤ (s.length + n - 1) / n := by
      rw [Nat.le_div_iff_mul_le hn]; omega
    have hc : Py.ceilDiv s.length n = pure ((s.length + n - 1) / n) := by
      simp [Py.ceilDiv, Nat.ne_of_gt hn]; rfl
    obtain ⟨st', h'⟩ := ge_chunks_loop n _ s hnb (List.range ((s.length + n - 1) / n)) [] 0
    simp only [h, decide_false, Bool.false_eq_true, if_false, hc, pure_bind]
    rw [h']
    simp only [chunks, h, if_false, ge_chunksGo_eq n hn (s.length + 1) s (by omega), ge_flagLast_map]
    rfl

theorem ge_collect_loop : ∀ (l : List (Bool × Bytes)) (out : List Bytes),
    forIn (m := Py.M) l out (fun x __s => pure (ForInStep.yield (__s ++ [x.snd]))) = .ok (out ++ l.map (·.2))
  | [], out => by simp; rfl
  | x :: l, out => by
    simp only [List.forIn_cons, pure_bind]
    rw [ge_collect_loop l]; simp

theorem ge_flagLast_snd (cs : List Bytes) : (flagLast cs).map (·.2) = cs := by
  unfold flagLast
  simp only [List.map_map]
  have : ((fun x : Bool × Bytes => x.snd) ∘ fun ic : Nat × Bytes => (ic.fst + 1 == cs.length, ic.snd)) = Prod.snd := rfl
  rw [this, List.map_snd_zip]
  simp

theorem chunks_iter_eq (n : Nat) (s : Bytes) (hn : 0 < n) : chunks_iter n s = .ok (chunks n s) := by
  simp only [chunks_iter, detailed_chunks_iter_eq n s hn]
  show (forIn (m := Py.M) (flagLast (chunks n s)) [] _ >>= _) = _
  rw [ge_collect_loop, ge_flagLast_snd]
  rfl

/-- with a zero chunk size the code divides by zero on any non-empty string (the library always passes 74) -/
theorem chunks_iter_zero (s : Bytes) (hs : s ≠ []) : chunks_iter 0 s = .error (.exc "ZeroDivisionError") := by
  have : ¬ s.length ≤ 0 := by
    cases s with
    | nil => exact absurd rfl hs
    | cons a t => simp
  simp only [chunks_iter, detailed_chunks_iter, this, decide_false, Bool.false_eq_true, if_false, Py.ceilDiv, if_true]
  rfl

/-! ### base-4 / base-64 digits -/

theorem base4_append_eq (p n : Nat) : base4_append p n = .ok (base4Append p n) := by
  rfl

theorem ge_strIndex_digit (d : Nat) (h : d < 64) : Py.strIndex C_BASE64 d = pure [digitChar d] := by
  have hl : d < C_BASE64.length := h
  unfold Py.strIndex digitChar
  rw [List.getD_eq_getElem?_getD]
  show (match C_BASE64[d]? with | some c => Except.ok [c] | none => _) = pure [C_BASE64[d]?.getD 0]
  rw [List.getElem?_eq_getElem hl]
  rfl

theorem ge_base_loop (b sh : Nat) (hb : 2 ≤ b) (hb' : b ≤ 64) (hsh : ∀ x, x >>> sh = x / b) :
    ∀ (l : List Nat) (x : Nat) (ds : List Bytes) (fuel : Nat), x ≤ l.length → x < fuel →
    ∃ ds', forIn (m := Py.M) l (x, ds) (fun _ (__s : Nat × List Bytes) =>
            if (!__s.fst != 0) = true then pure (ForInStep.done (__s.fst, __s.snd))
            else do
              let __do_lift ← Py.strIndex C_BASE64 (__s.fst % b)
              pure (ForInStep.yield (__s.fst >>> sh, __s.snd ++ [__do_lift])))
      = .ok (0, ds') ∧ ds'.reverse.flatten = toBaseGo b fuel x ds.reverse.flatten := by
  intro l
  induction l with
  | nil =>
    intro x ds fuel h1 h2
    have : x = 0 := by simpa using h1
    subst this
    refine ⟨ds, by simp; rfl, ?_⟩
    cases fuel <;> simp [toBaseGo]
  | cons i l ih =>
    intro x ds fuel h1 h2
    cases fuel with
    | zero => omega
    | succ f =>
      by_cases hx : x = 0
      · subst hx
        exact ⟨ds, by simp; rfl, by simp [toBaseGo]⟩
      · have hq : x / b < x := Nat.div_lt_self (by omega) (by omega)
        have hm : x % b < 64 := Nat.lt_of_lt_of_le (Nat.mod_lt _ (by omega)) hb'
        obtain ⟨ds', h, h'⟩ := ih (x / b) (ds ++ [[digitChar (x % b)]]) f
          (by simp only [List.length_cons] at h1; omega) (by omega)
        refine ⟨ds', ?_, ?_⟩
        · have hc : (!x != 0) = false := by simp [hx]
          simp only [List.forIn_cons, hc, Bool.false_eq_true, if_false, ge_strIndex_digit _ hm, pure_bind, hsh]
          simp only [hsh] at h
          exact h
        · rw [h']; simp [toBaseGo, hx]

theorem ge_to_base (b sh : Nat) (hb : 2 ≤ b) (hb' : b ≤ 64) (hsh : ∀ x, x >>> sh = x / b) (x : Nat) :
    (if (x == 0) = true then Py.strIndex C_BASE64 0
    else do
      let __s ←
        forIn (m := Py.M) (List.range (x + 1)) (x, ([] : List Bytes)) fun _ __s =>
            if (!__s.fst != 0) = true then pure (ForInStep.done (__s.fst, __s.snd))
            else do
              let __do_lift ← Py.strIndex C_BASE64 (__s.fst % b)
              pure (ForInStep.yield (__s.fst >>> sh, __s.snd ++ [__do_lift]))
      if (__s.fst != 0) = true then do
          throw (Py.Err.unsupported "while loop outlived its fuel")
          pure (Py.join [] __s.snd.reverse)
        else pure (Py.join [] __s.snd.reverse)) =
    Except.ok (toBase b x) := by
  by_cases hx : x = 0
  · subst hx
    simp only [beq_self_eq_true, if_true, toBase, ge_strIndex_digit 0 (by omega)]
    rfl
  · obtain ⟨ds', h, h'⟩ := ge_base_loop b sh hb hb' hsh (List.range (x + 1)) x [] (x + 1) (by simp) (by omega)
    have hc : (x == 0) = false := by simp [hx]
    simp only [hc, Bool.false_eq_true, if_false]
    rw [h]
    simp only [toBase, hx, if_false]
    simp at h'
    rw [← h']
    simp [Py.join]
    rfl

theorem int_to_base4_eq (x : Nat) : int_to_base4 x = .ok (intToBase4 x) := by
  simp only [int_to_base4]
  exact ge_to_base 4 2 (by omega) (by omega) (fun x => Nat.shiftRight_eq_div_pow x 2) x

theorem int_to_base64_eq (x : Nat) : int_to_base64 x = .ok (intToBase64 x) := by
  simp only [int_to_base64]
  exact ge_to_base 64 6 (by omega) (by omega) (fun x => Nat.shiftRight_eq_div_pow x 6) x

/-! ### base64_to_int / pagination tokens -/

theorem ge_find_zipIdx (c : Nat) : ∀ (l : List Nat) (k : Nat),
    ((l.zipIdx k).map (fun ai => (([ai.1] : Bytes), ai.2))).find? (fun kv => kv.1 == [c]) =
      (if l.idxOf c < l.length then some ([c], k + l.idxOf c) else none)
  | [], k => by simp
  | a :: l, k => by
    simp only [List.zipIdx_cons, List.map_cons, List.find?_cons, List.idxOf_cons, List.length_cons]
    by_cases h : a = c
    · subst h; simp
    · have h1 : (([a] : Bytes) == [c]) = false := by simp [h]
      have h2 : (a == c) = false := by simp [h]
      rw [h1, h2, ge_find_zipIdx c l (k + 1)]
      simp only [cond_false, Nat.add_lt_add_iff_right]
      split
      · congr 2; omega
      · rfl

theorem ge_index_eq : C_BASE64_INDEX = (Layout.base64.zipIdx 0).map (fun ai => (([ai.1] : Bytes), ai.2)) := by
  decide

theorem ge_dictGet (c : Nat) : Py.dictGet C_BASE64_INDEX [c] =
    match base64Index c with | some v => .ok v | none => .error (.exc "KeyError") := by
  unfold Py.dictGet base64Index
  rw [ge_index_eq, ge_find_zipIdx]
  simp only [Nat.zero_add]
  by_cases h : List.idxOf c Layout.base64 < Layout.base64.length
  · simp only [h, if_true]
  · simp only [h, if_false]


theorem ge_forIn_congr {σ : Type} (f g : Nat → σ → Py.M (ForInStep σ)) : ∀ (l : List Nat) (init : σ),
    (∀ i ∈ l, ∀ st, f i st = g i st) → forIn l init f = forIn l init g
  | [], _, _ => rfl
  | a :: l, init, h => by
    simp only [List.forIn_cons, h a (by simp)]
    congr 1
    funext r
    cases r with
    | done b => rfl
    | yield b => exact ge_forIn_congr f g l b (fun i hi => h i (by simp [hi]))

/-- the loop body of `base64_to_int` on the string `s` -/
def ge_b64body (s : Bytes) : Nat → Nat × Nat × Bytes × Nat → Py.M (ForInStep (Nat × Nat × Bytes × Nat)) :=
  fun i_ __s => do
    let __do_lift ← Py.strIndex s i_
    let __do_lift_1 ← Py.dictGet C_BASE64_INDEX __do_lift
    pure (ForInStep.yield (__s.fst * 64, __s.snd.fst + __do_lift_1 * __s.fst, __do_lift, __do_lift_1))

theorem ge_base64ToInt_snoc (s : Bytes) (c : Nat) : base64ToInt (s ++ [c]) =
    match base64ToInt s, base64Index c with
    | some x, some v => some (x * 64 + v)
    | _, _ => none := by
  unfold base64ToInt
  rw [List.foldl_append]
  rfl

theorem ge_strIndex_snoc_last (s : Bytes) (c : Nat) : Py.strIndex (s ++ [c]) s.length = .ok [c] := by
  simp [Py.strIndex]

theorem ge_strIndex_snoc_lt (s : Bytes) (c i : Nat) (h : i < s.length) :
    Py.strIndex (s ++ [c]) i = Py.strIndex s i := by
  simp [Py.strIndex, List.getElem?_append_left h]

theorem ge_b64_loop : ∀ (n : Nat) (s : Bytes), s.length = n → ∀ (p x : Nat) (c0 : Bytes) (v0 : Nat),
    (forIn (List.range s.length).reverse (p, x, c0, v0) (ge_b64body s)).toOption.map (·.2.1)
      = (base64ToInt s).map (fun y => x + y * p)
  | 0, s, h => by
    intro p x c0 v0
    have : s = [] := List.length_eq_zero_iff.mp h
    subst this
    simp only [List.length_nil, List.range_zero, List.reverse_nil, List.forIn_nil]
    show some x = some (x + 0 * p)
    simp
  | n + 1, s, h => by
    intro p x c0 v0
    rcases List.eq_nil_or_concat s with rfl | ⟨init, c, hcat⟩
    · simp at h
    · have hcat' : s = init ++ [c] := by simpa using hcat
      subst hcat'
      have hl : init.length = n := by simpa using h
      rw [List.length_append, List.length_singleton, List.range_succ, List.reverse_append, List.reverse_singleton,
        List.singleton_append, List.forIn_cons, ge_base64ToInt_snoc]
      have hcongr : ∀ st, forIn (List.range init.length).reverse st (ge_b64body (init ++ [c])) =
          forIn (List.range init.length).reverse st (ge_b64body init) := by
        intro st
        apply ge_forIn_congr
        intro i hi st'
        have : i < init.length := by simpa using hi
        simp only [ge_b64body, ge_strIndex_snoc_lt init c i this]
      have hb : ge_b64body (init ++ [c]) init.length (p, x, c0, v0) =
          match base64Index c with
          | some v => .ok (ForInStep.yield (p * 64, x + v * p, [c], v))
          | none => .error (.exc "KeyError") := by
        simp only [ge_b64body, ge_strIndex_snoc_last]
        show (Py.dictGet C_BASE64_INDEX [c] >>= _) = _
        rw [ge_dictGet]
        cases base64Index c <;> rfl
      rw [hb]
      cases hv : base64Index c with
      | none =>
        cases base64ToInt init <;> rfl
      | some v =>
        show (forIn (List.range init.length).reverse (p * 64, x + v * p, [c], v) (ge_b64body (init ++ [c]))).toOption.map (·.2.1) = _
        rw [hcongr, ge_b64_loop n init hl]
        cases base64ToInt init with
        | none => rfl
        | some y =>
          simp only [Option.map_some]
          congr 1
          rw [Nat.add_mul, Nat.mul_assoc, Nat.mul_comm 64 p]
          omega

/-- the code fails (KeyError) exactly where the model says `none` -/
theorem base64_to_int_eq (s : Bytes) : (base64_to_int s).toOption = base64ToInt s := by
  simp only [base64_to_int]
  have := ge_b64_loop s.length s rfl 1 0 [] 0
  simp only [Nat.mul_one, Nat.zero_add, Option.map_id'] at this
  rw [← this]
  show Except.toOption (forIn (List.range s.length).reverse (1, 0, [], 0) (ge_b64body s) >>= _) = _
  cases forIn (List.range s.length).reverse ((1 : Nat), (0 : Nat), ([] : Bytes), (0 : Nat)) (ge_b64body s) <;> rfl

theorem build_pagination_token_eq (i path : Nat) : build_pagination_token i path = .ok (buildToken i path) := by
  simp only [build_pagination_token, int_to_base64_eq]
  rfl

/-- the code fails (ValueError / KeyError) exactly where the model says `none` -/
theorem parse_pagination_token_eq (t : Bytes) : (parse_pagination_token t).toOption = parseToken t := by
  simp only [parse_pagination_token, parseToken, Py.split1]
  have hb := base64_to_int_eq
  rcases hs : splitOn 35 t with _ | ⟨a, _ | ⟨b, _ | ⟨c, r⟩⟩⟩
  · rfl
  · rfl
  · simp only [Py.unpack2, Py.int]
    rw [← hb b]
    simp only [bind, Except.bind]
    cases decToNat? a <;> cases base64_to_int b <;> rfl
  · rfl

#print axioms https_variation_eq
#print axioms lru_variations_eq
#print axioms lru_iter_eq
#print axioms lru_dirname_eq
#print axioms detailed_chunks_iter_eq
#print axioms chunks_iter_eq
#print axioms chunks_iter_zero
#print axioms base4_append_eq
#print axioms int_to_base4_eq
#print axioms int_to_base64_eq
#print axioms base64_to_int_eq
#print axioms build_pagination_token_eq
#print axioms parse_pagination_token_eq

end Traph.Gen

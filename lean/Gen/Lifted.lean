import Gen.HelpersEq
import Proofs.Variations
/-! Property theorems restated on the functions GENERATED from `traph/helpers.py` (Gen/Helpers.lean): what C17, the
    token clauses of C09/C10 and the chunk arithmetic of C02/C19 say about the source as it is now.  Each is the
    corresponding theorem about the hand-written model carried over by the equivalences of Gen/HelpersEq.lean. -/
namespace Traph.Gen
open Traph

theorem ge_ok_of_toOption {α} {x : Py.M α} {v : α} (h : x.toOption = some v) : x = .ok v := by
  cases x with
  | error e => simp [Except.toOption] at h
  | ok a => simp [Except.toOption] at h; rw [h]

/-- C17: expanding never fails — for EVERY byte string — and lists the argument first -/
theorem C17_source_total (b : Bytes) : ∃ vs, lru_variations b = .ok vs ∧ vs.head? = some b :=
  ⟨lruVariations b, lru_variations_eq b, Traph.C17_head b⟩

/-- C17: on the property's grammar the expansion has no duplicates and is closed: expanding any member succeeds and
    yields a permutation of the same list -/
theorem C17_source_closed (x : Lru17) (h : x.Wf) :
    ∃ vs, lru_variations x.bytes = .ok vs ∧ vs.Nodup ∧
      ∀ y ∈ vs, ∃ vy, lru_variations y = .ok vy ∧ vy.Perm vs :=
  ⟨lruVariations x.bytes, lru_variations_eq _, Traph.C17_nodup x h,
   fun y hy => ⟨lruVariations y, lru_variations_eq y, Traph.C17_closed x h y hy⟩⟩

/-- C17: every member differs from the argument in the scheme stem and a trailing `www` host stem only -/
theorem C17_source_local (x : Lru17) (h : x.Wf) :
    ∃ vs, lru_variations x.bytes = .ok vs ∧ ∀ y ∈ vs, ∃ x' : Lru17, x'.Wf ∧ x'.bytes = y ∧
      x'.port = x.port ∧ x'.rest = x.rest ∧
      (x'.scheme = x.scheme ∨ (x.scheme = http ∧ x'.scheme = https) ∨ (x.scheme = https ∧ x'.scheme = http)) ∧
      (x'.hosts = x.hosts ∨ x'.hosts = x.hosts ++ [www] ∨ x'.hosts ++ [www] = x.hosts) :=
  ⟨lruVariations x.bytes, lru_variations_eq _, Traph.C17_local x h⟩

/-- C09 / C10: a token built from (prefix index, path) parses back to exactly that pair, without any exception -/
theorem C09_source_token_roundtrip (i path : Nat) :
    ∃ t, build_pagination_token i path = .ok t ∧ parse_pagination_token t = .ok (i, path) :=
  ⟨buildToken i path, build_pagination_token_eq i path,
   ge_ok_of_toOption (by rw [parse_pagination_token_eq]; exact parseToken_buildToken i path)⟩

/-- C09: the base-64 rendering of a path reads back -/
theorem C09_source_base64_roundtrip (x : Nat) :
    ∃ s, int_to_base64 x = .ok s ∧ base64_to_int s = .ok x :=
  ⟨intToBase64 x, int_to_base64_eq x,
   ge_ok_of_toOption (by rw [base64_to_int_eq]; exact base64ToInt_intToBase64 x)⟩

/-- C02 / C19: cutting a stem into 74-byte chunks loses nothing, and a non-empty stem gives exactly ⌈len/74⌉ chunks -/
theorem C19_source_chunks (s : Bytes) :
    ∃ cs, chunks_iter 74 s = .ok cs ∧ cs.flatten = s ∧ (s ≠ [] → cs.length = (s.length + 74 - 1) / 74) :=
  ⟨chunks 74 s, chunks_iter_eq 74 s (by decide), chunks_flatten 74 (by decide) s,
   fun hs => chunks_length 74 (by decide) s hs⟩

/-- C02: an LRU is cut into its stems after every separator -/
theorem C02_source_lru_iter (b : Bytes) : lru_iter b = .ok (lruIter b) := lru_iter_eq b

end Traph.Gen

#print axioms Traph.Gen.C17_source_total
#print axioms Traph.Gen.C17_source_closed
#print axioms Traph.Gen.C17_source_local
#print axioms Traph.Gen.C09_source_token_roundtrip
#print axioms Traph.Gen.C09_source_base64_roundtrip
#print axioms Traph.Gen.C19_source_chunks
#print axioms Traph.Gen.C02_source_lru_iter

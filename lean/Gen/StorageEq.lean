import Gen.Storage
import Proofs.StorageSim
/-! The translation tie for the storage layer: every method generated from `traph/storage/{file,memory,memmap}.py`
    by `gen/gen_storage.py` (`Gen/Storage.lean`, regenerated on every run) equals the corresponding transition of the
    storage machines of the model (`Traph/Storage.lean`: `FileSt`, `MemSt`, `mmapRead`) — the machines `C15_equiv`,
    `C15_mmap`, `C15_file_write`, `C15_mem_write` are about. -/
namespace Traph.Gen
open Traph

/-- the model's view of a `FileStorage` object: the file's bytes and cursor -/
def FileStorage.toSt (x : FileStorage) : FileSt := { data := x.file.data, pos := x.file.pos }
def FileStorage.ofSt (bs : Nat) (f : FileSt) : FileStorage := { block_size := bs, file := { data := f.data, pos := f.pos } }
def MemoryStorage.toSt (x : MemoryStorage) : MemSt := { data := x.array }
def MemoryStorage.ofSt (bs : Nat) (m : MemSt) : MemoryStorage := { block_size := bs, array := m.data }

theorem FileStorage.len_eq (x : FileStorage) :
    x.len = .ok (FileStorage.ofSt x.block_size x.toSt.len.1, x.toSt.len.2) := by
  cases x; rfl

/-- the open-time corruption signal: the length is not a whole number of blocks -/
theorem FileStorage.check_for_corruption_eq (x : FileStorage) (h : 0 < x.block_size) :
    x.check_for_corruption =
      .ok (FileStorage.ofSt x.block_size x.toSt.len.1, decide (x.file.data.length % x.block_size ≠ 0)) := by
  obtain ⟨bs, file⟩ := x
  have hbs : bs ≠ 0 := by simp at h; omega
  simp only [FileStorage.check_for_corruption, FileStorage.len, Py.mod, Py.File.seekEnd, Py.File.tell,
    bind, pure, Except.bind, Except.pure, if_neg hbs]
  by_cases hm : file.data.length % bs = 0 <;>
    simp [hm, FileStorage.ofSt, FileStorage.toSt, FileSt.len]

theorem FileStorage.read_eq (x : FileStorage) (block : Option Nat) :
    x.read block = .ok (FileStorage.ofSt x.block_size (x.toSt.read x.block_size block).1,
                        (x.toSt.read x.block_size block).2) := by
  obtain ⟨bs, file⟩ := x
  cases block <;>
    simp [FileStorage.read, Py.File.seek, Py.File.read, Py.orNone, FileStorage.ofSt, FileStorage.toSt,
      FileSt.read, pure, Except.pure]

/-- `tell() - block_size` is computed on integers: it equals the model's (natural-number) result whenever it is not
    negative, in particular for every block-sized write -/
theorem FileStorage.write_eq (x : FileStorage) (data : Bytes) (block : Option Nat)
    (h : x.block_size ≤ block.getD x.file.data.length + data.length) :
    x.write data block = .ok (FileStorage.ofSt x.block_size (x.toSt.write x.block_size data block).1,
                              (x.toSt.write x.block_size data block).2) := by
  obtain ⟨bs, file⟩ := x
  cases block <;>
    simp_all [FileStorage.write, Py.File.seek, Py.File.seekEnd, Py.File.write, Py.File.tell, Py.sub,
      FileStorage.ofSt, FileStorage.toSt, FileSt.write, bind, pure, Except.bind, Except.pure]

theorem MemoryStorage.len_eq (x : MemoryStorage) : x.len = .ok (x, x.array.length) := by
  rfl

theorem MemoryStorage.read_eq (x : MemoryStorage) (block : Nat) :
    x.read block = .ok (x, x.toSt.read x.block_size block) := by
  simp [MemoryStorage.read, Py.orNone, Py.slice, MemoryStorage.toSt, MemSt.read, pure, Except.pure]

theorem MemoryStorage.write_eq (x : MemoryStorage) (data : Bytes) (block : Option Nat)
    (h : block = none → x.block_size ≤ x.array.length + data.length) :
    x.write data block = .ok (MemoryStorage.ofSt x.block_size (x.toSt.write x.block_size data block).1,
                              (x.toSt.write x.block_size data block).2) := by
  obtain ⟨bs, arr⟩ := x
  cases block with
  | none =>
    have h' := h rfl
    simp_all [MemoryStorage.write, Py.sub, MemoryStorage.ofSt, MemoryStorage.toSt, MemSt.write,
      bind, pure, Except.bind, Except.pure]
  | some b =>
    simp [MemoryStorage.write, Py.sliceAssign, MemoryStorage.ofSt, MemoryStorage.toSt, MemSt.write,
      pure, Except.pure]

theorem MemMapStorage.read_eq (x : MemMapStorage) (block : Nat) :
    x.read block = .ok (x, mmapRead x.map x.block_size block) := by
  simp [MemMapStorage.read, Py.orNone, Py.slice, mmapRead, pure, Except.pure]

/-- C15 restated on the generated methods: on the same whole-block bytes the memory-mapped reader and the file
    reader return the same block at every block-aligned offset -/
theorem C15_source_mmap (f : FileStorage) (m : MemMapStorage) (b : Blocks) (hbs : f.block_size = b.bs) (hm : m.block_size = b.bs)
    (hd : m.map = f.file.data) (h : f.toSt.Abs b) (hw : b.Wf) (off : Nat) (ha : off % b.bs = 0) :
    ∃ f', f.read (some off) = .ok (f', (mmapRead m.map m.block_size off)) ∧ m.read off = .ok (m, mmapRead m.map m.block_size off) := by
  refine ⟨FileStorage.ofSt f.block_size (f.toSt.read f.block_size (some off)).1, ?_, m.read_eq off⟩
  have e : mmapRead m.map m.block_size off = (f.toSt.read f.block_size (some off)).2 := by
    rw [hm, hd, hbs]; exact mmapRead_file_sim f.toSt b h hw off ha
  rw [f.read_eq (some off), e]

/-- C15 restated on the generated methods: one disciplined write (block-sized data; append, or an aligned offset inside
    the store or at its end) leaves the file object and the bytearray with the same bytes and returns the same block -/
theorem C15_source_write (f : FileStorage) (m : MemoryStorage) (b : Blocks) (hbs : f.block_size = b.bs) (hm : m.block_size = b.bs)
    (hf : f.toSt.Abs b) (hmm : m.toSt.Abs b) (hw : b.Wf) (data : Bytes) (block : Option Nat) (hd : b.Disciplined data block) :
    ∃ f' m' r, f.write data block = .ok (f', r) ∧ m.write data block = .ok (m', r) ∧ f'.file.data = m'.array ∧
      f'.toSt.Abs (b.write data block).1 ∧ m'.toSt.Abs (b.write data block).1 := by
  have hfw := f.write_eq data block (by
    rw [hbs, hd.1]; omega)
  have hmw := m.write_eq data block (by
    intro _; rw [hm, hd.1]; omega)
  obtain ⟨hfa, hfr⟩ := FileSt.write_sim f.toSt b hf hw data block hd
  obtain ⟨hma, hmr⟩ := MemSt.write_sim m.toSt b hmm hw data block hd
  rw [hbs] at hfw; rw [hm] at hmw
  refine ⟨FileStorage.ofSt b.bs (f.toSt.write b.bs data block).1,
    MemoryStorage.ofSt b.bs (m.toSt.write b.bs data block).1, _, hfw, ?_, ?_, hfa, hma⟩
  · rw [hmw, hfr, hmr]
  · show (f.toSt.write b.bs data block).1.data = (m.toSt.write b.bs data block).1.data
    rw [hfa, hma]

#print axioms FileStorage.len_eq
#print axioms FileStorage.check_for_corruption_eq
#print axioms FileStorage.read_eq
#print axioms FileStorage.write_eq
#print axioms MemoryStorage.len_eq
#print axioms MemoryStorage.read_eq
#print axioms MemoryStorage.write_eq
#print axioms MemMapStorage.read_eq
#print axioms C15_source_mmap
#print axioms C15_source_write

end Traph.Gen
